#!/usr/bin/env python3
"""Regenerates MANIFEST.json from the table below (kept in one place so the manifest stays valid)."""
import json

SETUP = "cd /verif/engine && GOFLAGS=-mod=mod GOPROXY=off GOSUMDB=off GOTOOLCHAIN=local go build -o /verif/bin/symgo ./cmd/symgo"

TECH = "symbolic execution of the repository's go/ssa (own engine symgo) + z3/cvc5 SMT verdicts per path, native replay of counterexamples"

CHECKS = {
 "C01": dict(
  text="Bounded symbolic model checking of the real VM: for every generated Numscript program (NumGen bound) every path of vm.Run over unbounded-integer symbolic balances, amounts, caps and overdrafts is executed from go/ssa; the running-balance floor rule is asserted on each emitted posting and decided by z3 for all values at once; 'short sources => ErrInsufficientFund and no result' is checked against the reference reading. ZZ_C01Save: the same floor rule on six programs that put funds aside with `save` (a difference, a sum, everything; followed by sends with bounded overdrafts) and on two programs reading balance() of two assets of one account, amounts and opening balances arbitrary integers. Holds for all integers within the program bound; says nothing outside it.",
  note="Trusted: the engine's SSA semantics and big.Int->SMT Int mapping (validated by replaying solver witness models natively), z3/cvc5, the native compiler run (program lifted from the current tree), RefSem for the insufficiency clause. Map iteration order fixed to insertion order.",
  ref="DESIGN §5 C01"),
 "C03": dict(
  text="Bounded symbolic model checking: single-send programs of NumGen run through the real VM from go/ssa with symbolic balances/amounts; the sum law, non-negativity, kept-part bookkeeping (final balance = opening - sent + received), source/destination max and ordered-source exhaustion are asserted without a reference model; Allotment.Allocate's floor-plus-leftover law is decided for a symbolic total over 9 portion vectors.",
  note="Trusted: engine semantics (validated by native witness replays), solver, native compiler. Portions are concrete (linear arithmetic).",
  ref="DESIGN §5 C03"),
 "C08": dict(
  text="Differential bounded model checking: native compiler + symbolic VM against a ~250-line reference semantics (RefSem) evaluated on the same symbolic inputs; per (source,destination,asset) the summed amounts are proved equal on every path, outcome classes (ok/insufficient/invalid/vars refused) must agree, and Compile must accept exactly the programs the static rules of the language accept. A second differential (ZZ_C08X) runs 12 hand-read programs over the rest of the grammar (save, metadata statements, arithmetic — also over portioned sources —, typed variables, balance(), meta()) with amounts written with leading zeros, and checks that seven texts the language rejects (characters no token has, unterminated block, type error) are refused; ZZ_C08Cache runs command.Compiler.Compile (interpreted; sha256 = injective token appended in place, gcache = bounded LFU model) with cache sizes 1/2/1024 and two concurrent texts under every schedule within the pre-emption budget, including pre-emptions between nested calls of one statement.",
  note="Trusted: RefSem (harness/internal/machine/vm/zz_ast.go), engine, solver. Zero-amount postings and splitting of adjacent postings are not compared.",
  ref="DESIGN §5 C08"),
 "C12": dict(
  text="Bounded symbolic model checking for crashes: every path of every NumGen program and of 35 odd-but-valid programs (save from non-sources, repeated balance() lookups, negative arithmetic, missing/extra/ill-formed variables, bad metadata) with symbolic amounts and balances; any Go panic or exhausted instruction budget on a feasible path is a violation with solver-produced inputs, replayed natively; the compiled Program is executed twice and must behave identically. ZZ_C12Alloc: one AllocateResource step from resource tables of boundary sizes 0..65537 (value of the new constant symbolic): refused with the table unchanged, or the 16-bit address denotes the entry just added. ZZ_C12Err: CompileErrorList.Error (what the handlers render for COMPILATION_FAILED) never panics for script texts of 0..4 arbitrary bytes out of {LF, CR, TAB, space, letter} with the error at the end of input or at a one-letter token.",
  note="Arbitrary byte strings into the ANTLR lexer/parser are outside the claim (not encodable). Trusted: engine, solver, native compiler.",
  ref="DESIGN §5 C12"),
 "C09": dict(
  text="Bounded symbolic model checking through the real Commander: 552 posting patterns (all 1- and 2-posting combinations over {world,a,b,c}x{USD/2,EUR}, 8 three-posting patterns) with symbolic amounts and balances run Postings.Validate, TxToScriptData, the native compiler, the symbolic VM, locker, batcher and in-memory store; the committed transaction and the persisted log are compared posting by posting with the request, rejection must leave nothing behind, and acceptance must coincide with in-order coverage; postings in assets the grammar does not allow (wrong letter case), submitted without up-front validation as v2 does, are refused as a whole. ZZ_C09Bulk: bulks of 2..3 posting-mode elements go through v2.ProcessBulk (JSON model, amounts symbolic inside the text, presence of metadata/reference/timestamp arbitrary per element); each element must reach the engine with exactly its own script, variables, metadata, reference, timestamp and key. ZZ_C09Http: v1 and v2 postTransaction with a posting-mode JSON body (1..2 postings, amounts arbitrary integers in the text) make one engine call carrying exactly TxToScriptData of the body; v1 refuses negative amounts up front.",
  note="chi routing and middlewares are outside the claim. Trusted: engine, solver, InMemoryStore as the durable store.",
  ref="DESIGN §5 C09"),
 "C10": dict(
  text="Bounded symbolic model checking of RevertTransaction through the real Commander: 11 original posting patterns (1-5 postings) x forced/unforced x with/without an intermediate spend, symbolic non-negative amounts and balances; TransactionData.Reverse alone on 0..7 postings; 2-3 racing reverts under every schedule within the pre-emption budget; the v1/v2 revert handlers with an arbitrary id and an arbitrary force/disableChecks value, and bulks of 2..3 revert elements (force absent/true/false per element) against a recording backend; revert postings = reversed original with swapped ends, reverted flag, balances restored when nothing moved, unforced revert refused with insufficient funds and never overdrawing, second revert refused.",
  note="Trusted: engine, solver, InMemoryStore.",
  ref="DESIGN §5 C10"),
 "C13": dict(
  text="Bounded symbolic model checking of the log round trip: every log kind the commander can write (7 write kinds incl. delete-metadata on accounts and transactions; metadata of one entry, nil, empty, two entries; also right after a preview of the same request; creates also with six client-supplied timestamps at the edges of what RFC 3339 can hold) is produced by the real write path with symbolic ids and amounts, encoded by the rope-level JSON model (interpreting the repository's MarshalJSON/UnmarshalJSON methods), decoded by ChainedLog.UnmarshalJSON/HydrateLog, re-encoded (text equality decided on ropes) and its hash recomputed from the round-tripped entry and its predecessor.",
  note="encoding/json is a model (validated on witness replays), sha256 is an injective token; arbitrary Unicode metadata and RFC3339Nano formatting of arbitrary instants are outside the claim; transaction ids < 2^62.",
  ref="DESIGN §5 C13"),
 "C14": dict(
  text="Two-world differential, bounded symbolic model checking: for each of 7 write kinds, [preview w; real w; real r] against [real w; real r] from the same symbolic pre-state (last log id L, last transaction id N, balance) — preview persists and publishes nothing and consumes no id, answers what the real write answers, and every later response, id, log entry and event is identical in both worlds; the same differential with an idempotency key that was already used (the preview must answer what the real retry answers). ZZ_C14Flag (api/v1 and api/v2): getCommandParameters, with net/url.ParseQuery interpreted, puts a request in dry-run mode exactly when the preview=/dryRun= value — an arbitrary alphanumeric string of 1..4 bytes — is one of the preview spellings (true or yes in any letter case, 1).",
  note="The preview spellings are those both API versions accept at the pinned commit (documented boolean plus legacy yes). Sequential requests; restarts after a preview are covered by the symbolic pre-state (Init only reads the tail). Trusted: engine, solver, InMemoryStore.",
  ref="DESIGN §5 C14"),
 "C16": dict(
  text="Bounded symbolic model checking of event emission: per write kind x {real, preview, repeated through an idempotency key} every event — decoded from the JSON payload the real bus.ledgerMonitor hands to a recording publisher — is matched against a persisted log entry (transaction ids symbolic; for reverts which transaction is reverted and which reverts), previews and refused writes (including reverts and metadata writes aimed at a transaction that does not exist) publish nothing, every persisted change is published at least once; ZZ_C16Conc: 1-2 concurrent writes whose client may give up at an arbitrary moment — at rest persisted entries and published events are in bijection.",
  note="publish.NewMessage is modelled (payload = JSON model of the real EventMessage; uuid and otel context constant); watermill transport is not executed. Concurrent emission is not part of this check.",
  ref="DESIGN §5 C16"),
 "C18": dict(
  text="Bounded symbolic model checking of v2.ProcessBulk against a recording backend: bulks of 1..3 elements, the kind of each element (four known actions, one unknown, a payload that does not decode, a metadata element on an unknown target type) and the error class enumerated, success/failure of each element and continueOnFailure as solver variables; executed calls (order, idempotency keys), one result per processed element at its position with the matching type, early stop and the failure signal are compared with the in-order reference; the same through bulkHandler (JSON body, continueOnFailure parameter absent or an arbitrary alphanumeric string of 1..4 bytes, status code, JSON answer); two bulk requests in a row (the second must run on its own keys and payloads); per-element arguments of ADD/DELETE_METADATA elements.",
  note="Element payloads are concrete well-formed JSON decoded by the JSON model; the inputs are Booleans and small choices, so the engine's forking does the exploration and the solver decides feasibility and the final formulas. chi routing is not executed; sync.Pool is modelled as always reusing.",
  ref="DESIGN §5 C18"),
 "C19": dict(
  text="Solver verdict for the middleware: api.ReadOnly wrapped around a flag-setting handler is executed with the request method as an arbitrary byte string of length 0..8; the handler is reached iff the method is GET, HEAD or OPTIONS (z3 supplies an offending method otherwise). Complemented by structural SSA checks (not solver verdicts; they include that no function of the API packages stores to http.Request.Method or chi's RouteMethod): api.NewRouter installs ReadOnly on the root mux under the readOnly flag before any route, and no handler registered under GET/HEAD/OPTIONS or an any-method registration in v1/v2 reaches CreateTransaction/RevertTransaction/SaveMeta/DeleteMetadata in the call graph.",
  note="chi's matcher and third-party middlewares are not executed; the structural layers are a syntactic over-approximation.",
  ref="DESIGN §5 C19"),
 "C20": dict(
  text="Bounded symbolic model checking of the filter-to-SQL builders: for 16 (listing, key, operator) cases the client text — as value, and as the bracketed part of metadata[...] / balance[...] keys — is an arbitrary byte string of length 0..3 (thorough 4); a set operator key ($and / $or followed by 0..3 arbitrary bytes) is refused or builds the plain operator's clause; the real accountQueryContext, transactionQueryContext, the matcher closures of GetAggregatedBalances and logsQueryBuilder and filterAccountAddress* build the clause, which must tokenise (SQL token kinds, plus JSON/jsonpath token kinds inside literals) exactly like the clause for a harmless string of the same shape, unless the request is rejected.",
  note="bun's escaping of bound arguments is a library contract and not encoded (but the number of ? bytes of the clause, which bun substitutes quoted or not, must not depend on client text); backslash is assumed literal inside SQL quotes (standard_conforming_strings). The scanner in the harness is the oracle.",
  ref="DESIGN §5 C20"),
 "C02": dict(
  text="Bounded symbolic model checking with schedules as decisions: the real Commander, DefaultLocker, Referencer, Batcher and job.Runner run on engine threads with a Yield before every statement (overlay instrumentation); two concurrent sends from one account — the source named literally, by an account variable, or through meta(), each send either a fixed amount or send [ASSET *], one or both clients possibly giving up (context cancelled by a separate thread at an arbitrary moment) — with symbolic opening balance and amounts; after quiescence the persisted log is replayed in order and every posting must be covered at its position (z3 finds 'both accepted and a1+a2 > balance' otherwise), and every Lock call must carry the resolved source in its write set.",
  note="Bound: pre-emption budget 1 (thorough 2) at statement boundaries of the instrumented files, switches forced by blocking resolved deterministically (lowest thread id); each Store call atomic; InMemoryStore stands for the database. Counterexample schedules are replayed natively by a schedule controller (goroutine gating at the same yields).",
  ref="DESIGN §5 C02"),
 "C05": dict(
  text="Bounded symbolic model checking with schedules and one crash as decisions: 2 (thorough 3) concurrent writes of all kinds from a symbolic tail (L, N), the process may stop at any statement boundary, then a new Commander is initialised on the same store and writes again; log ids L+1.. in insertion order, every hash recomputed from its predecessor (sha256 as injective token, JSON model), transaction ids N+1.. in log order — before and after the restart. ZZ_C05Fresh: 6 staged histories on a ledger that starts empty, with a stop-or-crash and restart between stages (including while the log holds no transaction): ids and transaction ids from 0, first entry chained on nothing.",
  note="Bound: pre-emption budget 1 (thorough 2) at statement boundaries of the instrumented files, switches forced by blocking resolved deterministically (lowest thread id); each Store call atomic; InMemoryStore stands for the database. Counterexample schedules are replayed natively by a schedule controller (goroutine gating at the same yields).",
  ref="DESIGN §5 C05"),
 "C06": dict(
  text="Bounded symbolic model checking with schedules, one crash and an InsertLogs fault as decisions/variables: at the instant a write returns success its marker must already be in the persisted log (asserted inside the client thread), acknowledged writes and log entries are in bijection at quiescence, failed or cut-off writes leave at most nothing/one entry, no entry without a request; an injected InsertLogs failure stops the process without acknowledging. The injected failure is a generic error, a wrapped context.Canceled or DeadlineExceeded (a decision). ZZ_C06Batch: every composition of batches — Batcher.nextBatch from 0..5 pending items with arbitrary values, maximum batch size 1..3, late arrivals between the cuts: each item in exactly one batch, in order, no batch above the maximum, a cut batch never altered, each callback once.",
  note="Bound: pre-emption budget 1 (thorough 2) at statement boundaries of the instrumented files, switches forced by blocking resolved deterministically (lowest thread id); each Store call atomic; InMemoryStore stands for the database. Counterexample schedules are replayed natively by a schedule controller (goroutine gating at the same yields). A failing InsertLogs persists nothing (one database transaction per batch).",
  ref="DESIGN §5 C06"),
 "C07": dict(
  text="Bounded symbolic model checking with schedules and one crash: two concurrent writes sharing an idempotency key (create/create, metadata/metadata, create/metadata, revert/revert; optionally a third, key-less create whose transaction reference equals the key; keys of 255 and 256 bytes), then stop-or-crash, restart and a retry with the same key; at most one log entry carries the key and all successful responses name the same transaction.",
  note="Bound: pre-emption budget 1 (thorough 2) at statement boundaries of the instrumented files, switches forced by blocking resolved deterministically (lowest thread id); each Store call atomic; InMemoryStore stands for the database. Counterexample schedules are replayed natively by a schedule controller (goroutine gating at the same yields).",
  ref="DESIGN §5 C07"),
 "C11": dict(
  text="Bounded symbolic model checking with schedules: 2-3 concurrent creates sharing a reference — plain, padded with white space, or with URL-ish characters — (sourced from a locked account or from @world only, optionally with a concurrent dry run carrying the same reference), then a later create with that reference; at most one committed transaction carries it, accepted requests = committed transactions, the later request is rejected with a conflict.",
  note="Bound: pre-emption budget 1 (thorough 2) at statement boundaries of the instrumented files, switches forced by blocking resolved deterministically (lowest thread id); each Store call atomic; InMemoryStore stands for the database. Counterexample schedules are replayed natively by a schedule controller (goroutine gating at the same yields).",
  ref="DESIGN §5 C11"),
 "C15": dict(
  text="Bounded symbolic model checking of the lock manager alone: 14 populations of 2-3 requests with read/write sets over two accounts, optionally one request cancelled by a separate thread at an arbitrary moment; every schedule with at most 1 (thorough 2) pre-emptions at statement boundaries of lock.go and linked_list.go, all blocking switches and select choices explored; read sets of up to two accounts, an account possibly in both sets of one request; exclusion when Lock returns, progress and no leftover lock or queued intent at quiescence; 6 staged-release populations in which holders release one at a time: whenever the system is at rest, every pending request conflicts with a current holder.",
  note="The inputs are schedules and cancellation moments (decisions); the solver's part is feasibility. Counterexample schedules are replayed natively by the schedule controller.",
  ref="DESIGN §5 C15"),
 "C17": dict(
  text="Bounded symbolic model checking of bunpaginate over an abstract ordered table: for collections of 0..4 rows with arbitrary increasing ids, every page size 1..n+1 and both orders, UsingColumn is followed through `next` until hasMore is false (each row exactly once, in order) and back through `previous` (the page before; from there `next` must lead back and `previous` one page further), every cursor being decoded again with UnmarshalCursor; UsingOffset's one-step law (page contents count, hasMore, next/previous offsets) is decided for arbitrary offset < 2^31 (bun keeps OFFSET as int32) and page size <= 1000 (the v1 maximum); full offset walks over 105 and 230 rows with page size arbitrary in 90..1000; every filter tree of depth <= 2 over {$match,$lt,$and,$or,$not} put into a cursor is decoded to a builder rendering the same clause; a query holding a filter value of 1..4 arbitrary printable bytes is written by EncodeCursor and read back by UnmarshalCursor (base64 alphabet and padding modelled bit-exactly); cursors of the transactions/accounts/logs listings with filters are encoded, decoded and must build the same WHERE clause.",
  note="*bun.SelectQuery is modelled as an ordered relation (Where/OrderExpr/Offset/Limit/Scan); bun's SQL generation and PostgreSQL are outside the claim; natively the replays run against a fake database/sql driver that parses the statements bun emits. reflect is answered from go/types; JSON/base64 are models.",
  ref="DESIGN §5 C17"),
}

NA = {
 "C04": "the projection of logs into balances/volumes is PL/pgSQL executed by PostgreSQL; there is no Go code to encode and no PostgreSQL in the sandbox (DESIGN §6)",
}

PENDING = {}

def main():
    checks = []
    for pid in sorted(CHECKS):
        c = CHECKS[pid]
        checks.append({
            "property_id": pid,
            "quick_cmd": f"./check {pid} quick",
            "thorough_cmd": f"./check {pid} thorough",
            "evidence_file": f"/verif/evidence/{pid}.json",
            "replay_cmd_template": "sh {path}/replay.sh",
            "engine": "symgo",
            "level_claimed": {"category": "model_checking", "text": c["text"], "design_ref": c["ref"]},
            "level_note": c["note"],
            "technique": TECH,
        })
    na = [{"property_id": k, "reason": v} for k, v in sorted({**NA, **PENDING}.items())]
    m = {
        "version": 1,
        "setup_cmd": SETUP,
        "hooks": {
            "guard": "none: no hook or instrumentation is committed to /repo; harnesses, the verifhook package and yield instrumentation reach the build only through go's -overlay mechanism (packages.Config.Overlay / go test -overlay)",
            "enable": "symgo builds the overlay from /verif/harness onto /repo's current working tree for the SSA load, the native compiler helper and the native replay tests",
            "baseline_off_cmd": "cd /repo && go test -vet=off -count=1 ./... ; cd /repo/libs && go test -vet=off -count=1 ./...",
            "source_commits": [],
            "add_only": True,
        },
        "engines": [{"name": "symgo", "path": "/verif/engine", "serves_properties": sorted(CHECKS), "kind_free_text": "symbolic interpreter for go/ssa (x/tools v0.29.0) with SMT-LIB2 back end (z3 4.8.12; z3 5.1.0 and cvc5 1.0 as fallbacks), re-execution DFS over decision prefixes, green threads with pre-emption bounding"}],
        "checks": checks,
        "not_applicable": na,
        "notes": "Fixes committed to /repo are listed in /verif/known_findings.json. Every check regenerates its encoding from /repo's current tree.",
    }
    json.dump(m, open("/verif/MANIFEST.json", "w"), indent=1)

if __name__ == "__main__":
    main()
