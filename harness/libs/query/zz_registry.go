package query

var zzRegistry = map[string]func(int){
	"ZZ_C20Op": ZZ_C20Op,
}
