package query

import (
	"testing"

	"github.com/formancehq/stack/libs/go-libs/verifhook"
)

func TestZZReplay(t *testing.T) {
	if err := verifhook.RunCases(zzRegistry); err != nil {
		t.Fatal(err)
	}
}
