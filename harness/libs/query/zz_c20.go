package query

import (
	"github.com/formancehq/stack/libs/go-libs/verifhook"
)

const ZZ_C20OpN = 4

func ZZ_C20OpDesc(i int) string {
	return "a filter body whose set operator key is $and / $or followed by " + string(rune('0'+i)) + " arbitrary byte(s)"
}

// ZZ_C20Op: the operator keys of a filter body are a closed vocabulary -- client text
// appended to one never reaches the clause.
func ZZ_C20Op(shape int) {
	base := []string{"$and", "$or"}[verifhook.Choose("base", 2)]
	op := base + verifhook.String("suffix", shape)
	items := []any{
		map[string]any{"$match": map[string]any{"k1": "v1"}},
		map[string]any{"$match": map[string]any{"k2": "v2"}},
	}
	b, err := mapMapToExpression(map[string]any{op: items})
	if err != nil {
		verifhook.Reach("rejected")
		return
	}
	verifhook.Reach("accepted")
	clause, _, err := b.Build(ContextFn(func(key, operator string, value any) (string, []any, error) {
		return key + " = ?", []any{value}, nil
	}))
	want := "(k1 = ?) " + base[1:] + " (k2 = ?)"
	verifhook.Assert(err == nil && verifhook.StrEq(clause, want), "C20 client text in an operator key of the filter body reaches the SQL clause")
	verifhook.Canary()
}
