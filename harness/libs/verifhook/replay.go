package verifhook

import (
	"bufio"
	"encoding/json"
	"fmt"
	"os"
	"runtime/debug"
)

// Case is one native replay request.
type Case struct {
	ID      string            `json:"id"`
	Harness string            `json:"harness"`
	Shape   int               `json:"shape"`
	Model   map[string]string `json:"model"`
	Sched   []SchedStep       `json:"sched,omitempty"`
}

type SchedStep struct {
	Thread string `json:"t"`
	Stop   string `json:"stop"`
	Site   string `json:"site,omitempty"`
	N      int    `json:"n,omitempty"`
}

type CaseResult struct {
	ID string `json:"id"`
	Result
}

// RunCases executes every case listed (one JSON object per line) in the file named by
// $VERIF_CASES against the registry, and writes one JSON result per line to
// $VERIF_RESULTS. It is called from the replay test of each harness package.
func RunCases(registry map[string]func(int)) error {
	in := os.Getenv("VERIF_CASES")
	out := os.Getenv("VERIF_RESULTS")
	if in == "" || out == "" {
		return nil
	}
	f, err := os.Open(in)
	if err != nil {
		return err
	}
	defer f.Close()
	w, err := os.Create(out)
	if err != nil {
		return err
	}
	defer w.Close()
	sc := bufio.NewScanner(f)
	sc.Buffer(make([]byte, 1<<20), 1<<26)
	for sc.Scan() {
		var c Case
		if err := json.Unmarshal(sc.Bytes(), &c); err != nil {
			return err
		}
		h := registry[c.Harness]
		if h == nil {
			return fmt.Errorf("unknown harness %q", c.Harness)
		}
		res := runOne(h, c)
		b, _ := json.Marshal(CaseResult{ID: c.ID, Result: res})
		w.Write(append(b, '\n'))
	}
	return sc.Err()
}

func runOne(h func(int), c Case) (res Result) {
	Begin(c.Model)
	CurrentCase = &c
	pan := ""
	assume := false
	func() {
		defer func() {
			if r := recover(); r != nil {
				if _, ok := r.(AssumeFailed); ok {
					assume = true
					return
				}
				pan = fmt.Sprintf("%v\n%s", r, debug.Stack())
			}
		}()
		if RunHook != nil {
			RunHook(h, c)
		} else {
			h(c.Shape)
		}
	}()
	res = End()
	if pan != "" {
		res.Panic = pan
	}
	res.Assume = assume
	return res
}

// CurrentCase is the case being replayed (schedules are read from it by the controller).
var CurrentCase *Case

// RunHook lets the concurrent controller wrap a harness run.
var RunHook func(h func(int), c Case)
