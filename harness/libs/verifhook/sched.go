package verifhook

// Native schedule control: replays a schedule found by the engine against the real
// build. The engine records a schedule as segments "thread T runs until it is
// pre-empted at its N-th Yield | blocks | ends | crashes at its N-th Yield"; the
// controller below releases one registered goroutine at a time accordingly.
// Goroutines are registered by verifhook.Go(name, f); the harness goroutine is "main";
// the first unknown goroutine that reaches a Yield is the pond worker ("worker").
// Unregistered goroutines without yields (e.g. the VM's printer) run freely.

import (
	"bytes"
	"fmt"
	"os"
	"runtime"
	"strconv"
	"sync"
	"time"
)

type nthread struct {
	name     string
	gid      int64
	gate     chan struct{}
	yields   int
	stopAt   int
	atGate   bool
	quiesce  bool
	done     bool
	reached  chan struct{}
	running  bool // holds the controller's permission to run
	mutexWait bool // parked because a mutex it wants is held
	dead     bool // belongs to a generation that crashed: never runs again
}

type controller struct {
	mu       sync.Mutex
	threads  map[string]*nthread
	byGID    map[int64]*nthread
	steps    []SchedStep
	diverged string
	crashed  bool
	finished chan struct{}
	active   bool
	workers  int
}

var ctl *controller

func curGID() int64 {
	var buf [64]byte
	n := runtime.Stack(buf[:], false)
	// "goroutine 123 ["
	b := buf[:n]
	b = bytes.TrimPrefix(b, []byte("goroutine "))
	i := bytes.IndexByte(b, ' ')
	if i < 0 {
		return -1
	}
	id, _ := strconv.ParseInt(string(b[:i]), 10, 64)
	return id
}

// goroutineStates parses runtime.Stack(all) into gid -> state.
func goroutineStates() map[int64]string {
	buf := make([]byte, 1<<20)
	n := runtime.Stack(buf, true)
	out := map[int64]string{}
	for _, blk := range bytes.Split(buf[:n], []byte("\n\n")) {
		if !bytes.HasPrefix(blk, []byte("goroutine ")) {
			continue
		}
		line := blk
		if i := bytes.IndexByte(line, '\n'); i >= 0 {
			line = line[:i]
		}
		rest := line[len("goroutine "):]
		i := bytes.IndexByte(rest, ' ')
		if i < 0 {
			continue
		}
		id, err := strconv.ParseInt(string(rest[:i]), 10, 64)
		if err != nil {
			continue
		}
		st := string(rest[i+1:])
		if a := bytes.IndexByte([]byte(st), '['); a >= 0 {
			st = st[a+1:]
		}
		if b := bytes.IndexAny([]byte(st), ",]"); b >= 0 {
			st = st[:b]
		}
		out[id] = st
	}
	return out
}

func (c *controller) register(name string, gid int64) *nthread {
	c.mu.Lock()
	defer c.mu.Unlock()
	t := c.threads[name]
	if t == nil {
		t = &nthread{name: name, gate: make(chan struct{}, 1), reached: make(chan struct{}, 1)}
		c.threads[name] = t
	}
	if gid >= 0 {
		t.gid = gid
		c.byGID[gid] = t
	}
	return t
}

func (c *controller) lookupGID(gid int64) *nthread {
	c.mu.Lock()
	defer c.mu.Unlock()
	return c.byGID[gid]
}

func (t *nthread) waitGate() {
	ctl.mu.Lock()
	if t.dead {
		ctl.mu.Unlock()
		select {} // a crashed generation never runs again
	}
	if !ctl.active {
		ctl.mu.Unlock()
		return
	}
	t.atGate = true
	ctl.mu.Unlock()
	<-t.gate
	ctl.mu.Lock()
	t.atGate = false
	ctl.mu.Unlock()
}

func nativeYield(site string) {
	c := ctl
	if c == nil || !c.active {
		return
	}
	gid := curGID()
	t := c.lookupGID(gid)
	if t == nil {
		// first yield of a goroutine nobody registered: the pond worker
		c.mu.Lock()
		c.workers++
		name := "worker"
		if c.workers > 1 {
			name = fmt.Sprintf("worker%d", c.workers)
		}
		c.mu.Unlock()
		t = c.register(name, gid)
		t.waitGate() // starts gated, like a freshly spawned engine thread
	} else {
		c.mu.Lock()
		running := t.running
		c.mu.Unlock()
		if !running {
			// woke up from a native block without being scheduled: wait for the controller
			t.waitGate()
		}
	}
	t.yields++
	if t.stopAt != 0 && t.yields == t.stopAt {
		select {
		case t.reached <- struct{}{}:
		default:
		}
		t.waitGate()
	}
}

// processDied records that a goroutine of the program under test ended in an uncaught
// panic: in production the process would be gone. The replay stops judging from here.
func processDied(r interface{}) {
	if os.Getenv("VERIF_DEBUG") != "" {
		buf := make([]byte, 1<<16)
		n := runtime.Stack(buf, false)
		fmt.Fprintf(os.Stderr, "processDied(%v) in case %v\n%s\n", r, CurrentCase.ID, buf[:n])
	}
	mu.Lock()
	if Died == "" {
		Died = fmt.Sprint(r)
	}
	mu.Unlock()
	if c := ctl; c != nil {
		c.releaseAll()
	}
}

func guarded(f func()) func() {
	return func() {
		defer func() {
			if r := recover(); r != nil {
				if _, ok := r.(AssumeFailed); ok {
					return
				}
				processDied(r)
			}
		}()
		f()
	}
}

func nativeSpawn(name string, f func()) {
	f = guarded(f)
	c := ctl
	if c == nil || !c.active {
		go f()
		return
	}
	t := c.register(name, -1)
	started := make(chan struct{})
	go func() {
		gid := curGID()
		c.mu.Lock()
		t.gid = gid
		c.byGID[gid] = t
		c.mu.Unlock()
		close(started)
		t.waitGate()
		defer func() {
			c.mu.Lock()
			t.done = true
			c.mu.Unlock()
		}()
		f()
	}()
	<-started
}

// MutexLock is what the instrumenter turns `x.Lock()` into. Under the controller a
// goroutine never blocks inside sync.Mutex.Lock: when the mutex is taken it parks at its
// gate (counted as "blocked") and retries when it is scheduled again.
func MutexLock(m *sync.Mutex) {
	c := ctl
	if c == nil || !c.active {
		m.Lock()
		return
	}
	t := c.lookupGID(curGID())
	if t == nil {
		m.Lock()
		return
	}
	for !m.TryLock() {
		c.mu.Lock()
		active := c.active
		t.mutexWait = true
		c.mu.Unlock()
		if !active {
			m.Lock()
			break
		}
		t.waitGate()
		c.mu.Lock()
		t.mutexWait = false
		c.mu.Unlock()
	}
}

func nativeQuiesce() {
	c := ctl
	if c == nil || !c.active {
		// free-running replay: give the other goroutines time to settle
		settle()
		return
	}
	t := c.lookupGID(curGID())
	if t == nil {
		return
	}
	c.mu.Lock()
	t.quiesce = true
	c.mu.Unlock()
	t.waitGate()
	c.mu.Lock()
	t.quiesce = false
	c.mu.Unlock()
}

// settle waits until no goroutine has been runnable for a little while.
func settle() {
	quiet := 0
	for i := 0; i < 2000 && quiet < 5; i++ {
		time.Sleep(200 * time.Microsecond)
		busy := 0
		for _, st := range goroutineStates() {
			if st == "runnable" || st == "running" {
				busy++
			}
		}
		if busy <= 1 {
			quiet++
		} else {
			quiet = 0
		}
	}
}

func (c *controller) blocked(t *nthread) bool {
	c.mu.Lock()
	atGate, q, done, gid, mw := t.atGate, t.quiesce, t.done, t.gid, t.mutexWait
	c.mu.Unlock()
	if done {
		return true
	}
	if q || (mw && atGate) {
		return true
	}
	if atGate {
		return false
	}
	st, ok := goroutineStates()[gid]
	if !ok {
		return true // goroutine gone
	}
	switch st {
	case "running", "runnable", "syscall", "GC assist wait", "GC assist marking", "GC sweep wait", "GC scavenge wait", "force gc (idle)", "sleep", "preempted", "waiting":
		return false
	}
	return true
}

// releaseAll gives up control: every gated goroutine continues freely.
func (c *controller) releaseAll() {
	c.mu.Lock()
	c.active = false
	ts := make([]*nthread, 0, len(c.threads))
	for _, t := range c.threads {
		ts = append(ts, t)
	}
	c.mu.Unlock()
	for _, t := range ts {
		if t.dead {
			continue
		}
		t.stopAt = 0
		select {
		case t.gate <- struct{}{}:
		default:
		}
	}
}

func (c *controller) run() {
	defer close(c.finished)
	defer func() {
		if c.diverged != "" {
			c.releaseAll()
		}
	}()
	deadline := func() time.Time { return time.Now().Add(5 * time.Second) }
	for i, s := range c.steps {
		// find the thread (it may register a little later)
		var t *nthread
		for dl := deadline(); time.Now().Before(dl); {
			c.mu.Lock()
			t = c.threads[s.Thread]
			ready := t != nil && (t.atGate || t.gid != 0)
			c.mu.Unlock()
			if ready {
				break
			}
			t = nil
			time.Sleep(100 * time.Microsecond)
		}
		if t == nil {
			c.diverged = fmt.Sprintf("step %d: thread %q never appeared", i, s.Thread)
			return
		}
		// wait until it sits at its gate (a goroutine that has just been woken from a
		// native block reaches its next Yield and gates there)
		for dl := deadline(); ; {
			c.mu.Lock()
			at := t.atGate
			c.mu.Unlock()
			if at {
				break
			}
			if time.Now().After(dl) {
				c.diverged = fmt.Sprintf("step %d: thread %q is not waiting to be scheduled", i, s.Thread)
				return
			}
			time.Sleep(50 * time.Microsecond)
		}
		switch s.Stop {
		case "yield", "crash":
			t.stopAt = s.N
		default:
			t.stopAt = 0
		}
		// drain a stale notification
		select {
		case <-t.reached:
		default:
		}
		c.mu.Lock()
		t.atGate = false
		t.running = true
		c.mu.Unlock()
		t.gate <- struct{}{}
		switch s.Stop {
		case "free":
			// the recorded schedule ends here: let everything run to completion
			time.Sleep(2 * time.Millisecond)
			c.releaseAll()
			return
		case "yield", "crash":
			select {
			case <-t.reached:
			case <-time.After(5 * time.Second):
				c.diverged = fmt.Sprintf("step %d: thread %q did not reach yield #%d (%s); it is at yield #%d", i, s.Thread, s.N, s.Site, t.yields)
				return
			}
			// make sure it is parked at the gate
			for dl := deadline(); time.Now().Before(dl); {
				c.mu.Lock()
				at := t.atGate
				c.mu.Unlock()
				if at {
					break
				}
				time.Sleep(20 * time.Microsecond)
			}
			c.mu.Lock()
			t.running = false
			if s.Stop == "crash" {
				c.crashed = true
				for _, o := range c.threads {
					if o.name != "main" {
						o.dead = true
					}
				}
			}
			c.mu.Unlock()
		case "block", "end":
			ok := false
			for dl := deadline(); time.Now().Before(dl); {
				if c.blocked(t) {
					// confirm it stays blocked (not a transient state)
					stable := true
					for k := 0; k < 5 && stable; k++ {
						time.Sleep(200 * time.Microsecond)
						stable = c.blocked(t)
					}
					if stable {
						ok = true
						break
					}
				}
				time.Sleep(50 * time.Microsecond)
			}
			if !ok {
				c.diverged = fmt.Sprintf("step %d: thread %q did not %s", i, s.Thread, s.Stop)
				return
			}
			c.mu.Lock()
			t.running = false
			c.mu.Unlock()
		}
	}
}

// runControlled executes the harness under the recorded schedule.
func runControlled(h func(int), c Case) {
	k := &controller{threads: map[string]*nthread{}, byGID: map[int64]*nthread{}, steps: c.Sched, finished: make(chan struct{}), active: true}
	ctl = k
	YieldHook, SpawnHook, QuiesceHook = nativeYield, nativeSpawn, nativeQuiesce
	CrashedHook = func() bool { k.mu.Lock(); defer k.mu.Unlock(); return k.crashed }
	defer func() {
		k.mu.Lock()
		k.active = false
		k.mu.Unlock()
		YieldHook, SpawnHook, QuiesceHook, CrashedHook = nil, nil, nil, nil
	}()
	main := k.register("main", curGID())
	go k.run()
	main.waitGate()
	hdone := make(chan struct{})
	var pan interface{}
	func() {
		defer close(hdone)
		defer func() { pan = recover() }()
		h(c.Shape)
	}()
	<-hdone
	// let the controller notice the end (it may be waiting on a later step)
	select {
	case <-k.finished:
	case <-time.After(50 * time.Millisecond):
	}
	if k.diverged != "" {
		mu.Lock()
		Notes = append(Notes, "schedule diverged: "+k.diverged)
		Failed = append(Failed, "schedule-diverged")
		mu.Unlock()
	}
	if pan != nil {
		panic(pan)
	}
}

func init() {
	RunHook = func(h func(int), c Case) {
		if len(c.Sched) == 0 {
			h(c.Shape)
			return
		}
		runControlled(h, c)
	}
}

var (
	YieldHook   func(site string)
	SpawnHook   func(name string, f func())
	QuiesceHook func()
	CrashedHook func() bool
)

func yield(site string) {
	if YieldHook != nil {
		YieldHook(site)
	}
}

func spawn(name string, f func()) {
	if SpawnHook != nil {
		SpawnHook(name, f)
		return
	}
	go guarded(f)()
}

func quiesce() {
	if QuiesceHook != nil {
		QuiesceHook()
		return
	}
	settle()
}

func crashed() bool {
	if CrashedHook != nil {
		return CrashedHook()
	}
	return false
}
