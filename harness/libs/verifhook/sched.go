package verifhook

// Native scheduling control. Sequential replays do not need it; the concurrent
// controller is installed by replay tests through these hooks.
var (
	YieldHook   func(site string)
	SpawnHook   func(name string, f func())
	QuiesceHook func()
	CrashedHook func() bool
)

func yield(site string) {
	if YieldHook != nil {
		YieldHook(site)
	}
}

func spawn(name string, f func()) {
	if SpawnHook != nil {
		SpawnHook(name, f)
		return
	}
	go f()
}

func quiesce() {
	if QuiesceHook != nil {
		QuiesceHook()
	}
}

func crashed() bool {
	if CrashedHook != nil {
		return CrashedHook()
	}
	return false
}
