// Package verifhook is the harness vocabulary shared by the symbolic engine and native
// replays. Under the engine every function here is intercepted (the bodies below are
// never interpreted). Natively, the nondeterministic inputs are read from the model
// file named by $VERIF_CEX (JSON: {"model": {"name": "decimal", ...}}).
package verifhook

import (
	"encoding/json"
	"fmt"
	"math/big"
	"os"
	"sort"
	"strconv"
	"sync"
)

type cexFile struct {
	Model map[string]string `json:"model"`
	Label string            `json:"label"`
	Kind  string            `json:"kind"`
}

var (
	once    sync.Once
	cex     cexFile
	mu      sync.Mutex
	Failed  []string // labels of assertions that failed natively
	Reached = map[string]bool{}
	Missing []string
	Notes   []string
	Died    string // set when a goroutine of the program under test died of an uncaught panic
)

// Result is what one native replay observed.
type Result struct {
	Failed  []string `json:"failed"`
	Reached []string `json:"reached"`
	Missing []string `json:"missing,omitempty"`
	Notes   []string `json:"notes,omitempty"`
	Panic   string   `json:"panic,omitempty"`
	Assume  bool     `json:"assume_failed,omitempty"`
}

// Begin installs a model for the next harness run and clears the observations.
func Begin(model map[string]string) {
	once.Do(func() {})
	mu.Lock()
	defer mu.Unlock()
	cex = cexFile{Model: model}
	if cex.Model == nil {
		cex.Model = map[string]string{}
	}
	Failed, Missing, Notes = nil, nil, nil
	Died = ""
	Reached = map[string]bool{}
}

// End returns the observations since Begin.
func End() Result {
	mu.Lock()
	defer mu.Unlock()
	r := Result{Failed: append([]string{}, Failed...), Missing: Missing, Notes: Notes, Reached: []string{}}
	if Died != "" {
		r.Panic = "process died: " + Died
	}
	for k := range Reached {
		r.Reached = append(r.Reached, k)
	}
	sort.Strings(r.Reached)
	return r
}

func load() {
	once.Do(func() {
		cex.Model = map[string]string{}
		p := os.Getenv("VERIF_CEX")
		if p == "" {
			return
		}
		b, err := os.ReadFile(p)
		if err != nil {
			panic(err)
		}
		if err := json.Unmarshal(b, &cex); err != nil {
			panic(err)
		}
	})
}

func lookup(name string) (string, bool) {
	load()
	v, ok := cex.Model[name]
	if !ok {
		mu.Lock()
		Missing = append(Missing, name)
		mu.Unlock()
	}
	return v, ok
}

func BigInt(name string) *big.Int {
	v, ok := lookup(name)
	if !ok {
		return new(big.Int)
	}
	x, ok := new(big.Int).SetString(v, 10)
	if !ok {
		panic("verifhook: bad integer for " + name)
	}
	return x
}

func Uint64(name string) uint64 {
	v, ok := lookup(name)
	if !ok {
		return 0
	}
	x, _ := new(big.Int).SetString(v, 10)
	return x.Uint64()
}

func Int64(name string) int64 { return int64(Uint64(name)) }
func Int(name string) int     { return int(int64(Uint64(name))) }
func Int16(name string) int16 { return int16(Uint64(name)) }
func Byte(name string) byte   { return byte(Uint64(name)) }
func Bool(name string) bool   { return Uint64(name) != 0 }

func String(name string, n int) string {
	b := make([]byte, n)
	for i := range b {
		b[i] = Byte(fmt.Sprintf("%s[%d]", name, i))
	}
	return string(b)
}

func Choose(name string, n int) int {
	v, ok := lookup("choose:" + name)
	if !ok {
		return 0
	}
	i, _ := strconv.Atoi(v)
	return i
}

// AssumeFailed is the panic value used when a replay leaves the assumed region.
type AssumeFailed struct{}

func Assume(c bool) {
	if !c {
		panic(AssumeFailed{})
	}
}

func Assert(c bool, label string) {
	if !c {
		mu.Lock()
		if Died == "" {
			Failed = append(Failed, label)
		}
		mu.Unlock()
	}
}

func Reach(label string) {
	mu.Lock()
	if Died == "" {
		Reached[label] = true
	}
	mu.Unlock()
}

func Canary() {
	load()
	if cex.Model["canary"] == "1" {
		mu.Lock()
		Failed = append(Failed, "canary")
		mu.Unlock()
	}
}
func Yield(site string)              { yield(site) }
func Go(name string, f func())       { spawn(name, f) }

// YieldVal is a pre-emption point between the return of a call and the use of its result
// inside one statement (inserted by the instrumenter around nested call arguments).
func YieldVal[T any](site string, v T) T {
	yield(site)
	return v
}
func Quiesce()                       { quiesce() }
func Crashed() bool                  { return crashed() }
func Symbolic() bool                 { return false }
func ExpectPanic()                   {}
func Note(v any) {
	mu.Lock()
	Notes = append(Notes, fmt.Sprint(v))
	mu.Unlock()
}
func Durable(v any)                  {}
func And(a, b bool) bool             { return a && b }
func Or(a, b bool) bool              { return a || b }
func Not(a bool) bool                { return !a }
func Implies(a, b bool) bool         { return !a || b }
func Le(a, b *big.Int) bool          { return a.Cmp(b) <= 0 }
func Lt(a, b *big.Int) bool          { return a.Cmp(b) < 0 }
func Ge(a, b *big.Int) bool          { return a.Cmp(b) >= 0 }
func Gt(a, b *big.Int) bool          { return a.Cmp(b) > 0 }
func Eq(a, b *big.Int) bool          { return a.Cmp(b) == 0 }
func StrEq(a, b string) bool         { return a == b }

func Ite(c bool, a, b *big.Int) *big.Int {
	if c {
		return a
	}
	return b
}

func IteInt(c bool, a, b int) int {
	if c {
		return a
	}
	return b
}

func IteUint64(c bool, a, b uint64) uint64 {
	if c {
		return a
	}
	return b
}

func Min(a, b *big.Int) *big.Int {
	if a.Cmp(b) <= 0 {
		return a
	}
	return b
}

func Max(a, b *big.Int) *big.Int {
	if a.Cmp(b) >= 0 {
		return a
	}
	return b
}

// ByteClass returns the index of the first class containing b, or len(classes) when
// none does. Each class is a set of bytes written as single bytes and lo-hi ranges
// (a '-' first or last is literal). Under the engine this is one n-way decision.
func ByteClass(b byte, classes []string) int {
	for i, c := range classes {
		if inClass(b, c) {
			return i
		}
	}
	return len(classes)
}

func inClass(b byte, c string) bool {
	for i := 0; i < len(c); i++ {
		if i+2 < len(c) && c[i+1] == '-' {
			if b >= c[i] && b <= c[i+2] {
				return true
			}
			i += 2
			continue
		}
		if c[i] == b {
			return true
		}
	}
	return false
}
