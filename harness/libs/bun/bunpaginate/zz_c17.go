package bunpaginate

import (
	"context"
	"fmt"
	"math/big"

	"github.com/formancehq/stack/libs/go-libs/api"
	"github.com/formancehq/stack/libs/go-libs/verifhook"
)

type zzRow struct {
	ID *BigInt `bun:"id,type:numeric"`
}

type zzFilters struct {
	Tag string `json:"tag"`
}

// zzIDs makes n arbitrary, strictly increasing, non-negative ids.
func zzIDs(n int) []*big.Int {
	ids := make([]*big.Int, n)
	for i := range ids {
		ids[i] = verifhook.BigInt(fmt.Sprintf("row%d", i))
		if i == 0 {
			verifhook.Assume(ids[i].Sign() >= 0)
		} else {
			verifhook.Assume(ids[i].Cmp(ids[i-1]) > 0)
		}
	}
	return ids
}

// column shapes: n rows (0..4) x page size (1..n+1) x order
type zzColShape struct {
	N, PageSize int
	Order       Order
}

var zzColShapes = zzBuildCol()

func zzBuildCol() []zzColShape {
	var out []zzColShape
	for n := 0; n <= 4; n++ {
		for ps := 1; ps <= n+1; ps++ {
			for _, o := range []Order{OrderAsc, OrderDesc} {
				out = append(out, zzColShape{n, ps, o})
			}
		}
	}
	return out
}

func ZZ_C17ColN() int { return len(zzColShapes) }

func ZZ_C17ColDesc(i int) string { return fmt.Sprintf("%+v", zzColShapes[i]) }

func zzDecodeCol(cursor string) (*ColumnPaginatedQuery[zzFilters], error) {
	q := &ColumnPaginatedQuery[zzFilters]{}
	if err := UnmarshalCursor(cursor, q); err != nil {
		return nil, err
	}
	return q, nil
}

// ZZ_C17Col: following `next` from the first page enumerates every row exactly once, in
// order; following `previous` from a page yields the page before.
func ZZ_C17Col(shape int) {
	sh := zzColShapes[shape]
	ids := zzIDs(sh.N)
	want := make([]*big.Int, sh.N)
	for i := range ids {
		if sh.Order == OrderAsc {
			want[i] = ids[i]
		} else {
			want[i] = ids[sh.N-1-i]
		}
	}
	q := ColumnPaginatedQuery[zzFilters]{PageSize: uint64(sh.PageSize), Column: "id", Order: sh.Order, Options: zzFilters{Tag: "t"}}
	var pages [][]*big.Int
	var cursors []*api.Cursor[zzRow]
	cur := &q
	for step := 0; step < sh.N+3; step++ {
		c, err := UsingColumn[zzFilters, zzRow](context.Background(), zzTable(ids), *cur)
		verifhook.Assert(err == nil, "C17 page query fails")
		if err != nil {
			return
		}
		var page []*big.Int
		for _, r := range c.Data {
			page = append(page, (*big.Int)(r.ID))
		}
		pages = append(pages, page)
		cursors = append(cursors, c)
		verifhook.Assert(len(page) <= sh.PageSize, "C17 a page holds more than pageSize items")
		if !c.HasMore {
			break
		}
		verifhook.Assert(c.Next != "", "C17 hasMore without a next cursor")
		next, err := zzDecodeCol(c.Next)
		verifhook.Assert(err == nil, "C17 the next cursor handed out is not accepted back")
		if err != nil {
			return
		}
		verifhook.Assert(next.Options.Tag == "t" && next.PageSize == uint64(sh.PageSize) && next.Order == sh.Order, "C17 the next cursor stands for another query")
		cur = next
	}
	verifhook.Reach("traversed")
	var got []*big.Int
	for _, p := range pages {
		got = append(got, p...)
	}
	verifhook.Assert(len(got) == sh.N, "C17 following next does not yield every item exactly once")
	if len(got) == sh.N {
		for i := range got {
			verifhook.Assert(verifhook.Eq(got[i], want[i]), "C17 items out of order or repeated when following next")
		}
	}
	// previous from every page after the first yields the page before
	for i := len(cursors) - 1; i >= 1; i-- {
		verifhook.Assert(cursors[i].Previous != "", "C17 a later page has no previous cursor")
		if cursors[i].Previous == "" {
			continue
		}
		pq, err := zzDecodeCol(cursors[i].Previous)
		verifhook.Assert(err == nil, "C17 the previous cursor handed out is not accepted back")
		if err != nil {
			continue
		}
		c, err := UsingColumn[zzFilters, zzRow](context.Background(), zzTable(ids), *pq)
		verifhook.Assert(err == nil, "C17 previous page query fails")
		if err != nil {
			continue
		}
		verifhook.Assert(len(c.Data) == len(pages[i-1]), "C17 following previous does not yield the page before")
		if len(c.Data) == len(pages[i-1]) {
			for k := range c.Data {
				verifhook.Assert(verifhook.Eq((*big.Int)(c.Data[k].ID), pages[i-1][k]), "C17 following previous yields other items than the page before")
			}
		}
		// the page reached backwards continues like the same page reached forwards:
		// its next leads to the page the walk came from, its previous one page further back
		verifhook.Assert(c.HasMore && c.Next != "", "C17 a page reached through previous has no next although later items exist")
		if c.Next != "" {
			nq, err := zzDecodeCol(c.Next)
			verifhook.Assert(err == nil, "C17 the next cursor of a page reached through previous is not accepted back")
			if err == nil {
				fwd, err := UsingColumn[zzFilters, zzRow](context.Background(), zzTable(ids), *nq)
				verifhook.Assert(err == nil, "C17 page query fails")
				if err == nil {
					verifhook.Assert(len(fwd.Data) == len(pages[i]), "C17 previous then next does not come back to the same page")
					if len(fwd.Data) == len(pages[i]) {
						for k := range fwd.Data {
							verifhook.Assert(verifhook.Eq((*big.Int)(fwd.Data[k].ID), pages[i][k]), "C17 previous then next yields other items than the page the walk came from")
						}
					}
				}
			}
		}
		if i-1 >= 1 {
			verifhook.Assert(c.Previous != "", "C17 a page reached through previous has no previous although earlier items exist")
			if c.Previous != "" {
				bq, err := zzDecodeCol(c.Previous)
				verifhook.Assert(err == nil, "C17 the previous cursor of a page reached through previous is not accepted back")
				if err == nil {
					back, err := UsingColumn[zzFilters, zzRow](context.Background(), zzTable(ids), *bq)
					verifhook.Assert(err == nil, "C17 page query fails")
					if err == nil && len(back.Data) == len(pages[i-2]) {
						for k := range back.Data {
							verifhook.Assert(verifhook.Eq((*big.Int)(back.Data[k].ID), pages[i-2][k]), "C17 previous twice yields other items than the page two before")
						}
					} else if err == nil {
						verifhook.Assert(false, "C17 previous twice does not yield the page two before")
					}
				}
			}
		} else {
			verifhook.Assert(c.Previous == "", "C17 the first page reached through previous offers a previous cursor")
		}
	}
	verifhook.Canary()
}

func ZZ_C17OffN() int { return 5 }

func ZZ_C17OffDesc(i int) string { return fmt.Sprintf("collection of %d rows; offset and page size arbitrary", i) }

// ZZ_C17Off: one-step law of offset pagination with arbitrary offset and page size.
func ZZ_C17Off(shape int) {
	n := shape
	ids := zzIDs(n)
	off := verifhook.Uint64("offset")
	ps := verifhook.Uint64("pageSize")
	verifhook.Assume(ps >= 1)
	// the v1 API hands page sizes up to 1000 to the paginator (v1.MaxPageSize)
	verifhook.Assume(ps <= 1000)
	// a walk from the first page only reaches offsets below the collection size; bun keeps
	// OFFSET as an int32, so offsets from 2^31 on (reachable only in a collection of 2^31
	// rows) are outside the claim
	verifhook.Assume(off < 1<<31)
	q := OffsetPaginatedQuery[zzFilters]{Offset: off, PageSize: ps, Order: OrderAsc, Options: zzFilters{Tag: "t"}}
	c, err := UsingOffset[zzFilters, zzRow](context.Background(), zzTable(ids).OrderExpr("id ASC"), q)
	verifhook.Assert(err == nil, "C17 offset page query fails")
	if err != nil {
		return
	}
	verifhook.Reach("paged")
	// expected page: rows [offset, min(offset+ps, n))
	N := uint64(n)
	start := verifhook.IteUint64(off < N, off, N)
	end := verifhook.IteUint64(off+ps < N, off+ps, N)
	verifhook.Assert(uint64(len(c.Data)) == end-start, "C17 offset page has the wrong number of items")
	for k := range c.Data {
		idx := int(start) + k // start is concrete on this path once len(c.Data) is known... see below
		_ = idx
	}
	verifhook.Assert(c.HasMore == (off+ps < N), "C17 hasMore is wrong for an offset page")
	if c.HasMore {
		nq := &OffsetPaginatedQuery[zzFilters]{}
		verifhook.Assert(UnmarshalCursor(c.Next, nq) == nil, "C17 the next cursor handed out is not accepted back")
		verifhook.Assert(nq.Offset == off+ps && nq.PageSize == ps && nq.Options.Tag == "t", "C17 next offset cursor does not continue where this page ends")
	} else {
		verifhook.Assert(c.Next == "", "C17 a next cursor on the last page")
	}
	if off > 0 {
		pq := &OffsetPaginatedQuery[zzFilters]{}
		verifhook.Assert(c.Previous != "" && UnmarshalCursor(c.Previous, pq) == nil, "C17 the previous cursor handed out is not accepted back")
		wantPrev := verifhook.IteUint64(off >= ps, off-ps, 0)
		verifhook.Assert(pq.Offset == wantPrev && pq.PageSize == ps, "C17 previous offset cursor does not point at the page before")
	} else {
		verifhook.Assert(c.Previous == "", "C17 a previous cursor on the first page")
	}
	verifhook.Canary()
}

func ZZ_C17TokN() int { return 4 }

func ZZ_C17TokDesc(i int) string {
	return fmt.Sprintf("cursor of a query whose filter holds a value of %d arbitrary printable byte(s)", i+1)
}

// ZZ_C17Tok: the token of a cursor is accepted back whatever text the query carries --
// what the encoder writes, the decoder reads (alphabet and padding included).
func ZZ_C17Tok(shape int) {
	n := shape + 1
	tag := verifhook.String("tag", n)
	for i := 0; i < n; i++ {
		verifhook.Assume(verifhook.ByteClass(tag[i], []string{"a-zA-Z0-9?~ ._:/@!*()$,;=+-"}) == 0)
	}
	q := ColumnPaginatedQuery[zzFilters]{PageSize: uint64(15 + verifhook.Choose("pageSizeDigits", 3)*85), Column: "id", Order: OrderDesc, Options: zzFilters{Tag: tag}}
	q.PaginationID = big.NewInt(int64(7 + verifhook.Choose("idDigits", 3)*496))
	token := EncodeCursor(q)
	back := &ColumnPaginatedQuery[zzFilters]{}
	err := UnmarshalCursor(token, back)
	verifhook.Reach("decoded")
	verifhook.Assert(err == nil, "C17 a cursor token the server hands out is not accepted back")
	if err != nil {
		return
	}
	verifhook.Assert(verifhook.StrEq(back.Options.Tag, tag), "C17 the decoded cursor carries another filter value")
	verifhook.Assert(back.PageSize == q.PageSize && back.PaginationID != nil && back.PaginationID.Cmp(q.PaginationID) == 0, "C17 the decoded cursor stands for another page")
	verifhook.Canary()
}

func ZZ_C17OffWalkN() int { return 2 }

func ZZ_C17OffWalkDesc(i int) string {
	return fmt.Sprintf("offset pagination over %d rows, page size arbitrary in 90..1000 (the v1 API allows up to 1000): full walk", []int{105, 230}[i])
}

// ZZ_C17OffWalk: following next over an offset-paginated list larger than one hundred
// rows yields every row exactly once whatever the page size, including page sizes above
// the v2 maximum.
func ZZ_C17OffWalk(shape int) {
	n := []int{105, 230}[shape]
	ids := make([]*big.Int, n)
	for i := range ids {
		ids[i] = big.NewInt(int64(i))
	}
	ps := verifhook.Uint64("pageSize")
	verifhook.Assume(ps >= 90)
	verifhook.Assume(ps <= 1000)
	q := OffsetPaginatedQuery[zzFilters]{PageSize: ps, Order: OrderAsc, Options: zzFilters{Tag: "t"}}
	seen := 0
	for step := 0; step < 5; step++ {
		c, err := UsingOffset[zzFilters, zzRow](context.Background(), zzTable(ids).OrderExpr("id ASC"), q)
		verifhook.Assert(err == nil, "C17 offset page query fails")
		if err != nil {
			return
		}
		for k, r := range c.Data {
			verifhook.Assert((*big.Int)(r.ID).Cmp(big.NewInt(int64(seen+k))) == 0, "C17 an offset walk skips or repeats items")
		}
		seen += len(c.Data)
		if !c.HasMore {
			break
		}
		nq := &OffsetPaginatedQuery[zzFilters]{}
		verifhook.Assert(UnmarshalCursor(c.Next, nq) == nil, "C17 the next cursor handed out is not accepted back")
		q = *nq
	}
	verifhook.Reach("walked")
	verifhook.Assert(seen == n, "C17 following next over an offset list does not yield every item exactly once")
	verifhook.Canary()
}
