package bunpaginate

// A minimal database/sql driver serving one in-memory table of ids, for native replays
// of the pagination harnesses. It understands exactly the statement shape bun emits for
// them:  SELECT ... FROM ... [WHERE (id OP n) [AND (id OP n)]] [ORDER BY id ASC|DESC]
// [LIMIT k] [OFFSET m]. Under the symbolic engine zzTable is intercepted and none of
// this runs.

import (
	"database/sql"
	"database/sql/driver"
	"fmt"
	"io"
	"math/big"
	"regexp"
	"sort"
	"strconv"
	"strings"
	"sync"

	"github.com/uptrace/bun"
	"github.com/uptrace/bun/dialect/pgdialect"
)

var (
	zzFakeMu   sync.Mutex
	zzFakeRows []*big.Int
	zzFakeSQL  []string
	zzFakeOnce sync.Once
	zzFakeDB   *bun.DB
)

type zzDriver struct{}
type zzConn struct{}
type zzStmt struct{ q string }
type zzRows struct {
	vals []string
	i    int
}

func (zzDriver) Open(name string) (driver.Conn, error) { return zzConn{}, nil }
func (zzConn) Prepare(q string) (driver.Stmt, error)    { return zzStmt{q}, nil }
func (zzConn) Close() error                             { return nil }
func (zzConn) Begin() (driver.Tx, error)                { return nil, fmt.Errorf("zz: no transactions") }
func (s zzStmt) Close() error                           { return nil }
func (s zzStmt) NumInput() int                          { return -1 }
func (s zzStmt) Exec(args []driver.Value) (driver.Result, error) {
	return nil, fmt.Errorf("zz: exec not supported")
}
func (s zzStmt) Query(args []driver.Value) (driver.Rows, error) { return zzRunQuery(s.q) }
func (r *zzRows) Columns() []string                               { return []string{"id"} }
func (r *zzRows) Close() error                                    { return nil }
func (r *zzRows) Next(dest []driver.Value) error {
	if r.i >= len(r.vals) {
		return io.EOF
	}
	dest[0] = r.vals[r.i]
	r.i++
	return nil
}

var (
	zzWhereRe  = regexp.MustCompile(`\(\s*"?id"?\s*(>=|<=|>|<|=)\s*'?(-?[0-9]+)'?\s*\)`)
	zzOrderRe  = regexp.MustCompile(`(?i)ORDER BY\s+"?id"?\s+(ASC|DESC)`)
	zzLimitRe  = regexp.MustCompile(`(?i)LIMIT\s+(-?[0-9]+)`)
	zzOffsetRe = regexp.MustCompile(`(?i)OFFSET\s+(-?[0-9]+)`)
)

func zzRunQuery(q string) (driver.Rows, error) {
	zzFakeMu.Lock()
	defer zzFakeMu.Unlock()
	zzFakeSQL = append(zzFakeSQL, q)
	rows := append([]*big.Int(nil), zzFakeRows...)
	sort.Slice(rows, func(i, j int) bool { return rows[i].Cmp(rows[j]) < 0 })
	for _, m := range zzWhereRe.FindAllStringSubmatch(q, -1) {
		v, _ := new(big.Int).SetString(m[2], 10)
		var keep []*big.Int
		for _, r := range rows {
			c := r.Cmp(v)
			ok := false
			switch m[1] {
			case ">=":
				ok = c >= 0
			case "<=":
				ok = c <= 0
			case ">":
				ok = c > 0
			case "<":
				ok = c < 0
			case "=":
				ok = c == 0
			}
			if ok {
				keep = append(keep, r)
			}
		}
		rows = keep
	}
	if strings.Contains(strings.ToUpper(q), "WHERE") && len(zzWhereRe.FindAllStringSubmatch(q, -1)) == 0 {
		return nil, fmt.Errorf("zz: cannot parse WHERE in %q", q)
	}
	if m := zzOrderRe.FindStringSubmatch(q); m != nil && strings.EqualFold(m[1], "DESC") {
		for i, j := 0, len(rows)-1; i < j; i, j = i+1, j-1 {
			rows[i], rows[j] = rows[j], rows[i]
		}
	}
	if m := zzOffsetRe.FindStringSubmatch(q); m != nil {
		off, _ := strconv.ParseInt(m[1], 10, 64)
		if off < 0 {
			return nil, fmt.Errorf("zz: OFFSET must not be negative")
		}
		if off > int64(len(rows)) {
			off = int64(len(rows))
		}
		rows = rows[off:]
	}
	if m := zzLimitRe.FindStringSubmatch(q); m != nil {
		lim, _ := strconv.ParseInt(m[1], 10, 64)
		if lim < 0 {
			return nil, fmt.Errorf("zz: LIMIT must not be negative")
		}
		if lim < int64(len(rows)) {
			rows = rows[:lim]
		}
	}
	out := &zzRows{}
	for _, r := range rows {
		out.vals = append(out.vals, r.String())
	}
	return out, nil
}

// zzTable returns a select over a table holding the given ids (ascending or not).
func zzTable(ids []*big.Int) *bun.SelectQuery {
	zzFakeOnce.Do(func() {
		sql.Register("zzfake", zzDriver{})
		sqldb, err := sql.Open("zzfake", "")
		if err != nil {
			panic(err)
		}
		zzFakeDB = bun.NewDB(sqldb, pgdialect.New())
	})
	zzFakeMu.Lock()
	zzFakeRows = ids
	zzFakeSQL = nil
	zzFakeMu.Unlock()
	return zzFakeDB.NewSelect().TableExpr("zz_rows").ColumnExpr("id")
}
