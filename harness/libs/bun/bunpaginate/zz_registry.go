package bunpaginate

var zzRegistry = map[string]func(int){
	"ZZ_C17Col":     ZZ_C17Col,
	"ZZ_C17Off":     ZZ_C17Off,
	"ZZ_C17Tok":     ZZ_C17Tok,
	"ZZ_C17OffWalk": ZZ_C17OffWalk,
}
