package compiler

import (
	"fmt"

	"github.com/formancehq/stack/libs/go-libs/verifhook"
)

const ZZ_C12ErrN = 5

func ZZ_C12ErrDesc(i int) string {
	return fmt.Sprintf("script text of %d arbitrary bytes out of {LF, CR, TAB, space, letter}; an error reported at the end of input or at any one-letter token", i)
}

// ZZ_C12Err: rendering a compile error never panics, wherever in the text the lexer or
// parser reports it (the handlers render every COMPILATION_FAILED answer this way).
// Positions are computed the way ANTLR reports them: lines from 1 counted at LF,
// columns from 0 in characters.
func ZZ_C12Err(shape int) {
	n := shape
	src := verifhook.String("src", n)
	line, col := 1, 0
	tokL, tokC := []int{}, []int{}
	for i := 0; i < n; i++ {
		switch verifhook.ByteClass(src[i], []string{"\n", "\r", "\t", " ", "a-z"}) {
		case 0:
			line++
			col = 0
			continue
		case 4:
			tokL, tokC = append(tokL, line), append(tokC, col)
		case 5:
			verifhook.Assume(false)
		}
		col++
	}
	var ce CompileError
	k := verifhook.Choose("where", len(tokL)+2)
	switch {
	case k == 0: // the <EOF> token: five characters long as the listener sees it
		ce = CompileError{StartL: line, StartC: col, EndL: line, EndC: col + 4, Msg: "mismatched input '<EOF>'"}
	case k == 1: // an error without a token at the end of input
		ce = CompileError{StartL: line, StartC: col, EndL: line, EndC: col, Msg: "unexpected end"}
	default:
		ce = CompileError{StartL: tokL[k-2], StartC: tokC[k-2], EndL: tokL[k-2], EndC: tokC[k-2], Msg: "token recognition error"}
	}
	e := &CompileErrorList{Errors: []CompileError{ce}, Source: src}
	out := e.Error()
	verifhook.Reach("rendered")
	verifhook.Assert(len(out) > 0, "C12 a compile error renders as an empty message")
	verifhook.Canary()
}
