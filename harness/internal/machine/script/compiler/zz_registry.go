package compiler

var zzRegistry = map[string]func(int){
	"ZZ_C12Alloc": ZZ_C12Alloc,
	"ZZ_C12Err": ZZ_C12Err,
}
