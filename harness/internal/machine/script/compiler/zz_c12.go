package compiler

import (
	"fmt"

	"github.com/formancehq/ledger/internal/machine"
	program2 "github.com/formancehq/ledger/internal/machine/vm/program"
	"github.com/formancehq/stack/libs/go-libs/verifhook"
)

var zzC12Sizes = []int{0, 1, 255, 256, 32767, 32768, 65534, 65535, 65536, 65537}

func ZZ_C12AllocN() int { return 2 * len(zzC12Sizes) }

func ZZ_C12AllocDesc(i int) string {
	kind := "a constant with an arbitrary value"
	if i%2 == 1 {
		kind = "a variable"
	}
	return fmt.Sprintf("resource table of %d entries, allocating %s", zzC12Sizes[i/2], kind)
}

// ZZ_C12Alloc: one step of the compiler's resource table from a table of n entries.
// Either the new resource is refused and the table is unchanged, or the 16-bit address
// handed out denotes exactly the entry just added -- an address never wraps onto another
// resource (which would defeat the compile-time type checks and make typed pops panic).
func ZZ_C12Alloc(shape int) {
	n := zzC12Sizes[shape/2]
	p := &parseVisitor{}
	p.resources = make([]program2.Resource, n)
	for i := range p.resources {
		p.resources[i] = program2.Variable{Typ: machine.TypeAccount, Name: "v"}
	}
	var res program2.Resource
	if shape%2 == 1 {
		res = program2.Variable{Typ: machine.TypeNumber, Name: "fresh"}
	} else {
		res = program2.Constant{Inner: machine.NewMonetaryInt(int64(verifhook.Uint64("value") >> 2))}
	}
	addr, err := p.AllocateResource(res)
	verifhook.Reach("allocated")
	if err != nil {
		verifhook.Reach("refused")
		verifhook.Assert(addr == nil && len(p.resources) == n, "C12 a refused resource changes the table")
		verifhook.Assert(n >= 65536, "C12 a resource is refused although its address fits 16 bits")
		return
	}
	verifhook.Reach("accepted")
	verifhook.Assert(addr != nil && len(p.resources) == n+1, "C12 an accepted resource is appended once")
	if addr == nil {
		return
	}
	verifhook.Assert(int(*addr) == n, "C12 the address handed out does not denote the resource just added (16-bit wrap)")
	if int(*addr) < len(p.resources) {
		verifhook.Assert(p.resources[int(*addr)].GetType() == res.GetType(), "C12 the address handed out denotes a resource of another type")
	}
	verifhook.Canary()
}
