package vm

import (
	"errors"
	"math/big"

	"github.com/formancehq/ledger/internal/machine"
	"github.com/formancehq/stack/libs/go-libs/verifhook"
)

// ZZ_C01: script execution never overdraws an account.
//
// For the shape's program, every opening balance and every monetary variable is an
// arbitrary integer. On success the postings are applied in order to the opening
// balances: each amount is >= 0 and, for a source other than world, at most
// max(0, running balance + granted overdraft). If the reference reading says the
// sources cannot cover a send, the run must fail with ErrInsufficientFund and yield
// no result; if the run succeeds the sources did cover every send.
func ZZ_C01(shape int) {
	sh := &zzShapes[shape]
	p, err := zzCompile(sh)
	if err != nil {
		verifhook.Reach("compile-refused")
		return
	}
	in := zzMakeInputs(sh)
	_, res, stage, err := zzExec(p, in)
	ref := zzRunRef(sh, in.vars, in.opening)
	if stage == "vars" {
		verifhook.Reach("vars-refused")
		verifhook.Assert(in.anyNegativeVar(), "C01 variables refused although all are non-negative")
		return
	}
	if err != nil {
		verifhook.Reach("failed")
		verifhook.Assert(res == nil, "C01 failure yields no result")
		if !ref.Invalid {
			// a failing run whose sources could cover everything must not claim insufficient funds,
			// and a short run must be reported as insufficient funds
			insufficient := errors.Is(err, &machine.ErrInsufficientFund{})
			verifhook.Assert(verifhook.Implies(ref.Short, insufficient), "C01 short sources reported as insufficient funds")
		}
		return
	}
	verifhook.Reach("accepted")
	verifhook.Assert(verifhook.Not(ref.Short), "C01 accepted although sources cannot cover a send")
	run := zzCopyOpening(in.opening)
	for _, po := range res.Postings {
		verifhook.Assert(po.Amount.Sign() >= 0, "C01 posting amount non-negative")
		if po.Source != "world" {
			bal, known := run.get(po.Asset, po.Source)
			verifhook.Assert(known, "C01 posting source is a declared source account")
			if !known {
				bal = zzZero
			}
			unb, od := zzGrant(sh, in.vars, po.Asset, po.Source)
			if !unb {
				floor := verifhook.Max(zzZero, new(big.Int).Add(bal, od))
				verifhook.Assert(verifhook.Le(po.Amount, floor), "C01 posting within balance plus granted overdraft")
			}
		}
		run.add(po.Asset, po.Source, new(big.Int).Neg(po.Amount))
		run.add(po.Asset, po.Destination, po.Amount)
	}
	verifhook.Canary()
}
