package vm

import (
	"context"
	"math/big"

	ledger "github.com/formancehq/ledger/internal"
	"github.com/formancehq/ledger/internal/machine"
	"github.com/formancehq/ledger/internal/machine/script/compiler"
	"github.com/formancehq/ledger/internal/machine/vm/program"
	"github.com/formancehq/stack/libs/go-libs/metadata"
	"github.com/formancehq/stack/libs/go-libs/verifhook"
)

func ZZ_NumShapes() int { return len(zzShapes) }

// zzInputs creates the arbitrary inputs of a shape: one opening balance per (asset,
// source account) and one value per monetary variable. Portion variables are concrete.
type zzInputs struct {
	vars    map[string]*big.Int
	opening map[string]map[string]*big.Int
	varsJS  map[string]string
	store   StaticStore
}

func zzMakeInputs(sh *zzShape) *zzInputs {
	in := &zzInputs{vars: map[string]*big.Int{}, opening: map[string]map[string]*big.Int{}, varsJS: map[string]string{}, store: StaticStore{}}
	for _, k := range zzSourceAccounts(sh) {
		b := verifhook.BigInt("bal_" + k[0] + "_" + k[1])
		if in.opening[k[0]] == nil {
			in.opening[k[0]] = map[string]*big.Int{}
		}
		in.opening[k[0]][k[1]] = b
		acc := in.store[k[1]]
		if acc == nil {
			acc = &AccountWithBalances{Account: ledger.Account{Address: k[1], Metadata: metadata.Metadata{}}, Balances: map[string]*big.Int{}}
			in.store[k[1]] = acc
		}
		acc.Balances[k[0]] = b
	}
	for _, v := range sh.MonVars {
		x := verifhook.BigInt("v_" + v)
		in.vars[v] = x
		in.varsJS[v] = sh.VarAsset[v] + " " + x.String()
	}
	for v, r := range sh.PortionVars {
		in.varsJS[v] = big.NewRat(r[0], r[1]).String()
	}
	return in
}

func (in *zzInputs) anyNegativeVar() bool {
	neg := false
	for _, v := range in.vars {
		neg = verifhook.Or(neg, verifhook.Lt(v, zzZero))
	}
	return neg
}

// zzExec runs the real pipeline: SetVarsFromJSON, ResolveResources, ResolveBalances, Run.
// stage reports where an error came from: "vars", "resources", "balances", "run", "".
func zzExec(p *program.Program, in *zzInputs) (m *Machine, res *Result, stage string, err error) {
	m = NewMachine(*p)
	m.Printer = func(c chan machine.Value) {
		for range c {
		}
	}
	vars := map[string]string{}
	for k, v := range in.varsJS {
		vars[k] = v
	}
	if err = m.SetVarsFromJSON(vars); err != nil {
		return m, nil, "vars", err
	}
	if _, _, err = m.ResolveResources(context.Background(), in.store); err != nil {
		return m, nil, "resources", err
	}
	if err = m.ResolveBalances(context.Background(), in.store); err != nil {
		return m, nil, "balances", err
	}
	res, err = Run(m, ledger.RunScript{})
	if err != nil {
		return m, nil, "run", err
	}
	return m, res, "", nil
}

func zzCompile(sh *zzShape) (*program.Program, error) {
	return compiler.Compile(sh.Script)
}

// zzRunning tracks balances while postings are applied in order.
type zzRunning map[string]map[string]*big.Int

func (r zzRunning) get(asset, acc string) (*big.Int, bool) {
	b, ok := r[asset][acc]
	return b, ok
}

func (r zzRunning) add(asset, acc string, d *big.Int) {
	if r[asset] == nil {
		r[asset] = map[string]*big.Int{}
	}
	b, ok := r[asset][acc]
	if !ok {
		b = zzZero
	}
	r[asset][acc] = new(big.Int).Add(b, d)
}

func zzCopyOpening(o map[string]map[string]*big.Int) zzRunning {
	r := zzRunning{}
	for as, m := range o {
		r[as] = map[string]*big.Int{}
		for a, v := range m {
			r[as][a] = v
		}
	}
	return r
}
