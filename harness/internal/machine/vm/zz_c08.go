package vm

import (
	"errors"
	"math/big"

	"github.com/formancehq/ledger/internal/machine"
	"github.com/formancehq/stack/libs/go-libs/verifhook"
)

type zzPair struct{ Src, Dst, Asset string }

// ZZ_C08: compiled programs do what the source says — differential against RefSem.
// Same outcome class; on success, for every (source, destination, asset) the summed
// posting amount equals the reference's. Programs the language rejects must be refused
// by Compile, programs it accepts must compile.
func ZZ_C08(shape int) {
	sh := &zzShapes[shape]
	p, err := zzCompile(sh)
	if err != nil {
		verifhook.Reach("compile-refused")
		verifhook.Assert(!sh.Valid, "C08 well-formed program refused by the compiler")
		return
	}
	verifhook.Assert(sh.Valid, "C08 ill-formed program accepted by the compiler: "+sh.Why)
	if !sh.Valid {
		return
	}
	in := zzMakeInputs(sh)
	_, res, stage, err := zzExec(p, in)
	ref := zzRunRef(sh, in.vars, in.opening)
	if stage == "vars" {
		verifhook.Reach("vars-refused")
		verifhook.Assert(in.anyNegativeVar(), "C08 variables refused although all are non-negative")
		return
	}
	if err != nil {
		verifhook.Reach("failed")
		if ref.Invalid {
			verifhook.Assert(errors.Is(err, &machine.ErrInvalidScript{}), "C08 invalid portions reported as invalid script")
			return
		}
		verifhook.Assert(ref.Short, "C08 run failed although the reference reading succeeds")
		verifhook.Assert(errors.Is(err, &machine.ErrInsufficientFund{}), "C08 failure class is insufficient funds")
		return
	}
	verifhook.Reach("accepted")
	verifhook.Assert(!ref.Invalid, "C08 run accepted although portions exceed 100%")
	verifhook.Assert(verifhook.Not(ref.Short), "C08 run accepted although the reference reading is short of funds")
	sumVM := map[zzPair]*big.Int{}
	sumRef := map[zzPair]*big.Int{}
	var keys []zzPair
	note := func(k zzPair) {
		if _, ok := sumVM[k]; !ok {
			sumVM[k], sumRef[k] = zzZero, zzZero
			keys = append(keys, k)
		}
	}
	for _, po := range res.Postings {
		k := zzPair{po.Source, po.Destination, po.Asset}
		note(k)
		sumVM[k] = zzAdd(sumVM[k], po.Amount)
	}
	for _, po := range ref.Postings {
		k := zzPair{po.Src, po.Dst, po.Asset}
		note(k)
		sumRef[k] = zzAdd(sumRef[k], po.Amt)
	}
	for _, k := range keys {
		verifhook.Assert(verifhook.Eq(sumVM[k], sumRef[k]), "C08 amount moved from "+k.Src+" to "+k.Dst+" equals the reference")
	}
	verifhook.Assert(len(res.Metadata) == 0, "C08 no transaction metadata invented")
	verifhook.Assert(len(res.AccountMetadata) == 0, "C08 no account metadata invented")
	verifhook.Canary()
}
