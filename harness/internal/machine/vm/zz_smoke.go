package vm

import (
	"math/big"

	"github.com/formancehq/ledger/internal/machine"
	"github.com/formancehq/stack/libs/go-libs/verifhook"
)

func ZZ_Smoke(shape int) {
	a := verifhook.BigInt("a")
	b := verifhook.BigInt("b")
	f := machine.Funding{Asset: "USD", Parts: []machine.FundingPart{
		{Account: "x", Amount: machine.NewMonetaryIntFromBigInt(a)},
		{Account: "y", Amount: machine.NewMonetaryIntFromBigInt(b)},
	}}
	verifhook.Assume(a.Sign() >= 0)
	verifhook.Assume(b.Sign() >= 0)
	n := verifhook.BigInt("n")
	res, rem, err := f.Take(machine.NewMonetaryIntFromBigInt(n))
	verifhook.Reach("took")
	if err != nil {
		return
	}
	tot := new(big.Int).Add((*big.Int)(res.Total()), (*big.Int)(rem.Total()))
	verifhook.Assert(tot.Cmp(new(big.Int).Add(a, b)) == 0, "conservation")
	verifhook.Assert((*big.Int)(res.Total()).Cmp(n) == 0, "exact")
	if shape == 1 {
		verifhook.Assert((*big.Int)(rem.Total()).Sign() > 0, "bogus")
	}
}
