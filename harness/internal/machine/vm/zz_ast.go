package vm

// Harness-side AST of generated Numscript programs and the reference semantics
// ("RefSem"): a direct reading of the source text over *big.Int, written without
// data-dependent branches (verifhook.Min/Max/Ite) so that the symbolic engine builds
// terms instead of forking. Natively the same code runs on concrete integers.

import (
	"math/big"

	"github.com/formancehq/stack/libs/go-libs/verifhook"
)

type zzPortion struct {
	Num, Den  int64
	Remaining bool
	Var       string
}

type zzSource struct {
	Kind   string // acc | world | max | seq
	Acc    string
	Od     string // "" | bounded | unbounded
	OdVar  string
	CapVar string
	Subs   []zzSource
}

type zzDest struct {
	Kind     string // acc | kept | seq | allot
	Acc      string
	CapVars  []string
	Portions []zzPortion
	Subs     []zzDest
}

type zzStmt struct {
	Kind        string // send | sendall
	AmtVar      string
	Asset       string
	SrcAllot    bool
	SrcPortions []zzPortion
	Srcs        []zzSource
	Dst         zzDest
}

type zzShape struct {
	Name        string
	Valid       bool
	Why         string
	MonVars     []string
	VarAsset    map[string]string
	PortionVars map[string][2]int64
	Script      string
	Stmts       []zzStmt
}

type zzPart struct {
	Acc string
	Amt *big.Int
}

type zzRefPosting struct {
	Src, Dst, Asset string
	Amt             *big.Int
}

type zzRef struct {
	bal      map[string]map[string]*big.Int // asset -> account -> balance
	vars     map[string]*big.Int
	pv       map[string][2]int64
	Invalid  bool // runtime-invalid (portions exceed 100%)
	Short    bool // sources could not cover a send (symbolic)
	Postings []zzRefPosting
}

var zzZero = big.NewInt(0)

func zzAdd(a, b *big.Int) *big.Int { return new(big.Int).Add(a, b) }
func zzSub(a, b *big.Int) *big.Int { return new(big.Int).Sub(a, b) }

func (r *zzRef) balOf(asset, acc string) *big.Int {
	m := r.bal[asset]
	if m == nil {
		m = map[string]*big.Int{}
		r.bal[asset] = m
	}
	b, ok := m[acc]
	if !ok {
		b = zzZero
		m[acc] = b
	}
	return b
}

func (r *zzRef) setBal(asset, acc string, v *big.Int) {
	r.balOf(asset, acc)
	r.bal[asset][acc] = v
}

// pull takes up to need (nil = unlimited) from source s, front to back.
func (r *zzRef) pull(asset string, s *zzSource, need *big.Int) []zzPart {
	switch s.Kind {
	case "world":
		return []zzPart{{"world", need}}
	case "acc":
		if s.Od == "unbounded" {
			r.setBal(asset, s.Acc, zzSub(r.balOf(asset, s.Acc), need))
			return []zzPart{{s.Acc, need}}
		}
		avail := r.balOf(asset, s.Acc)
		if s.Od == "bounded" {
			avail = zzAdd(avail, r.vars[s.OdVar])
		}
		avail = verifhook.Max(zzZero, avail)
		t := avail
		if need != nil {
			t = verifhook.Min(avail, need)
		}
		r.setBal(asset, s.Acc, zzSub(r.balOf(asset, s.Acc), t))
		return []zzPart{{s.Acc, t}}
	case "max":
		c := r.vars[s.CapVar]
		n := c
		if need != nil {
			n = verifhook.Min(c, need)
		}
		return r.pull(asset, &s.Subs[0], n)
	case "seq":
		var out []zzPart
		rest := need
		for i := range s.Subs {
			ps := r.pull(asset, &s.Subs[i], rest)
			out = append(out, ps...)
			if rest != nil {
				rest = zzSub(rest, zzTotal(ps))
			}
		}
		return out
	}
	panic("zz: source kind " + s.Kind)
}

func zzTotal(ps []zzPart) *big.Int {
	t := zzZero
	for _, p := range ps {
		t = zzAdd(t, p.Amt)
	}
	return t
}

// takeFront splits parts into the first x units and the rest.
func zzTakeFront(ps []zzPart, x *big.Int) (taken, rest []zzPart) {
	prefix := zzZero
	for _, p := range ps {
		t := verifhook.Min(p.Amt, verifhook.Max(zzZero, zzSub(x, prefix)))
		taken = append(taken, zzPart{p.Acc, t})
		rest = append(rest, zzPart{p.Acc, zzSub(p.Amt, t)})
		prefix = zzAdd(prefix, p.Amt)
	}
	return
}

func (r *zzRef) rats(ps []zzPortion) (nums, dens []int64, ok bool) {
	// total of specific portions as a fraction tn/td
	var tn, td int64 = 0, 1
	rem := -1
	nums = make([]int64, len(ps))
	dens = make([]int64, len(ps))
	for i, p := range ps {
		switch {
		case p.Remaining:
			rem = i
			continue
		case p.Var != "":
			v := r.pv[p.Var]
			nums[i], dens[i] = v[0], v[1]
		default:
			nums[i], dens[i] = p.Num, p.Den
		}
		tn, td = tn*dens[i]+nums[i]*td, td*dens[i]
	}
	if tn > td {
		return nil, nil, false
	}
	if rem >= 0 {
		nums[rem], dens[rem] = td-tn, td
	}
	return nums, dens, true
}

// alloc: floor each share, then hand the leftover units one each to the earliest entries.
func (r *zzRef) alloc(total *big.Int, ps []zzPortion) []*big.Int {
	nums, dens, ok := r.rats(ps)
	if !ok {
		r.Invalid = true
		out := make([]*big.Int, len(ps))
		for i := range out {
			out[i] = zzZero
		}
		return out
	}
	shares := make([]*big.Int, len(ps))
	sum := zzZero
	for i := range ps {
		f := new(big.Int).Mul(total, big.NewInt(nums[i]))
		f = new(big.Int).Div(f, big.NewInt(dens[i]))
		shares[i] = f
		sum = zzAdd(sum, f)
	}
	left := zzSub(total, sum)
	for i := range shares {
		extra := verifhook.Ite(verifhook.Gt(left, big.NewInt(int64(i))), big.NewInt(1), zzZero)
		shares[i] = zzAdd(shares[i], extra)
	}
	return shares
}

// push delivers parts to destination d and returns what d did not consume (kept
// parts). Reference reading of `kept`: funds a branch keeps stay at the front of the
// pool for the branches written after it, so sources are always drained in written
// order; an ordered destination sets the total it kept aside from the back of the pool
// before filling its `remaining` branch.
func (r *zzRef) push(asset string, d *zzDest, ps []zzPart) []zzPart {
	switch d.Kind {
	case "acc":
		for _, p := range ps {
			r.Postings = append(r.Postings, zzRefPosting{p.Acc, d.Acc, asset, p.Amt})
			if d.Acc != "world" {
				r.setBal(asset, d.Acc, zzAdd(r.balOf(asset, d.Acc), p.Amt))
			}
		}
		return nil
	case "kept":
		return ps
	case "seq":
		pool := ps
		keptTotal := zzZero
		for i := 0; i < len(d.Subs)-1; i++ {
			t, rest := zzTakeFront(pool, r.vars[d.CapVars[i]])
			left := r.push(asset, &d.Subs[i], t)
			keptTotal = zzAdd(keptTotal, zzTotal(left))
			pool = append(append([]zzPart{}, left...), rest...)
		}
		front, back := zzTakeFront(pool, zzSub(zzTotal(pool), keptTotal))
		left := r.push(asset, &d.Subs[len(d.Subs)-1], front)
		return append(append([]zzPart{}, left...), back...)
	case "allot":
		shares := r.alloc(zzTotal(ps), d.Portions)
		pool := ps
		for i := range d.Subs {
			t, rest := zzTakeFront(pool, shares[i])
			left := r.push(asset, &d.Subs[i], t)
			pool = append(append([]zzPart{}, left...), rest...)
		}
		return pool
	}
	panic("zz: dest kind " + d.Kind)
}

// settle returns unconsumed parts to their accounts.
func (r *zzRef) settle(asset string, ps []zzPart) {
	for _, p := range ps {
		if p.Acc != "world" {
			r.setBal(asset, p.Acc, zzAdd(r.balOf(asset, p.Acc), p.Amt))
		}
	}
}

func (r *zzRef) stmt(st *zzStmt) {
	switch st.Kind {
	case "send":
		amt := r.vars[st.AmtVar]
		var got []zzPart
		if st.SrcAllot {
			shares := r.alloc(amt, st.SrcPortions)
			for i := range st.Srcs {
				ps := r.pull(st.Asset, &st.Srcs[i], shares[i])
				r.Short = verifhook.Or(r.Short, verifhook.Lt(zzTotal(ps), shares[i]))
				got = append(got, ps...)
			}
		} else {
			got = r.pull(st.Asset, &st.Srcs[0], amt)
			r.Short = verifhook.Or(r.Short, verifhook.Lt(zzTotal(got), amt))
		}
		r.settle(st.Asset, r.push(st.Asset, &st.Dst, got))
	case "sendall":
		got := r.pull(st.Asset, &st.Srcs[0], nil)
		r.settle(st.Asset, r.push(st.Asset, &st.Dst, got))
	default:
		panic("zz: stmt kind " + st.Kind)
	}
}

// zzRunRef evaluates the shape over opening balances (asset -> account -> value).
func zzRunRef(sh *zzShape, vars map[string]*big.Int, opening map[string]map[string]*big.Int) *zzRef {
	r := &zzRef{bal: map[string]map[string]*big.Int{}, vars: vars, pv: sh.PortionVars}
	for as, m := range opening {
		for a, v := range m {
			r.setBal(as, a, v)
		}
	}
	for i := range sh.Stmts {
		r.stmt(&sh.Stmts[i])
	}
	return r
}

// ---------- shape helpers ----------

func (s *zzSource) walk(f func(*zzSource)) {
	f(s)
	for i := range s.Subs {
		s.Subs[i].walk(f)
	}
}

func (d *zzDest) walk(f func(*zzDest)) {
	f(d)
	for i := range d.Subs {
		d.Subs[i].walk(f)
	}
}

// zzAccounts lists (asset, account) pairs whose opening balance matters (source leaves).
func zzSourceAccounts(sh *zzShape) [][2]string {
	var out [][2]string
	seen := map[[2]string]bool{}
	for i := range sh.Stmts {
		st := &sh.Stmts[i]
		for j := range st.Srcs {
			st.Srcs[j].walk(func(s *zzSource) {
				if s.Kind == "acc" {
					k := [2]string{st.Asset, s.Acc}
					if !seen[k] {
						seen[k] = true
						out = append(out, k)
					}
				}
			})
		}
	}
	return out
}

// zzGrant returns the overdraft the script grants account acc for asset: unbounded, or
// the largest bounded allowance (0 if none).
func zzGrant(sh *zzShape, vars map[string]*big.Int, asset, acc string) (unbounded bool, od *big.Int) {
	od = zzZero
	for i := range sh.Stmts {
		st := &sh.Stmts[i]
		if st.Asset != asset {
			continue
		}
		for j := range st.Srcs {
			st.Srcs[j].walk(func(s *zzSource) {
				if s.Kind == "acc" && s.Acc == acc {
					switch s.Od {
					case "unbounded":
						unbounded = true
					case "bounded":
						od = verifhook.Max(od, vars[s.OdVar])
					}
				}
			})
		}
	}
	return
}
