package vm

import (
	"context"
	"math/big"

	ledger "github.com/formancehq/ledger/internal"
	"github.com/formancehq/ledger/internal/machine"
	"github.com/formancehq/ledger/internal/machine/script/compiler"
	"github.com/formancehq/stack/libs/go-libs/metadata"
	"github.com/formancehq/stack/libs/go-libs/verifhook"
)

// Programs with `save` (not enumerated by NumGen) under the floor rule of C01: putting
// funds aside can only reduce what an account gives afterwards, whatever the saved
// amount evaluates to and wherever the balance stands.
type zzSaveProg struct {
	Name   string
	Script string
	Mon    []string          // symbolic monetary variables (arbitrary non-negative amounts)
	Bal    []string          // accounts with an arbitrary (possibly negative) opening balance
	Od     map[string]string // account -> variable naming its bounded overdraft in every send
	Asset  map[string]string // asset of a monetary variable other than USD/2
	BalEUR []string          // accounts that also hold an arbitrary EUR/2 balance
}

var zzSaveProgs = []zzSaveProg{
	{Name: "save of a difference, then a send",
		Script: "vars {\nmonetary $x\nmonetary $y\nmonetary $m\n}\nsave $x - $y from @a\nsend $m (\n  source = @a\n  destination = @b\n)\n",
		Mon:    []string{"x", "y", "m"}, Bal: []string{"a"}},
	{Name: "save of a difference, then everything",
		Script: "vars {\nmonetary $x\nmonetary $y\n}\nsave $x - $y from @a\nsend [USD/2 *] (\n  source = @a\n  destination = @b\n)\n",
		Mon:    []string{"x", "y"}, Bal: []string{"a"}},
	{Name: "save everything, then a send with a bounded overdraft",
		Script: "vars {\nmonetary $o\nmonetary $m\n}\nsave [USD/2 *] from @a\nsend $m (\n  source = @a allowing overdraft up to $o\n  destination = @b\n)\n",
		Mon:    []string{"o", "m"}, Bal: []string{"a"}, Od: map[string]string{"a": "o"}},
	{Name: "save an amount, then a send with a bounded overdraft",
		Script: "vars {\nmonetary $s\nmonetary $o\nmonetary $m\n}\nsave $s from @a\nsend $m (\n  source = @a allowing overdraft up to $o\n  destination = @b\n)\n",
		Mon:    []string{"s", "o", "m"}, Bal: []string{"a"}, Od: map[string]string{"a": "o"}},
	{Name: "save everything twice around a credit",
		Script: "vars {\nmonetary $m\nmonetary $n\n}\nsave [USD/2 *] from @a\nsend $m (\n  source = @world\n  destination = @a\n)\nsave [USD/2 *] from @a\nsend $n (\n  source = {\n    @a\n    @b\n  }\n  destination = @c\n)\n",
		Mon:    []string{"m", "n"}, Bal: []string{"a", "b"}},
	{Name: "save of a sum from one of two ordered sources",
		Script: "vars {\nmonetary $x\nmonetary $y\nmonetary $m\n}\nsave $x + $y from @b\nsend $m (\n  source = {\n    @a\n    @b\n  }\n  destination = @c\n)\n",
		Mon:    []string{"x", "y", "m"}, Bal: []string{"a", "b"}},
	{Name: "a balance() variable of one asset, a send of another asset from the same account",
		Script: "vars {\nmonetary $u = balance(@a, USD/2)\nmonetary $m\n}\nsend $m (\n  source = @a\n  destination = @b\n)\nsend $u (\n  source = @a\n  destination = @c\n)\n",
		Mon:    []string{"m"}, Bal: []string{"a"}, BalEUR: []string{"a"}, Asset: map[string]string{"m": "EUR/2"}},
	{Name: "two balance() variables of two assets on one account",
		Script: "vars {\nmonetary $u = balance(@a, USD/2)\nmonetary $e = balance(@a, EUR/2)\n}\nsend $e (\n  source = @a\n  destination = @b\n)\nsend $u (\n  source = @a\n  destination = @c\n)\n",
		Bal:    []string{"a"}, BalEUR: []string{"a"}},
}

func ZZ_C01SaveN() int { return len(zzSaveProgs) }

func ZZ_C01SaveDesc(i int) string { return zzSaveProgs[i].Name + ": " + zzSaveProgs[i].Script }

// ZZ_C01Save: the floor rule on programs that put funds aside or read balances of
// several assets of one account.
func ZZ_C01Save(shape int) {
	x := &zzSaveProgs[shape]
	p, err := compiler.Compile(x.Script)
	verifhook.Assert(err == nil, "C01 a well-formed program is refused by the compiler")
	if err != nil {
		return
	}
	vars := map[string]string{}
	val := map[string]*big.Int{}
	for _, name := range x.Mon {
		a := verifhook.BigInt("v_" + name)
		verifhook.Assume(a.Sign() >= 0)
		val[name] = a
		asset := "USD/2"
		if as, ok := x.Asset[name]; ok {
			asset = as
		}
		vars[name] = asset + " " + a.String()
	}
	store := StaticStore{}
	run := map[string]*big.Int{}
	for _, a := range x.Bal {
		b := verifhook.BigInt("bal_" + a)
		run[a+"|USD/2"] = b
		store[a] = &AccountWithBalances{Account: ledger.Account{Address: a, Metadata: metadata.Metadata{}}, Balances: map[string]*big.Int{"USD/2": b}}
	}
	for _, a := range x.BalEUR {
		b := verifhook.BigInt("eur_" + a)
		run[a+"|EUR/2"] = b
		store[a].Balances["EUR/2"] = b
	}
	m := NewMachine(*p)
	m.Printer = func(c chan machine.Value) {
		for range c {
		}
	}
	var res *Result
	err = m.SetVarsFromJSON(vars)
	if err == nil {
		_, _, err = m.ResolveResources(context.Background(), store)
	}
	if err == nil {
		err = m.ResolveBalances(context.Background(), store)
	}
	if err == nil {
		res, err = Run(m, ledger.RunScript{})
	}
	verifhook.Reach("ran")
	if err != nil {
		verifhook.Reach("refused")
		return
	}
	verifhook.Reach("accepted")
	for _, po := range res.Postings {
		verifhook.Assert(po.Amount.Sign() >= 0, "C01 posting amount non-negative")
		if po.Source != "world" {
			bal, known := run[po.Source+"|"+po.Asset]
			if !known {
				bal = zzZero
			}
			od := zzZero
			if v, ok := x.Od[po.Source]; ok {
				od = val[v]
			}
			floor := verifhook.Max(zzZero, zzAdd(bal, od))
			verifhook.Assert(verifhook.Le(po.Amount, floor), "C01 posting within balance plus granted overdraft: "+x.Name)
			run[po.Source+"|"+po.Asset] = zzSub(bal, po.Amount)
		}
		if bal, known := run[po.Destination+"|"+po.Asset]; known {
			run[po.Destination+"|"+po.Asset] = zzAdd(bal, po.Amount)
		} else if po.Destination != "world" {
			run[po.Destination+"|"+po.Asset] = po.Amount
		}
	}
	verifhook.Canary()
}
