package vm

import (
	"math/big"

	"github.com/formancehq/ledger/internal/machine"
	"github.com/formancehq/stack/libs/go-libs/verifhook"
)

func (d *zzDest) hasKept() bool {
	k := false
	d.walk(func(x *zzDest) {
		if x.Kind == "kept" {
			k = true
		}
	})
	return k
}

func (d *zzDest) accounts() map[string]int {
	m := map[string]int{}
	d.walk(func(x *zzDest) {
		if x.Kind == "acc" {
			m[x.Acc]++
		}
	})
	return m
}

func (s *zzSource) accounts() map[string]int {
	m := map[string]int{}
	s.walk(func(x *zzSource) {
		switch x.Kind {
		case "acc":
			m[x.Acc]++
		case "world":
			m["world"]++
		}
	})
	return m
}

// ZZ_C03: a send moves exactly what it says (laws stated without the reference model).
// Single-statement shapes only.
func ZZ_C03(shape int) {
	sh := &zzShapes[shape]
	if len(sh.Stmts) != 1 {
		return
	}
	st := &sh.Stmts[0]
	p, err := zzCompile(sh)
	if err != nil {
		verifhook.Reach("compile-refused")
		return
	}
	in := zzMakeInputs(sh)
	m, res, _, err := zzExec(p, in)
	if err != nil {
		verifhook.Reach("failed")
		return
	}
	verifhook.Reach("accepted")
	total := zzZero
	out := map[string]*big.Int{}
	inc := map[string]*big.Int{}
	add := func(mm map[string]*big.Int, k string, v *big.Int) {
		if mm[k] == nil {
			mm[k] = zzZero
		}
		mm[k] = zzAdd(mm[k], v)
	}
	for _, po := range res.Postings {
		verifhook.Assert(po.Amount.Sign() >= 0, "C03 no negative posting")
		verifhook.Assert(po.Asset == st.Asset, "C03 posting carries the asset of the send")
		total = zzAdd(total, po.Amount)
		add(out, po.Source, po.Amount)
		add(inc, po.Destination, po.Amount)
	}
	// (a) the stated amount, minus kept parts
	if st.Kind == "send" {
		amt := in.vars[st.AmtVar]
		if st.Dst.hasKept() {
			verifhook.Assert(verifhook.Le(total, amt), "C03 postings never exceed the stated amount")
		} else {
			verifhook.Assert(verifhook.Eq(total, amt), "C03 postings add up to the stated amount")
		}
	}
	// (a') bookkeeping: every tracked balance equals opening - sent + received, so kept
	// parts really went back to where they came from
	for acc, bals := range m.Balances {
		if string(acc) == "world" {
			continue
		}
		for asset, fin := range bals {
			open, ok := in.opening[string(asset)][string(acc)]
			if !ok {
				continue
			}
			exp := open
			if v := out[string(acc)]; v != nil {
				exp = zzSub(exp, v)
			}
			if v := inc[string(acc)]; v != nil {
				exp = zzAdd(exp, v)
			}
			verifhook.Assert(verifhook.Eq((*big.Int)(fin), exp), "C03 final balance of "+string(acc)+" = opening - sent + received")
		}
	}
	// (c) caps on destinations whose account occurs once in the destination tree
	dacc := st.Dst.accounts()
	st.Dst.walk(func(d *zzDest) {
		if d.Kind != "seq" {
			return
		}
		for i := 0; i < len(d.Subs)-1; i++ {
			sub := &d.Subs[i]
			okUnique := true
			sum := zzZero
			for a := range sub.accounts() {
				if dacc[a] != sub.accounts()[a] {
					okUnique = false
				}
				if v := inc[a]; v != nil {
					sum = zzAdd(sum, v)
				}
			}
			if okUnique {
				verifhook.Assert(verifhook.Le(sum, in.vars[d.CapVars[i]]), "C03 destination max not exceeded")
			}
		}
	})
	// (c') caps on source subtrees whose accounts occur nowhere else among the sources
	sacc := map[string]int{}
	for i := range st.Srcs {
		for a, n := range st.Srcs[i].accounts() {
			sacc[a] += n
		}
	}
	for i := range st.Srcs {
		st.Srcs[i].walk(func(s *zzSource) {
			if s.Kind != "max" {
				return
			}
			sum := zzZero
			for a, n := range s.Subs[0].accounts() {
				if sacc[a] != n {
					return
				}
				if v := out[a]; v != nil {
					sum = zzAdd(sum, v)
				}
			}
			verifhook.Assert(verifhook.Le(sum, in.vars[s.CapVar]), "C03 source max not exceeded")
		})
	}
	// (e) ordered plain sources: a later one contributes only when the earlier ones gave all they can
	if !st.SrcAllot && st.Srcs[0].Kind == "seq" && !st.Dst.hasKept() {
		subs := st.Srcs[0].Subs
		plain := true
		for i := range subs {
			if subs[i].Kind != "acc" || subs[i].Od != "" || sacc[subs[i].Acc] != 1 {
				plain = false
			}
		}
		if plain {
			for j := 1; j < len(subs); j++ {
				later := out[subs[j].Acc]
				if later == nil {
					later = zzZero
				}
				for i := 0; i < j; i++ {
					gave := out[subs[i].Acc]
					if gave == nil {
						gave = zzZero
					}
					capacity := verifhook.Max(zzZero, in.opening[st.Asset][subs[i].Acc])
					// funds received from this very send do not enlarge what an earlier source could give
					verifhook.Assert(verifhook.Implies(verifhook.Gt(later, zzZero), verifhook.Ge(gave, capacity)), "C03 later source used only after the earlier is exhausted")
				}
			}
		}
	}
	verifhook.Canary()
}

var zzAllotVectors = [][]zzPortion{
	{{Num: 1, Den: 3}, {Num: 2, Den: 3}},
	{{Num: 1, Den: 2}, {Remaining: true}},
	{{Num: 1, Den: 7}, {Num: 333, Den: 1000}, {Remaining: true}},
	{{Num: 1, Den: 10}, {Num: 1, Den: 10}, {Num: 4, Den: 5}},
	{{Remaining: true}, {Num: 1, Den: 3}, {Num: 1, Den: 4}},
	{{Num: 1, Den: 1}},
	{{Num: 0, Den: 1}, {Num: 1, Den: 1}},
	{{Num: 1, Den: 3}, {Num: 1, Den: 3}, {Num: 1, Den: 3}},
	{{Num: 3, Den: 11}, {Num: 5, Den: 13}, {Remaining: true}, {Num: 1, Den: 17}},
}

func ZZ_C03AllotN() int { return len(zzAllotVectors) }

// ZZ_C03Alloc: unit law of Allotment.Allocate for a symbolic total: each share is the
// floored fraction and the leftover units go one each to the earliest entries.
func ZZ_C03Alloc(shape int) {
	ps := zzAllotVectors[shape]
	portions := make([]machine.Portion, len(ps))
	for i, p := range ps {
		if p.Remaining {
			portions[i] = machine.NewPortionRemaining()
			continue
		}
		sp, err := machine.NewPortionSpecific(*big.NewRat(p.Num, p.Den))
		if err != nil {
			panic(err)
		}
		portions[i] = *sp
	}
	a, err := machine.NewAllotment(portions)
	if err != nil {
		panic(err)
	}
	total := verifhook.BigInt("total")
	verifhook.Assume(total.Sign() >= 0)
	parts := a.Allocate(machine.NewMonetaryIntFromBigInt(total))
	verifhook.Reach("allocated")
	verifhook.Assert(len(parts) == len(ps), "C03 one share per portion")
	r := &zzRef{pv: map[string][2]int64{}}
	want := r.alloc(total, ps)
	sum := zzZero
	for i := range parts {
		sum = zzAdd(sum, (*big.Int)(parts[i]))
		verifhook.Assert(verifhook.Eq((*big.Int)(parts[i]), want[i]), "C03 share = floor(total*p) + leftover unit for the earliest entries")
	}
	verifhook.Assert(verifhook.Eq(sum, total), "C03 shares add up to the total: nothing lost or created")
	verifhook.Canary()
}
