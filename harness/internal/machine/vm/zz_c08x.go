package vm

import (
	"context"
	"fmt"
	"math/big"

	ledger "github.com/formancehq/ledger/internal"
	"github.com/formancehq/ledger/internal/machine"
	"github.com/formancehq/ledger/internal/machine/script/compiler"
	"github.com/formancehq/stack/libs/go-libs/metadata"
	"github.com/formancehq/stack/libs/go-libs/verifhook"
)

// Programs over the part of the grammar NumGen does not enumerate (save, metadata
// statements, arithmetic, account/number/portion variables, balance() and meta()
// origins). Each comes with its reference reading written out by hand: when it must be
// accepted, which postings it must yield and which metadata.

type zzXIn struct {
	v   map[string]*big.Int // monetary variable amounts (all USD/2 unless noted)
	bal map[string]*big.Int // opening balances of accounts (USD/2)
}

type zzXPost struct {
	Src, Dst string
	Amt      *big.Int
}

type zzXExpect struct {
	accept bool // the run must succeed exactly when this holds (given the assumptions)
	posts  []zzXPost
	txMeta map[string]string
	acMeta map[string]map[string]string
}

type zzExtra struct {
	Name   string
	Script string
	Mon    []string          // symbolic monetary variables
	Bal    []string          // accounts with symbolic opening balance
	Vars   map[string]string // concrete variables
	Meta   map[string]metadata.Metadata
	Assume func(in *zzXIn) bool
	Expect func(in *zzXIn) zzXExpect
	// Invalid: a text the language rejects; the compiler must refuse it
	Invalid bool
	// BalEUR: accounts that also hold an arbitrary EUR/2 balance
	BalEUR []string
}

func zzM(asset string, v *big.Int) string { return asset + " " + v.String() }

var zzExtras = []zzExtra{
	{Name: "save reduces what a later send can take",
		Script: "vars {\nmonetary $s\nmonetary $m\n}\nsave $s from @a\nsend $m (\n  source = @a\n  destination = @b\n)\n",
		Mon:    []string{"s", "m"}, Bal: []string{"a"},
		Expect: func(in *zzXIn) zzXExpect {
			avail := verifhook.Max(zzZero, zzSub(in.bal["a"], in.v["s"]))
			return zzXExpect{accept: verifhook.Le(in.v["m"], avail), posts: []zzXPost{{"a", "b", in.v["m"]}}}
		}},
	{Name: "save of a difference",
		Script: "vars {\nmonetary $x\nmonetary $y\nmonetary $m\n}\nsave $x - $y from @a\nsend $m (\n  source = @a\n  destination = @b\n)\n",
		Mon:    []string{"x", "y", "m"}, Bal: []string{"a"},
		Expect: func(in *zzXIn) zzXExpect {
			// a negative amount cannot be put aside: the script is refused
			avail := verifhook.Max(zzZero, zzSub(in.bal["a"], zzSub(in.v["x"], in.v["y"])))
			return zzXExpect{accept: verifhook.And(verifhook.Ge(in.v["x"], in.v["y"]), verifhook.Le(in.v["m"], avail)), posts: []zzXPost{{"a", "b", in.v["m"]}}}
		}},
	{Name: "save of a sum",
		Script: "vars {\nmonetary $x\nmonetary $y\nmonetary $m\n}\nsave $x + $y from @a\nsend $m (\n  source = @a\n  destination = @b\n)\n",
		Mon:    []string{"x", "y", "m"}, Bal: []string{"a"},
		Expect: func(in *zzXIn) zzXExpect {
			avail := verifhook.Max(zzZero, zzSub(in.bal["a"], zzAdd(in.v["x"], in.v["y"])))
			return zzXExpect{accept: verifhook.Le(in.v["m"], avail), posts: []zzXPost{{"a", "b", in.v["m"]}}}
		}},
	{Name: "save all leaves nothing",
		Script: "vars {\nmonetary $m\n}\nsave [USD/2 *] from @a\nsend $m (\n  source = {\n    @a\n    @b\n  }\n  destination = @c\n)\n",
		Mon:    []string{"m"}, Bal: []string{"a", "b"},
		Expect: func(in *zzXIn) zzXExpect {
			// after `save all`, @a holds nothing to give (a negative balance stays negative)
			availA := verifhook.Max(zzZero, verifhook.Min(zzZero, in.bal["a"]))
			fromA := verifhook.Min(availA, in.v["m"])
			availB := verifhook.Max(zzZero, in.bal["b"])
			fromB := zzSub(in.v["m"], fromA)
			return zzXExpect{accept: verifhook.Le(fromB, availB), posts: []zzXPost{{"a", "c", fromA}, {"b", "c", fromB}}}
		}},
	{Name: "save between two sends",
		Script: "vars {\nmonetary $m\nmonetary $s\nmonetary $n\n}\nsend $m (\n  source = @a\n  destination = @b\n)\nsave $s from @a\nsend $n (\n  source = @a\n  destination = @c\n)\n",
		Mon:    []string{"m", "s", "n"}, Bal: []string{"a"},
		Expect: func(in *zzXIn) zzXExpect {
			a0 := verifhook.Max(zzZero, in.bal["a"])
			ok1 := verifhook.Le(in.v["m"], a0)
			rest := zzSub(zzSub(in.bal["a"], in.v["m"]), in.v["s"])
			ok2 := verifhook.Le(in.v["n"], verifhook.Max(zzZero, rest))
			return zzXExpect{accept: verifhook.And(ok1, ok2), posts: []zzXPost{{"a", "b", in.v["m"]}, {"a", "c", in.v["n"]}}}
		}},
	{Name: "amount is a sum",
		Script: "vars {\nmonetary $x\nmonetary $y\n}\nsend $x + $y (\n  source = @a\n  destination = @b\n)\n",
		Mon:    []string{"x", "y"}, Bal: []string{"a"},
		Expect: func(in *zzXIn) zzXExpect {
			t := zzAdd(in.v["x"], in.v["y"])
			return zzXExpect{accept: verifhook.Le(t, verifhook.Max(zzZero, in.bal["a"])), posts: []zzXPost{{"a", "b", t}}}
		}},
	{Name: "amount is a sum, portioned source",
		Script: "vars {\nmonetary $x\nmonetary $y\n}\nsend $x + $y (\n  source = {\n    1/2 from @a\n    1/2 from @b\n  }\n  destination = @c\n)\n",
		Mon:    []string{"x", "y"}, Bal: []string{"a", "b"},
		Expect: func(in *zzXIn) zzXExpect {
			t := zzAdd(in.v["x"], in.v["y"])
			two := big.NewInt(2)
			fromB := new(big.Int).Div(t, two)
			fromA := zzSub(t, fromB) // the leftover unit goes to the first portion
			ok := verifhook.And(verifhook.Le(fromA, verifhook.Max(zzZero, in.bal["a"])), verifhook.Le(fromB, verifhook.Max(zzZero, in.bal["b"])))
			return zzXExpect{accept: ok, posts: []zzXPost{{"a", "c", fromA}, {"b", "c", fromB}}}
		}},
	{Name: "amount is a difference, portioned source with remaining",
		Script: "vars {\nmonetary $x\nmonetary $y\n}\nsend $x - $y (\n  source = {\n    1/2 from @a\n    remaining from @b\n  }\n  destination = @c\n)\n",
		Mon:    []string{"x", "y"}, Bal: []string{"a", "b"},
		Assume: func(in *zzXIn) bool { return verifhook.Ge(in.v["x"], in.v["y"]) },
		Expect: func(in *zzXIn) zzXExpect {
			t := zzSub(in.v["x"], in.v["y"])
			two := big.NewInt(2)
			fromB := new(big.Int).Div(t, two)
			fromA := zzSub(t, fromB)
			ok := verifhook.And(verifhook.Le(fromA, verifhook.Max(zzZero, in.bal["a"])), verifhook.Le(fromB, verifhook.Max(zzZero, in.bal["b"])))
			return zzXExpect{accept: ok, posts: []zzXPost{{"a", "c", fromA}, {"b", "c", fromB}}}
		}},
	{Name: "amount literal written with leading zeros",
		Script: "send [USD/2 010] (\n  source = @a\n  destination = @b\n)\n",
		Bal:    []string{"a"},
		Expect: func(in *zzXIn) zzXExpect {
			ten := big.NewInt(10)
			return zzXExpect{accept: verifhook.Le(ten, verifhook.Max(zzZero, in.bal["a"])), posts: []zzXPost{{"a", "b", ten}}}
		}},
	{Name: "monetary variable whose amount has leading zeros",
		Script: "vars {\nmonetary $m\n}\nsend $m (\n  source = @a\n  destination = @b\n)\n",
		Bal:    []string{"a"}, Vars: map[string]string{"m": "USD/2 0100"},
		Expect: func(in *zzXIn) zzXExpect {
			h := big.NewInt(100)
			return zzXExpect{accept: verifhook.Le(h, verifhook.Max(zzZero, in.bal["a"])), posts: []zzXPost{{"a", "b", h}}}
		}},
	{Name: "monetary variable whose amount has a base prefix",
		Script: "vars {\nmonetary $m\n}\nsend $m (\n  source = @world\n  destination = @b\n)\n",
		Vars:   map[string]string{"m": "USD/2 0x10"},
		Expect: func(in *zzXIn) zzXExpect { return zzXExpect{accept: false} }},
	{Name: "monetary variable whose amount has digit separators",
		Script: "vars {\nmonetary $m\n}\nsend $m (\n  source = @world\n  destination = @b\n)\n",
		Vars:   map[string]string{"m": "USD/2 1_000"},
		Expect: func(in *zzXIn) zzXExpect { return zzXExpect{accept: false} }},
	{Name: "everything of one asset, with an overdraft stated in another asset",
		Script: "send [EUR/2 1] (\n  source = @a allowing unbounded overdraft\n  destination = @c\n)\nsend [USD/2 *] (\n  source = @a allowing overdraft up to [EUR/2 5]\n  destination = @b\n)\n",
		Bal:    []string{"a"}, BalEUR: []string{"a"},
		// the second send says USD/2: an allowance in EUR/2 cannot make it move EUR/2
		Expect: func(in *zzXIn) zzXExpect { return zzXExpect{accept: false} }},
	{Name: "amount is a difference",
		Script: "vars {\nmonetary $x\nmonetary $y\n}\nsend $x - $y (\n  source = @a\n  destination = @b\n)\n",
		Mon:    []string{"x", "y"}, Bal: []string{"a"},
		Assume: func(in *zzXIn) bool { return verifhook.Ge(in.v["x"], in.v["y"]) },
		Expect: func(in *zzXIn) zzXExpect {
			t := zzSub(in.v["x"], in.v["y"])
			return zzXExpect{accept: verifhook.Le(t, verifhook.Max(zzZero, in.bal["a"])), posts: []zzXPost{{"a", "b", t}}}
		}},
	{Name: "cap is a difference, overdraft is a sum",
		Script: "vars {\nmonetary $x\nmonetary $y\nmonetary $m\n}\nsend $m (\n  source = {\n    max $x - $y from @a\n    @b allowing overdraft up to $x + $y\n  }\n  destination = @c\n)\n",
		Mon:    []string{"x", "y", "m"}, Bal: []string{"a", "b"},
		Assume: func(in *zzXIn) bool { return verifhook.Ge(in.v["x"], in.v["y"]) },
		Expect: func(in *zzXIn) zzXExpect {
			capA := zzSub(in.v["x"], in.v["y"])
			fromA := verifhook.Min(in.v["m"], verifhook.Min(capA, verifhook.Max(zzZero, in.bal["a"])))
			availB := verifhook.Max(zzZero, zzAdd(in.bal["b"], zzAdd(in.v["x"], in.v["y"])))
			fromB := zzSub(in.v["m"], fromA)
			return zzXExpect{accept: verifhook.Le(fromB, availB), posts: []zzXPost{{"a", "c", fromA}, {"b", "c", fromB}}}
		}},
	{Name: "metadata from monetary arithmetic and numbers",
		Script: "vars {\nmonetary $x\nmonetary $y\nnumber $n\n}\nset_tx_meta(\"sum\", $x + $y)\nset_tx_meta(\"diff\", $x - $y)\nset_tx_meta(\"num\", $n + 2)\nset_account_meta(@b, \"last\", $x)\nsend $x (\n  source = @world\n  destination = @b\n)\n",
		Mon:    []string{"x", "y"}, Vars: map[string]string{"n": "40"},
		Expect: func(in *zzXIn) zzXExpect {
			return zzXExpect{accept: true, posts: []zzXPost{{"world", "b", in.v["x"]}},
				txMeta: map[string]string{"sum": zzM("USD/2", zzAdd(in.v["x"], in.v["y"])), "diff": zzM("USD/2", zzSub(in.v["x"], in.v["y"])), "num": "42"},
				acMeta: map[string]map[string]string{"b": {"last": zzM("USD/2", in.v["x"])}}}
		}},
	{Name: "account, asset, string and portion variables",
		Script: "vars {\naccount $src\naccount $dst\nportion $p\nstring $note\nmonetary $m\n}\nset_tx_meta(\"note\", $note)\nset_tx_meta(\"who\", $src)\nsend $m (\n  source = $src\n  destination = {\n    $p to $dst\n    remaining to @rest\n  }\n)\n",
		Mon:    []string{"m"}, Bal: []string{"payer"}, Vars: map[string]string{"src": "payer", "dst": "payee", "p": "1/4", "note": "hello"},
		Expect: func(in *zzXIn) zzXExpect {
			q := new(big.Int).Div(in.v["m"], big.NewInt(4))
			rest3 := new(big.Int).Div(new(big.Int).Mul(in.v["m"], big.NewInt(3)), big.NewInt(4))
			left := zzSub(in.v["m"], zzAdd(q, rest3))
			first := zzAdd(q, verifhook.Ite(verifhook.Gt(left, zzZero), big.NewInt(1), zzZero))
			return zzXExpect{accept: verifhook.Le(in.v["m"], verifhook.Max(zzZero, in.bal["payer"])),
				posts:  []zzXPost{{"payer", "payee", first}, {"payer", "rest", zzSub(in.v["m"], first)}},
				txMeta: map[string]string{"note": "hello", "who": "payer"}}
		}},
	{Name: "balance() as amount and as cap",
		Script: "vars {\nmonetary $all = balance(@a, USD/2)\nmonetary $m\n}\nsend $all (\n  source = @a\n  destination = @b\n)\nsend $m (\n  source = max $all from @c\n  destination = @d\n)\n",
		Mon:    []string{"m"}, Bal: []string{"a", "c"},
		Assume: func(in *zzXIn) bool { return verifhook.Ge(in.bal["a"], zzZero) },
		Expect: func(in *zzXIn) zzXExpect {
			fromC := verifhook.Min(in.v["m"], verifhook.Min(in.bal["a"], verifhook.Max(zzZero, in.bal["c"])))
			return zzXExpect{accept: verifhook.Eq(fromC, in.v["m"]), posts: []zzXPost{{"a", "b", in.bal["a"]}, {"c", "d", in.v["m"]}}}
		}},
	{Name: "meta() gives the source and a cap",
		Script: "vars {\naccount $s = meta(@cfg, \"src\")\nmonetary $cap = meta(@cfg, \"cap\")\nmonetary $m\n}\nsend $m (\n  source = max $cap from $s\n  destination = @b\n)\n",
		Mon:    []string{"m"}, Bal: []string{"vault"}, Meta: map[string]metadata.Metadata{"cfg": {"src": "vault", "cap": "USD/2 100"}},
		Expect: func(in *zzXIn) zzXExpect {
			avail := verifhook.Min(big.NewInt(100), verifhook.Max(zzZero, in.bal["vault"]))
			return zzXExpect{accept: verifhook.Le(in.v["m"], avail), posts: []zzXPost{{"vault", "b", in.v["m"]}}}
		}},
	// texts with characters no token of the language contains: refused, not "repaired"
	{Name: "a dot in an account name", Invalid: true, Script: "send [USD/2 100] (\n  source = @world\n  destination = @shop.eu\n)\n"},
	{Name: "a currency sign after an amount", Invalid: true, Script: "send [USD/2 100€] (\n  source = @world\n  destination = @shop\n)\n"},
	{Name: "an exclamation mark after an account", Invalid: true, Script: "send [USD/2 100] (\n  source = @world\n  destination = @bob!\n)\n"},
	{Name: "a hash after a number", Invalid: true, Script: "send [USD/2 42#] (\n  source = @world\n  destination = @bob\n)\n"},
	{Name: "a stray word", Invalid: true, Script: "send [USD/2 1] (\n  source = @world please\n  destination = @bob\n)\n"},
	{Name: "an unterminated block", Invalid: true, Script: "send [USD/2 1] (\n  source = @world\n  destination = @bob\n"},
	{Name: "a type error", Invalid: true, Script: "send @bob (\n  source = @world\n  destination = @bob\n)\n"},
}

func ZZ_C08XN() int { return len(zzExtras) }

func ZZ_C08XDesc(i int) string { return zzExtras[i].Name + ": " + zzExtras[i].Script }

// ZZ_C08X: differential of the real compiler+VM against hand-written readings of programs
// over the rest of the grammar.
func ZZ_C08X(shape int) {
	x := &zzExtras[shape]
	p, err := compiler.Compile(x.Script)
	if x.Invalid {
		verifhook.Reach("invalid-text")
		verifhook.Assert(err != nil, "C08 a text the language rejects is compiled: "+x.Name)
		return
	}
	verifhook.Assert(err == nil, "C08 a well-formed program is refused by the compiler")
	if err != nil {
		return
	}
	in := &zzXIn{v: map[string]*big.Int{}, bal: map[string]*big.Int{}}
	vars := map[string]string{}
	for k, v := range x.Vars {
		vars[k] = v
	}
	for _, name := range x.Mon {
		a := verifhook.BigInt("v_" + name)
		verifhook.Assume(a.Sign() >= 0)
		in.v[name] = a
		vars[name] = "USD/2 " + a.String()
	}
	store := StaticStore{}
	acc := func(a string) *AccountWithBalances {
		if store[a] == nil {
			store[a] = &AccountWithBalances{Account: ledger.Account{Address: a, Metadata: metadata.Metadata{}}, Balances: map[string]*big.Int{}}
		}
		return store[a]
	}
	for _, a := range x.Bal {
		b := verifhook.BigInt("bal_" + a)
		in.bal[a] = b
		acc(a).Balances["USD/2"] = b
	}
	for _, a := range x.BalEUR {
		acc(a).Balances["EUR/2"] = verifhook.BigInt("eur_" + a)
	}
	for a, md := range x.Meta {
		acc(a).Metadata = md
	}
	if x.Assume != nil {
		verifhook.Assume(x.Assume(in))
	}
	m := NewMachine(*p)
	m.Printer = func(c chan machine.Value) {
		for range c {
		}
	}
	var res *Result
	err = m.SetVarsFromJSON(vars)
	if err == nil {
		_, _, err = m.ResolveResources(context.Background(), store)
	}
	if err == nil {
		err = m.ResolveBalances(context.Background(), store)
	}
	if err == nil {
		res, err = Run(m, ledger.RunScript{})
	}
	want := x.Expect(in)
	verifhook.Reach("ran")
	if err != nil {
		verifhook.Reach("failed")
		verifhook.Assert(verifhook.Not(want.accept), "C08 the program is refused although its sources cover it: "+x.Name)
		return
	}
	verifhook.Reach("accepted")
	verifhook.Assert(want.accept, "C08 the program is accepted although the source text's funds do not cover it: "+x.Name)
	// per (source, destination) sums
	sum := map[[2]string]*big.Int{}
	exp := map[[2]string]*big.Int{}
	var keys [][2]string
	note := func(k [2]string) {
		if _, ok := sum[k]; !ok {
			sum[k], exp[k] = zzZero, zzZero
			keys = append(keys, k)
		}
	}
	for _, po := range res.Postings {
		k := [2]string{po.Source, po.Destination}
		note(k)
		sum[k] = zzAdd(sum[k], po.Amount)
		verifhook.Assert(po.Asset == "USD/2", "C08 posting asset")
	}
	for _, po := range want.posts {
		k := [2]string{po.Src, po.Dst}
		note(k)
		exp[k] = zzAdd(exp[k], po.Amt)
	}
	for _, k := range keys {
		verifhook.Assert(verifhook.Eq(sum[k], exp[k]), fmt.Sprintf("C08 amount moved from %s to %s differs from the source text (%s)", k[0], k[1], x.Name))
	}
	verifhook.Assert(len(res.Metadata) == len(want.txMeta), "C08 number of transaction metadata entries")
	for k, v := range want.txMeta {
		verifhook.Assert(verifhook.StrEq(res.Metadata[k], v), "C08 transaction metadata "+k+" differs from the source text")
	}
	n := 0
	for _, md := range want.acMeta {
		n += len(md)
	}
	got := 0
	for _, md := range res.AccountMetadata {
		got += len(md)
	}
	verifhook.Assert(got == n, "C08 number of account metadata entries")
	for a, md := range want.acMeta {
		for k, v := range md {
			verifhook.Assert(verifhook.StrEq(res.AccountMetadata[a][k], v), "C08 account metadata "+a+"/"+k+" differs from the source text")
		}
	}
	verifhook.Canary()
}
