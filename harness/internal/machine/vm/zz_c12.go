package vm

import (
	"context"
	"math/big"

	ledger "github.com/formancehq/ledger/internal"
	"github.com/formancehq/ledger/internal/machine"
	"github.com/formancehq/ledger/internal/machine/script/compiler"
	"github.com/formancehq/ledger/internal/machine/vm/program"
	"github.com/formancehq/stack/libs/go-libs/metadata"
	"github.com/formancehq/stack/libs/go-libs/verifhook"
)

// ZZ_C12: no generated program, variable binding or balance table crashes the VM, and
// running the same compiled program twice gives the same outcome. A Go panic anywhere
// below is turned into a violation by the engine (PanicIsViolation) / by the replay.
func ZZ_C12(shape int) {
	sh := &zzShapes[shape]
	p, err := zzCompile(sh)
	if err != nil {
		verifhook.Reach("compile-refused")
		return
	}
	in := zzMakeInputs(sh)
	_, res1, stage1, err1 := zzExec(p, in)
	verifhook.Reach("first-run")
	_, res2, stage2, err2 := zzExec(p, in)
	verifhook.Reach("second-run")
	verifhook.Assert(stage1 == stage2, "C12 second execution of the same program ends at the same stage")
	verifhook.Assert((err1 == nil) == (err2 == nil), "C12 second execution of the same program has the same outcome")
	if err1 == nil && err2 == nil {
		verifhook.Assert(len(res1.Postings) == len(res2.Postings), "C12 second execution yields as many postings")
		if len(res1.Postings) == len(res2.Postings) {
			for i := range res1.Postings {
				a, b := res1.Postings[i], res2.Postings[i]
				verifhook.Assert(a.Source == b.Source && a.Destination == b.Destination && a.Asset == b.Asset, "C12 second execution yields the same posting ends")
				verifhook.Assert(verifhook.Eq(a.Amount, b.Amount), "C12 second execution yields the same amounts")
			}
		}
	}
	verifhook.Canary()
}

// zzOdd is a syntactically valid but unusual program with its inputs.
type zzOdd struct {
	Name    string
	Script  string
	Vars    map[string]string // concrete variable values
	SymMon  map[string]string // monetary variables with symbolic amount: name -> asset
	SymBal  [][2]string       // (account, asset) with symbolic opening balance
	Meta    map[string]metadata.Metadata
	DropVar string // variable left out of the map
	AddVar  string // extraneous variable added
}

var zzOdds = []zzOdd{
	{Name: "save from an account that is no source", Script: "vars {\nmonetary $s\n}\nsave $s from @b\nsend [USD/2 10] (\n  source = @world\n  destination = @a\n)\n", SymMon: map[string]string{"s": "USD/2"}, SymBal: [][2]string{{"b", "USD/2"}}},
	{Name: "save all from an account that is no source", Script: "save [USD/2 *] from @b\nsend [USD/2 10] (\n  source = @world\n  destination = @a\n)\n", SymBal: [][2]string{{"b", "USD/2"}}},
	{Name: "save from a source", Script: "vars {\nmonetary $s\nmonetary $m\n}\nsave $s from @a\nsend $m (\n  source = @a\n  destination = @b\n)\n", SymMon: map[string]string{"s": "USD/2", "m": "USD/2"}, SymBal: [][2]string{{"a", "USD/2"}}},
	{Name: "save more than the balance", Script: "vars {\nmonetary $s\n}\nsave $s from @a\nsend [USD/2 *] (\n  source = @a\n  destination = @b\n)\n", SymMon: map[string]string{"s": "USD/2"}, SymBal: [][2]string{{"a", "USD/2"}}},
	{Name: "two balance lookups on one account", Script: "vars {\nmonetary $x = balance(@a, USD/2)\nmonetary $y = balance(@a, EUR)\n}\nsend $x (\n  source = @world\n  destination = @b\n)\nsend $y (\n  source = @world\n  destination = @b\n)\n", SymBal: [][2]string{{"a", "USD/2"}, {"a", "EUR"}}},
	{Name: "balance lookup twice same asset", Script: "vars {\nmonetary $x = balance(@a, USD/2)\nmonetary $y = balance(@a, USD/2)\n}\nsend $x (\n  source = @world\n  destination = @b\n)\nsend $y (\n  source = @world\n  destination = @c\n)\n", SymBal: [][2]string{{"a", "USD/2"}}},
	{Name: "balance lookup used as amount", Script: "vars {\nmonetary $x = balance(@a, USD/2)\n}\nsend $x (\n  source = @a\n  destination = @b\n)\n", SymBal: [][2]string{{"a", "USD/2"}}},
	{Name: "negative result of arithmetic as amount", Script: "vars {\nmonetary $x\nmonetary $y\n}\nsend $x - $y (\n  source = @a\n  destination = @b\n)\n", SymMon: map[string]string{"x": "USD/2", "y": "USD/2"}, SymBal: [][2]string{{"a", "USD/2"}}},
	{Name: "negative arithmetic as cap", Script: "vars {\nmonetary $x\nmonetary $y\nmonetary $m\n}\nsend $m (\n  source = max $x - $y from @a\n  destination = @b\n)\n", SymMon: map[string]string{"x": "USD/2", "y": "USD/2", "m": "USD/2"}, SymBal: [][2]string{{"a", "USD/2"}}},
	{Name: "negative arithmetic as overdraft", Script: "vars {\nmonetary $x\nmonetary $y\nmonetary $m\n}\nsend $m (\n  source = @a allowing overdraft up to $x - $y\n  destination = @b\n)\n", SymMon: map[string]string{"x": "USD/2", "y": "USD/2", "m": "USD/2"}, SymBal: [][2]string{{"a", "USD/2"}}},
	{Name: "mixed assets in arithmetic", Script: "vars {\nmonetary $x\nmonetary $y\n}\nsend $x + $y (\n  source = @world\n  destination = @b\n)\n", SymMon: map[string]string{"x": "USD/2", "y": "EUR"}},
	{Name: "variable portions that do not add up", Script: "vars {\nportion $p\nportion $q\nmonetary $m\n}\nsend $m (\n  source = @world\n  destination = {\n    $p to @a\n    $q to @b\n    remaining to @c\n  }\n)\n", Vars: map[string]string{"p": "3/4", "q": "1/2"}, SymMon: map[string]string{"m": "USD/2"}},
	{Name: "variable portions adding to exactly one with remaining", Script: "vars {\nportion $p\nmonetary $m\n}\nsend $m (\n  source = @world\n  destination = {\n    $p to @a\n    remaining to @c\n  }\n)\n", Vars: map[string]string{"p": "100%"}, SymMon: map[string]string{"m": "USD/2"}},
	{Name: "send all from empty accounts", Script: "send [USD/2 *] (\n  source = {\n    @a\n    @b\n  }\n  destination = @c\n)\n", SymBal: [][2]string{{"a", "USD/2"}, {"b", "USD/2"}}},
	{Name: "unused account and asset variables", Script: "vars {\naccount $u\nasset $v\nmonetary $m\n}\nsend $m (\n  source = @world\n  destination = @b\n)\n", Vars: map[string]string{"u": "users:001", "v": "EUR"}, SymMon: map[string]string{"m": "USD/2"}},
	{Name: "account variable as source and destination", Script: "vars {\naccount $u\nmonetary $m\n}\nsend $m (\n  source = $u\n  destination = $u\n)\n", Vars: map[string]string{"u": "users:001"}, SymMon: map[string]string{"m": "USD/2"}, SymBal: [][2]string{{"users:001", "USD/2"}}},
	{Name: "account from metadata as source", Script: "vars {\naccount $s = meta(@cfg, \"src\")\nmonetary $m\n}\nsend $m (\n  source = $s\n  destination = @b\n)\n", SymMon: map[string]string{"m": "USD/2"}, SymBal: [][2]string{{"a", "USD/2"}}, Meta: map[string]metadata.Metadata{"cfg": {"src": "a"}}},
	{Name: "missing metadata key", Script: "vars {\naccount $s = meta(@cfg, \"src\")\nmonetary $m\n}\nsend $m (\n  source = $s\n  destination = @b\n)\n", SymMon: map[string]string{"m": "USD/2"}},
	{Name: "ill-typed metadata value", Script: "vars {\nmonetary $s = meta(@cfg, \"fee\")\n}\nsend $s (\n  source = @world\n  destination = @b\n)\n", Meta: map[string]metadata.Metadata{"cfg": {"fee": "not a monetary"}}},
	{Name: "metadata monetary with huge amount", Script: "vars {\nmonetary $s = meta(@cfg, \"fee\")\n}\nsend $s (\n  source = @world\n  destination = @b\n)\n", Meta: map[string]metadata.Metadata{"cfg": {"fee": "USD/2 340282366920938463463374607431768211456"}}},
	{Name: "missing variable", Script: "vars {\nmonetary $m\nmonetary $n\n}\nsend $m (\n  source = @world\n  destination = @b\n)\n", SymMon: map[string]string{"m": "USD/2", "n": "USD/2"}, DropVar: "n"},
	{Name: "extraneous variable", Script: "vars {\nmonetary $m\n}\nsend $m (\n  source = @world\n  destination = @b\n)\n", SymMon: map[string]string{"m": "USD/2"}, AddVar: "zzz"},
	{Name: "ill-formed monetary variable", Script: "vars {\nmonetary $m\n}\nsend $m (\n  source = @world\n  destination = @b\n)\n", Vars: map[string]string{"m": "USD/2"}},
	{Name: "ill-formed monetary amount", Script: "vars {\nmonetary $m\n}\nsend $m (\n  source = @world\n  destination = @b\n)\n", Vars: map[string]string{"m": "USD/2 12x"}},
	{Name: "ill-formed account variable", Script: "vars {\naccount $u\n}\nsend [USD/2 1] (\n  source = @world\n  destination = $u\n)\n", Vars: map[string]string{"u": "not an account!"}},
	{Name: "ill-formed portion variable", Script: "vars {\nportion $p\n}\nsend [USD/2 10] (\n  source = @world\n  destination = {\n    $p to @a\n    remaining to @b\n  }\n)\n", Vars: map[string]string{"p": "150%"}},
	{Name: "number variable and arithmetic", Script: "vars {\nnumber $n\n}\nset_tx_meta(\"k\", $n + 1)\nsend [USD/2 1] (\n  source = @world\n  destination = @b\n)\n", Vars: map[string]string{"n": "18446744073709551616"}},
	{Name: "number variable ill-formed", Script: "vars {\nnumber $n\n}\nset_tx_meta(\"k\", $n)\nsend [USD/2 1] (\n  source = @world\n  destination = @b\n)\n", Vars: map[string]string{"n": "\"abc\""}},
	{Name: "number variable is JSON null", Script: "vars {\nnumber $n\n}\nset_tx_meta(\"k\", $n)\nsend [USD/2 1] (\n  source = @world\n  destination = @b\n)\n", Vars: map[string]string{"n": "null"}},
	{Name: "number variable is JSON true", Script: "vars {\nnumber $n\n}\nset_tx_meta(\"k\", $n)\nsend [USD/2 1] (\n  source = @world\n  destination = @b\n)\n", Vars: map[string]string{"n": "true"}},
	{Name: "number variable is JSON array", Script: "vars {\nnumber $n\n}\nset_tx_meta(\"k\", $n)\nsend [USD/2 1] (\n  source = @world\n  destination = @b\n)\n", Vars: map[string]string{"n": "[]"}},
	{Name: "number variable is JSON object", Script: "vars {\nnumber $n\n}\nset_tx_meta(\"k\", $n)\nsend [USD/2 1] (\n  source = @world\n  destination = @b\n)\n", Vars: map[string]string{"n": "{}"}},
	{Name: "number variable is JSON fraction", Script: "vars {\nnumber $n\n}\nset_tx_meta(\"k\", $n)\nsend [USD/2 1] (\n  source = @world\n  destination = @b\n)\n", Vars: map[string]string{"n": "1.5"}},
	{Name: "number variable is JSON exponent", Script: "vars {\nnumber $n\n}\nset_tx_meta(\"k\", $n)\nsend [USD/2 1] (\n  source = @world\n  destination = @b\n)\n", Vars: map[string]string{"n": "1e3"}},
	{Name: "number variable is JSON empty", Script: "vars {\nnumber $n\n}\nset_tx_meta(\"k\", $n)\nsend [USD/2 1] (\n  source = @world\n  destination = @b\n)\n", Vars: map[string]string{"n": ""}},
	{Name: "number variable is JSON padded", Script: "vars {\nnumber $n\n}\nset_tx_meta(\"k\", $n)\nsend [USD/2 1] (\n  source = @world\n  destination = @b\n)\n", Vars: map[string]string{"n": " 7 "}},
	{Name: "number variable is JSON negative zero", Script: "vars {\nnumber $n\n}\nset_tx_meta(\"k\", $n)\nsend [USD/2 1] (\n  source = @world\n  destination = @b\n)\n", Vars: map[string]string{"n": "-0"}},
	{Name: "number variable is JSON negative", Script: "vars {\nnumber $n\n}\nset_tx_meta(\"k\", $n)\nsend [USD/2 1] (\n  source = @world\n  destination = @b\n)\n", Vars: map[string]string{"n": "-12"}},
	{Name: "monetary variable amount is JSON null", Script: "vars {\nmonetary $m\n}\nsend $m (\n  source = @world\n  destination = @b\n)\n", Vars: map[string]string{"m": "USD/2 null"}},
	{Name: "number from metadata is JSON null", Script: "vars {\nnumber $n = meta(@cfg, \"n\")\n}\nset_tx_meta(\"k\", $n)\nsend [USD/2 1] (\n  source = @world\n  destination = @b\n)\n", Meta: map[string]metadata.Metadata{"cfg": {"n": "null"}}},
	{Name: "fail statement", Script: "fail\n"},
	{Name: "print and metadata statements", Script: "vars {\nmonetary $m\n}\nprint $m\nset_tx_meta(\"a\", $m)\nset_account_meta(@x, \"b\", $m)\nsend $m (\n  source = @world\n  destination = @x\n)\n", SymMon: map[string]string{"m": "USD/2"}},
	{Name: "save arithmetic", Script: "vars {\nmonetary $x\nmonetary $y\nmonetary $m\n}\nsave $x - $y from @a\nsend $m (\n  source = @a\n  destination = @b\n)\n", SymMon: map[string]string{"x": "USD/2", "y": "USD/2", "m": "USD/2"}, SymBal: [][2]string{{"a", "USD/2"}}},
	{Name: "zero-portion allotment", Script: "vars {\nmonetary $m\n}\nsend $m (\n  source = @a\n  destination = {\n    0% to @x\n    100% to @y\n  }\n)\n", SymMon: map[string]string{"m": "USD/2"}, SymBal: [][2]string{{"a", "USD/2"}}},
	{Name: "source allotment below 100%", Script: "vars {\nmonetary $m\n}\nsend $m (\n  source = {\n    1/2 from @a\n    1/3 from @b\n  }\n  destination = @x\n)\n", SymMon: map[string]string{"m": "USD/2"}, SymBal: [][2]string{{"a", "USD/2"}, {"b", "USD/2"}}},
	{Name: "world as destination and source", Script: "vars {\nmonetary $m\n}\nsend $m (\n  source = @world\n  destination = @world\n)\n", SymMon: map[string]string{"m": "USD/2"}},
	{Name: "transaction metadata from monetary arithmetic", Script: "vars {\nmonetary $x\nmonetary $y\n}\nset_tx_meta(\"net\", $x - $y)\nsend [USD/2 1] (\n  source = @world\n  destination = @b\n)\n", SymMon: map[string]string{"x": "USD/2", "y": "USD/2"}},
	{Name: "account metadata from monetary arithmetic", Script: "vars {\nmonetary $x\nmonetary $y\n}\nset_account_meta(@b, \"delta\", $x - $y)\nsend [USD/2 1] (\n  source = @world\n  destination = @b\n)\n", SymMon: map[string]string{"x": "USD/2", "y": "USD/2"}},
	{Name: "metadata from literal arithmetic going negative", Script: "set_tx_meta(\"d\", [COIN 5] - [COIN 7])\nset_account_meta(@b, \"s\", [COIN 5] + [COIN 7])\nsend [COIN 1] (\n  source = @world\n  destination = @b\n)\n"},
	{Name: "metadata with an asset the lexer accepts but the asset pattern rejects", Script: "set_tx_meta(\"price\", [9A 1])\nsend [COIN 1] (\n  source = @world\n  destination = @b\n)\n"},
	{Name: "metadata of every value type", Script: "vars {\nportion $p\naccount $u\nasset $v\nstring $s\nnumber $n\n}\nset_tx_meta(\"a\", $p)\nset_tx_meta(\"b\", $u)\nset_tx_meta(\"c\", $v)\nset_tx_meta(\"d\", $s)\nset_tx_meta(\"e\", $n - 5)\nset_tx_meta(\"f\", 1/3)\nset_account_meta($u, \"g\", @world)\nsend [COIN 1] (\n  source = @world\n  destination = $u\n)\n", Vars: map[string]string{"p": "12.5%", "u": "users:1", "v": "EUR/2", "s": "hello world", "n": "3"}},
	{Name: "print of arithmetic", Script: "vars {\nmonetary $x\nmonetary $y\n}\nprint $x - $y\nprint 1 - 2\nsend [USD/2 1] (\n  source = @world\n  destination = @b\n)\n", SymMon: map[string]string{"x": "USD/2", "y": "USD/2"}},
	{Name: "same metadata key set twice", Script: "vars {\nmonetary $x\n}\nset_tx_meta(\"k\", $x)\nset_tx_meta(\"k\", $x + $x)\nset_account_meta(@b, \"k\", $x)\nset_account_meta(@b, \"k\", 7)\nsend $x (\n  source = @world\n  destination = @b\n)\n", SymMon: map[string]string{"x": "USD/2"}},
	{Name: "deep nesting", Script: "vars {\nmonetary $m\nmonetary $c\n}\nsend $m (\n  source = {\n    max $c from {\n      @a\n      max $c from {\n        @b\n        @c\n      }\n    }\n    @world\n  }\n  destination = {\n    max $c to {\n      1/2 to @x\n      1/2 kept\n    }\n    remaining to @y\n  }\n)\n", SymMon: map[string]string{"m": "USD/2", "c": "USD/2"}, SymBal: [][2]string{{"a", "USD/2"}, {"b", "USD/2"}, {"c", "USD/2"}}},
}

func ZZ_C12OddN() int { return len(zzOdds) }

func zzOddRun(o *zzOdd, p *program.Program, vars map[string]string, store StaticStore) (res *Result, stage string, err error) {
	m := NewMachine(*p)
	m.Printer = func(c chan machine.Value) {
		for range c {
		}
	}
	v := map[string]string{}
	for k, x := range vars {
		v[k] = x
	}
	if err = m.SetVarsFromJSON(v); err != nil {
		return nil, "vars", err
	}
	if _, _, err = m.ResolveResources(context.Background(), store); err != nil {
		return nil, "resources", err
	}
	if err = m.ResolveBalances(context.Background(), store); err != nil {
		return nil, "balances", err
	}
	res, err = Run(m, ledger.RunScript{})
	if err != nil {
		return nil, "run", err
	}
	return res, "", nil
}

// ZZ_C12Odd: the odd-but-valid class. Every outcome is acceptable except a Go panic
// or a hang; a second execution must reproduce the first.
func ZZ_C12Odd(shape int) {
	o := &zzOdds[shape]
	p, err := compiler.Compile(o.Script)
	if err != nil {
		verifhook.Reach("compile-refused")
		return
	}
	vars := map[string]string{}
	for k, v := range o.Vars {
		vars[k] = v
	}
	for name, asset := range o.SymMon {
		vars[name] = asset + " " + verifhook.BigInt("v_"+name).String()
	}
	if o.DropVar != "" {
		delete(vars, o.DropVar)
	}
	if o.AddVar != "" {
		vars[o.AddVar] = "1"
	}
	store := StaticStore{}
	get := func(a string) *AccountWithBalances {
		if store[a] == nil {
			store[a] = &AccountWithBalances{Account: ledger.Account{Address: a, Metadata: metadata.Metadata{}}, Balances: map[string]*big.Int{}}
		}
		return store[a]
	}
	for _, k := range o.SymBal {
		get(k[0]).Balances[k[1]] = verifhook.BigInt("bal_" + k[1] + "_" + k[0])
	}
	for a, md := range o.Meta {
		get(a).Metadata = md
	}
	res1, stage1, err1 := zzOddRun(o, p, vars, store)
	verifhook.Reach("first-run")
	res2, stage2, err2 := zzOddRun(o, p, vars, store)
	verifhook.Reach("second-run")
	verifhook.Assert(stage1 == stage2, "C12 second execution of the same program ends at the same stage")
	verifhook.Assert((err1 == nil) == (err2 == nil), "C12 second execution of the same program has the same outcome")
	if err1 == nil && err2 == nil && len(res1.Postings) == len(res2.Postings) {
		for i := range res1.Postings {
			verifhook.Assert(verifhook.Eq(res1.Postings[i].Amount, res2.Postings[i].Amount), "C12 second execution yields the same amounts")
		}
	}
	verifhook.Canary()
}
