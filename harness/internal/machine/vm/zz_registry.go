package vm

var zzRegistry = map[string]func(int){
	"ZZ_Smoke":    ZZ_Smoke,
	"ZZ_C01Save":  ZZ_C01Save,
	"ZZ_C01":      ZZ_C01,
	"ZZ_C03":      ZZ_C03,
	"ZZ_C03Alloc": ZZ_C03Alloc,
	"ZZ_C08":      ZZ_C08,
	"ZZ_C08X":     ZZ_C08X,
	"ZZ_C12":      ZZ_C12,
	"ZZ_C12Odd":   ZZ_C12Odd,
}
