package v2

import (
	"context"
	"encoding/json"
	"fmt"
	"math/big"

	ledger "github.com/formancehq/ledger/internal"
	"github.com/formancehq/ledger/internal/api/backend"
	"github.com/formancehq/ledger/internal/engine/command"
	"github.com/formancehq/stack/libs/go-libs/metadata"
	"github.com/formancehq/stack/libs/go-libs/verifhook"
)

// zzArgLedger records the arguments of every write call.
type zzArgLedger struct {
	backend.Ledger
	reverts []zzRevertArgs
	saves   []zzMetaArgs
	deletes []zzMetaArgs
}

type zzRevertArgs struct {
	ID    *big.Int
	Force bool
	IK    string
}

type zzMetaArgs struct {
	TargetType string
	TargetID   any
	Metadata   metadata.Metadata
	Key        string
	IK         string
}

func (l *zzArgLedger) RevertTransaction(ctx context.Context, p command.Parameters, id *big.Int, force bool) (*ledger.Transaction, error) {
	// what the engine is handed at this instant (the caller may reuse the memory later)
	var at *big.Int
	if id != nil {
		at = new(big.Int).Set(id)
	}
	l.reverts = append(l.reverts, zzRevertArgs{at, force, p.IdempotencyKey})
	return ledger.NewTransaction(), nil
}
func (l *zzArgLedger) SaveMeta(ctx context.Context, p command.Parameters, targetType string, targetID any, m metadata.Metadata) error {
	l.saves = append(l.saves, zzMetaArgs{TargetType: targetType, TargetID: targetID, Metadata: m, IK: p.IdempotencyKey})
	return nil
}
func (l *zzArgLedger) DeleteMetadata(ctx context.Context, p command.Parameters, targetType string, targetID any, key string) error {
	l.deletes = append(l.deletes, zzMetaArgs{TargetType: targetType, TargetID: targetID, Key: key, IK: p.IdempotencyKey})
	return nil
}

type zzRevertJSON struct {
	ID    *big.Int `json:"id"`
	Force *bool    `json:"force,omitempty"`
}

const ZZ_C10BulkN = 2

func ZZ_C10BulkDesc(i int) string {
	return fmt.Sprintf("bulk of %d REVERT_TRANSACTION elements, arbitrary ids, force absent / true / false per element", i+2)
}

// ZZ_C10Bulk: every revert element of a bulk reaches the engine with its own id and is
// forced only when the element itself says so.
func ZZ_C10Bulk(shape int) {
	n := shape + 2
	bulk := make(Bulk, n)
	ids := make([]*big.Int, n)
	forced := make([]bool, n)
	for i := 0; i < n; i++ {
		ids[i] = verifhook.BigInt(fmt.Sprintf("id%d", i))
		verifhook.Assume(ids[i].Sign() >= 0)
		req := zzRevertJSON{ID: ids[i]}
		switch verifhook.Choose(fmt.Sprintf("force%d", i), 3) {
		case 1:
			t := true
			req.Force, forced[i] = &t, true
		case 2:
			f := false
			req.Force = &f
		}
		body, err := json.Marshal(req)
		if err != nil {
			panic(err)
		}
		bulk[i] = Element{Action: ActionRevertTransaction, IdempotencyKey: fmt.Sprintf("ik-%d", i), Data: body}
	}
	l := &zzArgLedger{}
	ret, errorsInBulk, err := ProcessBulk(context.Background(), l, bulk, false)
	verifhook.Reach("processed")
	verifhook.Assert(err == nil && !errorsInBulk && len(ret) == n, "C10 a bulk of well-formed reverts is processed")
	verifhook.Assert(len(l.reverts) == n, "C10 every revert element reaches the engine once")
	if len(l.reverts) != n {
		return
	}
	for i := 0; i < n; i++ {
		got := l.reverts[i]
		verifhook.Assert(got.ID != nil && verifhook.Eq(got.ID, ids[i]), "C10 a bulk revert names another transaction than its element")
		verifhook.Assert(got.Force == forced[i], "C10 a bulk revert is forced (or not) against what its element says")
		verifhook.Assert(got.IK == bulk[i].IdempotencyKey, "C10 a bulk revert runs with another element's idempotency key")
	}
	verifhook.Canary()
}

type zzMetaJSON struct {
	TargetType string             `json:"targetType"`
	TargetID   any                `json:"targetId"`
	Metadata   *metadata.Metadata `json:"metadata,omitempty"`
	Key        *string            `json:"key,omitempty"`
}

const ZZ_C18ArgsN = 2

func ZZ_C18ArgsDesc(i int) string {
	return fmt.Sprintf("bulk of %d ADD_METADATA / DELETE_METADATA elements on accounts and transactions, optional members arbitrary per element", i+2)
}

// ZZ_C18Args: every metadata element of a bulk reaches the engine with its own target,
// metadata and key -- nothing is carried over from a neighbouring element.
func ZZ_C18Args(shape int) {
	n := shape + 2
	bulk := make(Bulk, n)
	type exp struct {
		del  bool
		tt   string
		acc  string
		txid *big.Int
		md   metadata.Metadata
		key  string
	}
	want := make([]exp, n)
	for i := 0; i < n; i++ {
		e := exp{}
		req := zzMetaJSON{}
		if verifhook.Choose(fmt.Sprintf("target%d", i), 2) == 0 {
			e.tt, e.acc = ledger.MetaTargetTypeAccount, fmt.Sprintf("acc%d", i)
			req.TargetType, req.TargetID = e.tt, e.acc
		} else {
			e.tt, e.txid = ledger.MetaTargetTypeTransaction, verifhook.BigInt(fmt.Sprintf("tx%d", i))
			verifhook.Assume(e.txid.Sign() >= 0)
			req.TargetType, req.TargetID = e.tt, e.txid
		}
		action := ActionAddMetadata
		if verifhook.Choose(fmt.Sprintf("action%d", i), 2) == 1 {
			action, e.del = ActionDeleteMetadata, true
			if verifhook.Choose(fmt.Sprintf("key%d", i), 2) == 1 {
				e.key = fmt.Sprintf("key%d", i)
				req.Key = &e.key
			}
		} else if verifhook.Choose(fmt.Sprintf("metadata%d", i), 2) == 1 {
			e.md = metadata.Metadata{fmt.Sprintf("k%d", i): fmt.Sprintf("v%d", i)}
			req.Metadata = &e.md
		}
		body, err := json.Marshal(req)
		if err != nil {
			panic(err)
		}
		want[i] = e
		bulk[i] = Element{Action: action, IdempotencyKey: fmt.Sprintf("ik-%d", i), Data: body}
	}
	l := &zzArgLedger{}
	ret, errorsInBulk, err := ProcessBulk(context.Background(), l, bulk, false)
	verifhook.Reach("processed")
	verifhook.Assert(err == nil && !errorsInBulk && len(ret) == n, "C18 a bulk of well-formed metadata elements is processed")
	si, di := 0, 0
	for i := 0; i < n; i++ {
		var got zzMetaArgs
		if want[i].del {
			verifhook.Assert(di < len(l.deletes), "C18 a DELETE_METADATA element does not reach the engine")
			if di >= len(l.deletes) {
				return
			}
			got = l.deletes[di]
			di++
			verifhook.Assert(got.Key == want[i].key, "C18 a DELETE_METADATA element runs with a key it did not carry")
		} else {
			verifhook.Assert(si < len(l.saves), "C18 an ADD_METADATA element does not reach the engine")
			if si >= len(l.saves) {
				return
			}
			got = l.saves[si]
			si++
			verifhook.Assert(len(got.Metadata) == len(want[i].md), "C18 an ADD_METADATA element runs with metadata it did not carry")
			for k, v := range want[i].md {
				verifhook.Assert(got.Metadata[k] == v, "C18 an ADD_METADATA element lost its metadata")
			}
		}
		verifhook.Assert(got.TargetType == want[i].tt, "C18 a metadata element runs on another target type")
		verifhook.Assert(got.IK == bulk[i].IdempotencyKey, "C18 a metadata element runs with another element's idempotency key")
		if want[i].tt == ledger.MetaTargetTypeAccount {
			s, ok := got.TargetID.(string)
			verifhook.Assert(ok && s == want[i].acc, "C18 a metadata element runs on another account")
		} else {
			id, ok := got.TargetID.(*big.Int)
			verifhook.Assert(ok && id != nil && verifhook.Eq(id, want[i].txid), "C18 a metadata element runs on another transaction")
		}
	}
	verifhook.Canary()
}
