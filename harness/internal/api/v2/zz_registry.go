package v2

var zzRegistry = map[string]func(int){
	"ZZ_C18": ZZ_C18,
}
