package v2

var zzRegistry = map[string]func(int){
	"ZZ_C18":     ZZ_C18,
	"ZZ_C18Two":  ZZ_C18Two,
	"ZZ_C18Args": ZZ_C18Args,
	"ZZ_C10Bulk": ZZ_C10Bulk,
	"ZZ_C09Bulk": ZZ_C09Bulk,
	"ZZ_C09Http": ZZ_C09Http,
	"ZZ_C10Http": ZZ_C10Http,
	"ZZ_C14Flag": ZZ_C14Flag,
}
