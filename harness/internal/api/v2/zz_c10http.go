package v2

import (
	"context"
	"math/big"
	"net/http"
	"net/url"

	"github.com/go-chi/chi/v5"

	ledger "github.com/formancehq/ledger/internal"
	"github.com/formancehq/ledger/internal/api/backend"
	"github.com/formancehq/ledger/internal/engine/command"
	"github.com/formancehq/stack/libs/go-libs/verifhook"
)

type zzRevertLedger struct {
	backend.Ledger
	ids    []*big.Int
	forces []bool
	params []command.Parameters
}

func (l *zzRevertLedger) RevertTransaction(ctx context.Context, p command.Parameters, id *big.Int, force bool) (*ledger.Transaction, error) {
	l.ids = append(l.ids, id)
	l.forces = append(l.forces, force)
	l.params = append(l.params, p)
	return ledger.NewTransaction(), nil
}

const zzForceParam = "force"

const ZZ_C10HttpN = 5

func ZZ_C10HttpDesc(i int) string {
	if i == 0 {
		return "POST /transactions/{id}/revert, arbitrary id, no " + zzForceParam + " parameter"
	}
	return "POST /transactions/{id}/revert, arbitrary id, " + zzForceParam + " = arbitrary alphanumeric string of " + string(rune('0'+i)) + " byte(s)"
}

// ZZ_C10Http: the revert handler asks the engine to revert exactly the transaction named
// in the URL, once, and forces it only when the request says so.
func ZZ_C10Http(shape int) {
	id := verifhook.BigInt("id")
	verifhook.Assume(id.Sign() >= 0)
	q := ""
	wantForce := false
	if shape > 0 {
		v := verifhook.String("flag", shape)
		for i := 0; i < shape; i++ {
			verifhook.Assume(verifhook.ByteClass(v[i], []string{"a-zA-Z0-9"}) == 0)
		}
		q = zzForceParam + "=" + v
		wantForce = verifhook.StrEq(v, "1")
		for _, s := range zzCaseVariants("true") {
			wantForce = verifhook.Or(wantForce, verifhook.StrEq(v, s))
		}
	}
	l := &zzRevertLedger{}
	rctx := chi.NewRouteContext()
	rctx.URLParams.Add("id", id.String())
	ctx := context.WithValue(backend.ContextWithLedger(context.Background(), l), chi.RouteCtxKey, rctx)
	r := (&http.Request{Method: http.MethodPost, URL: &url.URL{Path: "/l1/transactions/x/revert", RawQuery: q}, Header: http.Header{}}).WithContext(ctx)
	w := &zzRecorder{}
	revertTransaction(w, r)
	verifhook.Reach("handled")
	verifhook.Assert(len(l.ids) == 1, "C10 the revert request reaches the engine exactly once")
	if len(l.ids) != 1 {
		return
	}
	verifhook.Assert(l.ids[0] != nil && verifhook.Eq(l.ids[0], id), "C10 the engine is asked to revert another transaction than the one named in the URL")
	if l.forces[0] {
		verifhook.Reach("forced")
		verifhook.Assert(wantForce, "C10 a revert is forced although the request does not ask for it")
	} else {
		verifhook.Reach("unforced")
		verifhook.Assert(verifhook.Not(wantForce), "C10 a revert asked to be forced runs unforced")
	}
	verifhook.Assert(!l.params[0].DryRun && l.params[0].IdempotencyKey == "", "C10 revert runs with parameters the request did not carry")
	verifhook.Assert(w.status == http.StatusCreated, "C10 a successful revert is not answered with 201")
	verifhook.Canary()
}
