package v2

import (
	"context"
	"encoding/json"
	"fmt"
	"math/big"
	"time"

	ledger "github.com/formancehq/ledger/internal"
	"github.com/formancehq/ledger/internal/api/backend"
	"github.com/formancehq/ledger/internal/engine/command"
	"github.com/formancehq/stack/libs/go-libs/metadata"
	"github.com/formancehq/stack/libs/go-libs/verifhook"
)

// zzTxLedger records the RunScript every CreateTransaction call receives.
type zzTxLedger struct {
	backend.Ledger
	got []ledger.RunScript
	iks []string
}

func (l *zzTxLedger) CreateTransaction(ctx context.Context, p command.Parameters, data ledger.RunScript) (*ledger.Transaction, error) {
	l.got = append(l.got, data)
	l.iks = append(l.iks, p.IdempotencyKey)
	return ledger.NewTransaction(), nil
}

// zzTxRequest is the client's JSON body: members the client does not supply are absent.
type zzTxRequest struct {
	Postings  ledger.Postings    `json:"postings"`
	Metadata  *metadata.Metadata `json:"metadata,omitempty"`
	Reference *string            `json:"reference,omitempty"`
	Timestamp *ledger.Time       `json:"timestamp,omitempty"`
}

const ZZ_C09BulkN = 2

func ZZ_C09BulkDesc(i int) string {
	return fmt.Sprintf("bulk of %d posting-mode transactions; presence of metadata / reference / timestamp arbitrary per element, amounts arbitrary", i+2)
}

// ZZ_C09Bulk: each posting-mode element of a bulk reaches the engine with exactly its own
// postings, metadata, reference and timestamp -- nothing is carried over from a
// neighbouring element.
func ZZ_C09Bulk(shape int) {
	n := shape + 2
	bulk := make(Bulk, n)
	want := make([]ledger.TransactionData, n)
	for i := 0; i < n; i++ {
		amt := verifhook.BigInt(fmt.Sprintf("amt%d", i))
		verifhook.Assume(verifhook.Ge(amt, big.NewInt(0)))
		dst := fmt.Sprintf("acc%d", i)
		td := ledger.TransactionData{Postings: ledger.Postings{{Source: "world", Destination: dst, Asset: "USD/2", Amount: amt}}}
		req := zzTxRequest{Postings: td.Postings}
		switch verifhook.Choose(fmt.Sprintf("metadata%d", i), 3) {
		case 1:
			td.Metadata = metadata.Metadata{fmt.Sprintf("k%d", i): fmt.Sprintf("v%d", i)}
			req.Metadata = &td.Metadata
		case 2:
			td.Metadata = metadata.Metadata{}
			req.Metadata = &td.Metadata
		}
		if verifhook.Choose(fmt.Sprintf("reference%d", i), 2) == 1 {
			td.Reference = fmt.Sprintf("ref%d", i)
			req.Reference = &td.Reference
		}
		if verifhook.Choose(fmt.Sprintf("timestamp%d", i), 2) == 1 {
			td.Timestamp = ledger.Time{Time: time.Date(2023, 1, 2+i, 3, 4, 5, 0, time.UTC)}
			req.Timestamp = &td.Timestamp
		}
		body, err := json.Marshal(req)
		if err != nil {
			panic(err)
		}
		want[i] = td
		bulk[i] = Element{Action: ActionCreateTransaction, IdempotencyKey: fmt.Sprintf("ik-%d", i), Data: body}
	}
	l := &zzTxLedger{}
	ret, errorsInBulk, err := ProcessBulk(context.Background(), l, bulk, false)
	verifhook.Reach("processed")
	verifhook.Assert(err == nil && !errorsInBulk && len(ret) == n, "C09 a bulk of valid posting-mode transactions is processed")
	verifhook.Assert(len(l.got) == n, "C09 every element reaches the engine once")
	if len(l.got) != n {
		return
	}
	for i := 0; i < n; i++ {
		got, exp := l.got[i], ledger.TxToScriptData(want[i], false)
		verifhook.Assert(l.iks[i] == bulk[i].IdempotencyKey, "C09 element runs with another element's idempotency key")
		verifhook.Assert(got.Reference == exp.Reference, "C09 element committed with a reference it did not supply")
		verifhook.Assert(got.Timestamp.Equal(exp.Timestamp), "C09 element committed with a timestamp it did not supply")
		verifhook.Assert(len(got.Metadata) == len(exp.Metadata), "C09 element committed with metadata it did not supply")
		for k, v := range exp.Metadata {
			verifhook.Assert(got.Metadata[k] == v, "C09 supplied metadata lost")
		}
		verifhook.Assert(got.Script.Plain == exp.Script.Plain, "C09 element runs another script than its postings translate to")
		verifhook.Assert(len(got.Script.Vars) == len(exp.Script.Vars), "C09 element runs with other variables than its postings")
		for k, v := range exp.Script.Vars {
			verifhook.Assert(verifhook.StrEq(got.Script.Vars[k], v), "C09 element runs with another amount or account than supplied")
		}
	}
	verifhook.Canary()
}

func verifhookCtx() context.Context { return context.Background() }
