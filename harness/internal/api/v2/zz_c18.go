package v2

import (
	"context"
	"encoding/json"
	"fmt"
	"math/big"
	"net/http"
	"net/url"

	"github.com/pkg/errors"

	ledger "github.com/formancehq/ledger/internal"
	"github.com/formancehq/ledger/internal/api/backend"
	"github.com/formancehq/ledger/internal/engine/command"
	"github.com/formancehq/ledger/internal/machine"
	"github.com/formancehq/stack/libs/go-libs/metadata"
	"github.com/formancehq/stack/libs/go-libs/verifhook"
)

type zzCall struct {
	Action string
	IK     string
}

// zzLedger records the write calls and fails them on demand. Read methods are not
// implemented (calling one panics through the nil embedded interface).
type zzLedger struct {
	backend.Ledger
	calls []zzCall
	fail  []bool // per call index: fail?
	class []int
}

func (l *zzLedger) outcome(action, ik string) error {
	i := len(l.calls)
	l.calls = append(l.calls, zzCall{action, ik})
	if i < len(l.fail) && l.fail[i] {
		switch l.class[i] {
		case 0:
			return machine.NewErrInsufficientFund("short")
		case 1:
			return command.NewErrConflict()
		default:
			return errors.New("storage down")
		}
	}
	return nil
}

func (l *zzLedger) CreateTransaction(ctx context.Context, p command.Parameters, data ledger.RunScript) (*ledger.Transaction, error) {
	if err := l.outcome(ActionCreateTransaction, p.IdempotencyKey); err != nil {
		return nil, err
	}
	return ledger.NewTransaction(), nil
}
func (l *zzLedger) RevertTransaction(ctx context.Context, p command.Parameters, id *big.Int, force bool) (*ledger.Transaction, error) {
	if err := l.outcome(ActionRevertTransaction, p.IdempotencyKey); err != nil {
		return nil, err
	}
	return ledger.NewTransaction(), nil
}
func (l *zzLedger) SaveMeta(ctx context.Context, p command.Parameters, targetType string, targetID any, m metadata.Metadata) error {
	return l.outcome(ActionAddMetadata, p.IdempotencyKey)
}
func (l *zzLedger) DeleteMetadata(ctx context.Context, p command.Parameters, targetType string, targetID any, key string) error {
	return l.outcome(ActionDeleteMetadata, p.IdempotencyKey)
}

var zzActions = []string{ActionCreateTransaction, ActionAddMetadata, ActionRevertTransaction, ActionDeleteMetadata, "SOMETHING_ELSE", zzMalformed, zzBadTarget}

// zzBadTarget: a metadata element on a kind of target that does not exist
const zzBadTarget = "DELETE_METADATA on an unknown target type"

// zzMalformed: a known action whose payload does not decode -- a failing element like any other
const zzMalformed = "ADD_METADATA with a payload that does not decode"

var zzPayloads = map[string]string{
	ActionCreateTransaction: `{"postings":[{"source":"world","destination":"bank","amount":100,"asset":"USD/2"}],"metadata":{"k":"v"}}`,
	ActionAddMetadata:       `{"targetType":"ACCOUNT","targetId":"bank","metadata":{"k":"v"}}`,
	ActionRevertTransaction: `{"id":3,"force":false}`,
	ActionDeleteMetadata:    `{"targetType":"TRANSACTION","targetId":3,"key":"k"}`,
	"SOMETHING_ELSE":        `{}`,
	zzMalformed:             `{"targetType":"ACCOUNT","targetId":12,"metadata":"not an object"}`,
	zzBadTarget:             `{"targetType":"LEDGER","targetId":"x","key":"k"}`,
}

// zzNoCall: elements that fail before any backend call
func zzNoCall(action string) bool {
	return action == "SOMETHING_ELSE" || action == zzMalformed || action == zzBadTarget
}

func zzWire(action string) string {
	switch action {
	case zzMalformed:
		return ActionAddMetadata
	case zzBadTarget:
		return ActionDeleteMetadata
	}
	return action
}

func ZZ_C18N() int { return 6 }

// ZZ_C18: bulk requests run in order, answer position by position, stop at a failure.
// shape+1 = number of elements. Action, outcome, error class of every element and
// continueOnFailure are arbitrary.
func ZZ_C18(shape int) {
	n := shape%3 + 1
	viaHTTP := shape >= 3
	bulk := make(Bulk, n)
	kinds := make([]string, n)
	l := &zzLedger{fail: make([]bool, n), class: make([]int, n)}
	wantFail := make([]bool, n)
	for i := 0; i < n; i++ {
		a := zzActions[verifhook.Choose(fmt.Sprintf("action%d", i), len(zzActions))]
		bulk[i] = Element{Action: zzWire(a), IdempotencyKey: fmt.Sprintf("ik-%d", i), Data: []byte(zzPayloads[a])}
		kinds[i] = a
		wantFail[i] = verifhook.Bool(fmt.Sprintf("fails%d", i))
	}
	cont := verifhook.Bool("continueOnFailure")
	// the i-th backend call belongs to the i-th element with a known action
	ci := 0
	for i := 0; i < n; i++ {
		if zzNoCall(kinds[i]) {
			continue
		}
		l.fail[ci] = wantFail[i]
		l.class[ci] = verifhook.Choose(fmt.Sprintf("class%d", i), 3)
		ci++
	}
	var ret []Result
	var errorsInBulk bool
	var err error
	if viaHTTP {
		// the whole request: JSON body, continueOnFailure query parameter, status code and JSON answer
		body, merr := json.Marshal(bulk)
		if merr != nil {
			panic(merr)
		}
		// the continueOnFailure parameter is absent or an arbitrary alphanumeric string; it
		// asks for the flag exactly when it spells true (any letter case) or 1
		q := ""
		if fl := verifhook.Choose("contLen", 5); fl > 0 {
			v := verifhook.String("contFlag", fl)
			for i := 0; i < fl; i++ {
				verifhook.Assume(verifhook.ByteClass(v[i], []string{"a-zA-Z0-9"}) == 0)
			}
			asks := verifhook.StrEq(v, "1")
			for _, sp := range zzCaseVariants("true") {
				asks = verifhook.Or(asks, verifhook.StrEq(v, sp))
			}
			verifhook.Assume(asks == cont)
			q = []string{"continueOnFailure=" + v, "x=1&continueOnFailure=" + v}[verifhook.Choose("contPos", 2)]
		} else {
			verifhook.Assume(!cont)
		}
		r := (&http.Request{Method: http.MethodPost, URL: &url.URL{Path: "/l1/_bulk", RawQuery: q}, Header: http.Header{}, Body: &zzBody{data: body}}).
			WithContext(backend.ContextWithLedger(context.Background(), l))
		w := &zzRecorder{}
		bulkHandler(w, r)
		var resp struct {
			Data []Result `json:"data"`
		}
		if uerr := json.Unmarshal(w.body, &resp); uerr != nil {
			panic(uerr)
		}
		ret = resp.Data
		verifhook.Assert(w.status == http.StatusOK || w.status == http.StatusBadRequest, "C18 bulk answered with a status other than 200/400")
		errorsInBulk = w.status == http.StatusBadRequest
	} else {
		ret, errorsInBulk, err = ProcessBulk(context.Background(), l, bulk, cont)
	}
	verifhook.Reach("processed")
	verifhook.Assert(err == nil, "C18 a bulk is answered element by element (no processed element is left without its result)")
	// reference: elements are processed in order; an unknown action is a failing element
	var processed []int
	anyFailed := false
	for i := 0; i < n; i++ {
		processed = append(processed, i)
		failed := wantFail[i] || zzNoCall(kinds[i])
		if failed {
			anyFailed = true
			if !cont {
				break
			}
		}
	}
	var wantCalls []zzCall
	for _, i := range processed {
		if !zzNoCall(kinds[i]) {
			wantCalls = append(wantCalls, zzCall{bulk[i].Action, bulk[i].IdempotencyKey})
		}
	}
	verifhook.Assert(len(l.calls) == len(wantCalls), "C18 exactly the elements up to the first failure are executed")
	if len(l.calls) == len(wantCalls) {
		for i := range wantCalls {
			verifhook.Assert(l.calls[i] == wantCalls[i], "C18 elements execute in the order given, each with its own idempotency key")
		}
	}
	verifhook.Assert(len(ret) == len(processed), "C18 one result per processed element")
	if len(ret) == len(processed) {
		for pos, i := range processed {
			failed := wantFail[i] || zzNoCall(kinds[i])
			if failed {
				verifhook.Assert(ret[pos].ResponseType == "ERROR" && ret[pos].ErrorCode != "", "C18 failing element answered with an error at its position")
			} else {
				verifhook.Assert(ret[pos].ResponseType == bulk[i].Action && ret[pos].ErrorCode == "", "C18 succeeding element answered with its own result at its position")
			}
		}
	}
	verifhook.Assert(errorsInBulk == anyFailed, "C18 failure is signalled exactly when an element failed")
	verifhook.Canary()
}

// zzElementJSON is a bulk element as a client may send it: members it omits are absent.
type zzElementJSON struct {
	Action string           `json:"action"`
	IK     *string          `json:"ik,omitempty"`
	Data   *json.RawMessage `json:"data,omitempty"`
}

const ZZ_C18TwoN = 2

func ZZ_C18TwoDesc(i int) string {
	return fmt.Sprintf("two bulk requests one after the other through bulkHandler, %d element(s) each; the second may omit idempotency keys and payload members the first supplied", i+1)
}

// ZZ_C18Two: a bulk request is processed on its own terms: its elements run with their
// own idempotency keys and payloads whatever an earlier request carried at the same
// positions.
func ZZ_C18Two(shape int) {
	n := shape + 1
	l := &zzLedger{}
	send := func(elems []zzElementJSON) int {
		body, err := json.Marshal(elems)
		if err != nil {
			panic(err)
		}
		r := (&http.Request{Method: http.MethodPost, URL: &url.URL{Path: "/l1/_bulk"}, Header: http.Header{}, Body: &zzBody{data: body}}).
			WithContext(backend.ContextWithLedger(context.Background(), l))
		w := &zzRecorder{}
		bulkHandler(w, r)
		return w.status
	}
	first := make([]zzElementJSON, n)
	for i := range first {
		ik := fmt.Sprintf("first-%d", i)
		data := json.RawMessage(zzPayloads[ActionAddMetadata])
		first[i] = zzElementJSON{Action: ActionAddMetadata, IK: &ik, Data: &data}
	}
	send(first)
	verifhook.Assert(len(l.calls) == n, "C18 first bulk is executed element by element")
	l.calls = nil
	second := make([]zzElementJSON, n)
	var want []zzCall
	for i := range second {
		a := []string{ActionAddMetadata, ActionDeleteMetadata}[verifhook.Choose(fmt.Sprintf("action%d", i), 2)]
		data := json.RawMessage(zzPayloads[a])
		second[i] = zzElementJSON{Action: a, Data: &data}
		ik := ""
		if verifhook.Choose(fmt.Sprintf("ik%d", i), 2) == 1 {
			ik = fmt.Sprintf("second-%d", i)
			second[i].IK = &ik
		}
		want = append(want, zzCall{a, ik})
	}
	status := send(second)
	verifhook.Reach("second-processed")
	verifhook.Assert(status == http.StatusOK, "C18 a well-formed bulk is not answered with 200")
	verifhook.Assert(len(l.calls) == len(want), "C18 the second bulk does not execute exactly its own elements")
	if len(l.calls) == len(want) {
		for i := range want {
			verifhook.Assert(l.calls[i] == want[i], "C18 an element runs with an action or idempotency key it did not carry")
		}
	}
	verifhook.Canary()
}
