package api

import (
	"net/http"
	"net/url"

	"github.com/formancehq/stack/libs/go-libs/verifhook"
)

type zzRecorder struct {
	header http.Header
	status int
	body   []byte
}

func (r *zzRecorder) Header() http.Header {
	if r.header == nil {
		r.header = http.Header{}
	}
	return r.header
}
func (r *zzRecorder) Write(b []byte) (int, error) { r.body = append(r.body, b...); return len(b), nil }
func (r *zzRecorder) WriteHeader(code int)        { r.status = code }

var zzC19Paths = []string{"/api/ledger/l1/transactions", "/api/ledger/v2/l1/transactions", "/api/ledger/v2/l1/_bulk", "/api/ledger/v2/l1/transactions/3/revert"}
var zzC19Queries = []string{"", "preview=true", "dryRun=true", "preview=true&dryRun=true", "preview=false&dryRun=1"}

func ZZ_C19N() int { return 9 * len(zzC19Paths) * len(zzC19Queries) }

func ZZ_C19Desc(i int) string {
	n := i % 9
	pq := i / 9
	return "method: arbitrary string of " + string(rune('0'+n)) + " bytes, path " + zzC19Paths[pq%len(zzC19Paths)] + ", query \"" + zzC19Queries[pq/len(zzC19Paths)] + "\""
}

// ZZ_C19: in read-only mode the wrapped handler is reached only for GET, HEAD, OPTIONS.
// shape encodes the length of the (arbitrary) method string, the path and the query.
func ZZ_C19(shape int) {
	n := shape % 9
	pq := shape / 9
	u := &url.URL{Path: zzC19Paths[pq%len(zzC19Paths)], RawQuery: zzC19Queries[pq/len(zzC19Paths)]}
	m := verifhook.String("method", n)
	reached := false
	h := ReadOnly(http.HandlerFunc(func(w http.ResponseWriter, r *http.Request) { reached = true }))
	rec := &zzRecorder{}
	h.ServeHTTP(rec, &http.Request{Method: m, URL: u, Header: http.Header{}})
	verifhook.Reach("served")
	safe := verifhook.Or(verifhook.StrEq(m, "GET"), verifhook.Or(verifhook.StrEq(m, "HEAD"), verifhook.StrEq(m, "OPTIONS")))
	if reached {
		verifhook.Reach("passed-through")
		verifhook.Assert(safe, "C19 read-only mode lets a method other than GET/HEAD/OPTIONS through")
	} else {
		verifhook.Reach("refused")
		verifhook.Assert(verifhook.Not(safe), "C19 read-only mode refuses a safe method")
		verifhook.Assert(rec.status == http.StatusBadRequest, "C19 refused request is answered with 400")
	}
	verifhook.Canary()
}
