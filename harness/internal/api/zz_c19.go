package api

import (
	"net/http"

	"github.com/formancehq/stack/libs/go-libs/verifhook"
)

type zzRecorder struct {
	header http.Header
	status int
	body   []byte
}

func (r *zzRecorder) Header() http.Header {
	if r.header == nil {
		r.header = http.Header{}
	}
	return r.header
}
func (r *zzRecorder) Write(b []byte) (int, error) { r.body = append(r.body, b...); return len(b), nil }
func (r *zzRecorder) WriteHeader(code int)         { r.status = code }

func ZZ_C19N() int { return 9 }

// ZZ_C19: in read-only mode the wrapped handler is reached only for GET, HEAD, OPTIONS.
// shape = length of the (arbitrary) method string.
func ZZ_C19(shape int) {
	m := verifhook.String("method", shape)
	reached := false
	h := ReadOnly(http.HandlerFunc(func(w http.ResponseWriter, r *http.Request) { reached = true }))
	rec := &zzRecorder{}
	h.ServeHTTP(rec, &http.Request{Method: m})
	verifhook.Reach("served")
	safe := verifhook.Or(verifhook.StrEq(m, "GET"), verifhook.Or(verifhook.StrEq(m, "HEAD"), verifhook.StrEq(m, "OPTIONS")))
	if reached {
		verifhook.Reach("passed-through")
		verifhook.Assert(safe, "C19 read-only mode lets a method other than GET/HEAD/OPTIONS through")
	} else {
		verifhook.Reach("refused")
		verifhook.Assert(verifhook.Not(safe), "C19 read-only mode refuses a safe method")
		verifhook.Assert(rec.status == http.StatusBadRequest, "C19 refused request is answered with 400")
	}
	verifhook.Canary()
}
