package api

var zzRegistry = map[string]func(int){
	"ZZ_C19": ZZ_C19,
}
