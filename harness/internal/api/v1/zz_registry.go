package v1

var zzRegistry = map[string]func(int){
	"ZZ_C14Flag": ZZ_C14Flag,
	"ZZ_C09Http": ZZ_C09Http,
	"ZZ_C10Http": ZZ_C10Http,
}
