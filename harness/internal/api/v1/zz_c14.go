package v1

import (
	"net/http"
	"net/url"

	"github.com/formancehq/stack/libs/go-libs/verifhook"
)

// zzCaseVariants returns every upper/lower-case spelling of an ASCII word.
func zzCaseVariants(w string) []string {
	out := []string{""}
	for i := 0; i < len(w); i++ {
		c := w[i]
		var next []string
		for _, p := range out {
			next = append(next, p+string(rune(c)))
			if c >= 'a' && c <= 'z' {
				next = append(next, p+string(rune(c-32)))
			}
		}
		out = next
	}
	return out
}

// zzPreviewSpelling: the spellings under which a write is "submitted in dry-run mode":
// the documented boolean (true in any case, 1) and the legacy yes (any case) that both
// API versions accept at the pinned commit.
func zzPreviewSpelling(v string) bool {
	is := verifhook.StrEq(v, "1")
	for _, w := range []string{"true", "yes"} {
		for _, s := range zzCaseVariants(w) {
			is = verifhook.Or(is, verifhook.StrEq(v, s))
		}
	}
	return is
}

const ZZ_C14FlagN = 12

func ZZ_C14FlagDesc(i int) string {
	other := []string{"alone", "after another parameter", "with an idempotency key header"}[i/4]
	return "preview value: arbitrary alphanumeric string of " + string(rune('0'+(i%4)+1)) + " byte(s), " + other
}

// ZZ_C14Flag: getCommandParameters puts a request into dry-run mode exactly for the
// preview spellings of the preview query parameter, and hands the idempotency key through.
func ZZ_C14Flag(shape int) {
	n, ctx := shape%4+1, shape/4
	v := verifhook.String("flag", n)
	for i := 0; i < n; i++ {
		verifhook.Assume(verifhook.ByteClass(v[i], []string{"a-zA-Z0-9"}) == 0)
	}
	raw := "preview=" + v
	h := http.Header{}
	switch ctx {
	case 1:
		raw = "pageSize=3&" + raw
	case 2:
		h.Set("Idempotency-Key", "k1")
	}
	r := &http.Request{Method: http.MethodPost, URL: &url.URL{Path: "/transactions", RawQuery: raw}, Header: h}
	p := getCommandParameters(r)
	verifhook.Reach("parsed")
	want := zzPreviewSpelling(v)
	if p.DryRun {
		verifhook.Reach("dry-run")
		verifhook.Assert(want, "C14 a value that is not a preview spelling puts the request in dry-run mode")
	} else {
		verifhook.Reach("real")
		verifhook.Assert(verifhook.Not(want), "C14 a write submitted with preview=<true|yes|1> is executed as a real write")
	}
	if ctx == 2 {
		verifhook.Assert(p.IdempotencyKey == "k1", "C14 idempotency key header lost")
	} else {
		verifhook.Assert(p.IdempotencyKey == "", "C14 idempotency key invented")
	}
	verifhook.Canary()
}
