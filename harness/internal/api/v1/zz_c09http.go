package v1

import (
	"context"
	"encoding/json"
	"fmt"
	"io"
	"math/big"
	"net/http"
	"net/url"
	"time"

	ledger "github.com/formancehq/ledger/internal"
	"github.com/formancehq/ledger/internal/api/backend"
	"github.com/formancehq/ledger/internal/engine/command"
	"github.com/formancehq/stack/libs/go-libs/metadata"
	"github.com/formancehq/stack/libs/go-libs/verifhook"
)

// zzTxLedger records the RunScript every CreateTransaction call receives.
type zzTxLedger struct {
	backend.Ledger
	got []ledger.RunScript
	iks []string
}

func (l *zzTxLedger) CreateTransaction(ctx context.Context, p command.Parameters, data ledger.RunScript) (*ledger.Transaction, error) {
	l.got = append(l.got, data)
	l.iks = append(l.iks, p.IdempotencyKey)
	return ledger.NewTransaction(), nil
}

// zzTxRequest is the client's JSON body: members the client does not supply are absent.
type zzTxRequest struct {
	Postings  ledger.Postings    `json:"postings"`
	Metadata  *metadata.Metadata `json:"metadata,omitempty"`
	Reference *string            `json:"reference,omitempty"`
	Timestamp *ledger.Time       `json:"timestamp,omitempty"`
}

func verifhookCtx() context.Context { return context.Background() }

type zzBody struct{ data []byte }

func (b *zzBody) Read(p []byte) (int, error) {
	n := copy(p, b.data)
	b.data = b.data[n:]
	if n == 0 {
		return 0, io.EOF
	}
	return n, nil
}
func (b *zzBody) Close() error { return nil }

type zzRecorder struct {
	header http.Header
	status int
	body   []byte
}

func (r *zzRecorder) Header() http.Header {
	if r.header == nil {
		r.header = http.Header{}
	}
	return r.header
}
func (r *zzRecorder) Write(b []byte) (int, error) {
	if r.status == 0 {
		r.status = 200
	}
	r.body = append(r.body, b...)
	return len(b), nil
}
func (r *zzRecorder) WriteHeader(code int) { r.status = code }

const ZZ_C09HttpN = 2

func ZZ_C09HttpDesc(i int) string {
	return fmt.Sprintf("POST /transactions with %d posting(s); amounts arbitrary integers, presence of metadata / reference / timestamp / idempotency key arbitrary", i+1)
}

// zzPostingRequest builds a posting-mode request body with arbitrary amounts and
// optional members, and the transaction data it stands for.
func zzPostingRequest(n int) ([]byte, ledger.TransactionData, bool) {
	td := ledger.TransactionData{}
	anyNegative := false
	for i := 0; i < n; i++ {
		amt := verifhook.BigInt(fmt.Sprintf("amt%d", i))
		anyNegative = verifhook.Or(anyNegative, verifhook.Lt(amt, big.NewInt(0)))
		td.Postings = append(td.Postings, ledger.Posting{Source: "world", Destination: fmt.Sprintf("acc%d", i), Asset: "USD/2", Amount: amt})
	}
	req := zzTxRequest{Postings: td.Postings}
	switch verifhook.Choose("metadata", 3) {
	case 1:
		td.Metadata = metadata.Metadata{"k": "v"}
		req.Metadata = &td.Metadata
	case 2:
		td.Metadata = metadata.Metadata{}
		req.Metadata = &td.Metadata
	}
	if verifhook.Choose("reference", 2) == 1 {
		td.Reference = "ref-1"
		req.Reference = &td.Reference
	}
	if verifhook.Choose("timestamp", 2) == 1 {
		td.Timestamp = ledger.Time{Time: time.Date(2023, 1, 2, 3, 4, 5, 0, time.UTC)}
		req.Timestamp = &td.Timestamp
	}
	body, err := json.Marshal(req)
	if err != nil {
		panic(err)
	}
	return body, td, anyNegative
}

// ZZ_C09Http: the v1 handler validates the postings up front (a negative amount is
// refused before the engine is called) and otherwise hands the engine exactly the
// postings, metadata, reference and timestamp of the request body, once.
func ZZ_C09Http(shape int) {
	body, td, anyNegative := zzPostingRequest(shape + 1)
	l := &zzTxLedger{}
	h := http.Header{}
	ik := ""
	if verifhook.Choose("ik", 2) == 1 {
		ik = "key-1"
		h.Set("Idempotency-Key", ik)
	}
	r := (&http.Request{Method: http.MethodPost, URL: &url.URL{Path: "/l1/transactions"}, Header: h, Body: &zzBody{data: body}}).
		WithContext(backend.ContextWithLedger(verifhookCtx(), l))
	w := &zzRecorder{}
	postTransaction(w, r)
	verifhook.Reach("handled")
	if len(l.got) == 0 {
		verifhook.Reach("refused")
		verifhook.Assert(anyNegative, "C09 a well-formed posting-mode request does not reach the engine")
		verifhook.Assert(w.status == http.StatusBadRequest, "C09 a refused request is answered with 400")
		return
	}
	verifhook.Assert(verifhook.Not(anyNegative), "C09 v1 hands a negative posting amount to the engine")
	verifhook.Assert(w.status == http.StatusOK, "C09 a well-formed posting-mode request is not answered with 200")
	verifhook.Assert(len(l.got) == 1, "C09 the request reaches the engine exactly once")
	if len(l.got) != 1 {
		return
	}
	zzSameRunScript(l.got[0], ledger.TxToScriptData(td, false))
	verifhook.Assert(l.iks[0] == ik, "C09 idempotency key header not handed to the engine")
	verifhook.Canary()
}

func zzSameRunScript(got, exp ledger.RunScript) {
	verifhook.Assert(got.Reference == exp.Reference, "C09 committed with a reference the request did not supply")
	verifhook.Assert(got.Timestamp.Equal(exp.Timestamp), "C09 committed with a timestamp the request did not supply")
	verifhook.Assert(len(got.Metadata) == len(exp.Metadata), "C09 committed with metadata the request did not supply")
	for k, v := range exp.Metadata {
		verifhook.Assert(got.Metadata[k] == v, "C09 supplied metadata lost")
	}
	verifhook.Assert(got.Script.Plain == exp.Script.Plain, "C09 the request runs another script than its postings translate to")
	verifhook.Assert(len(got.Script.Vars) == len(exp.Script.Vars), "C09 the request runs with other variables than its postings")
	for k, v := range exp.Script.Vars {
		verifhook.Assert(verifhook.StrEq(got.Script.Vars[k], v), "C09 the request runs with another amount or account than supplied")
	}
}
