package storage

import ledger "github.com/formancehq/ledger/internal"

// Accessors for the verification harnesses (overlay only).
func (m *InMemoryStore) Logs() []*ledger.ChainedLog                 { return m.logs }
func (m *InMemoryStore) Transactions() []*ledger.ExpandedTransaction { return m.transactions }
func (m *InMemoryStore) SetAccounts(a []*ledger.Account)            { m.accounts = a }
func (m *InMemoryStore) PreloadLog(l *ledger.ChainedLog)            { m.logs = append(m.logs, l) }
func (m *InMemoryStore) PreloadTransaction(t *ledger.ExpandedTransaction) {
	m.transactions = append(m.transactions, t)
}
