package ledgerstore

var zzRegistry = map[string]func(int){
	"ZZ_C17Cursor": ZZ_C17Cursor,
	"ZZ_C17Filter": ZZ_C17Filter,
	"ZZ_C20":       ZZ_C20,
}
