package ledgerstore

var zzRegistry = map[string]func(int){
	"ZZ_C17Cursor": ZZ_C17Cursor,
	"ZZ_C20":       ZZ_C20,
}
