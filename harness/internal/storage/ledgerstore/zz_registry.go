package ledgerstore

var zzRegistry = map[string]func(int){
	"ZZ_C20": ZZ_C20,
}
