package ledgerstore

import (
	"github.com/formancehq/stack/libs/go-libs/bun/bunpaginate"
	"github.com/formancehq/stack/libs/go-libs/query"
	"github.com/formancehq/stack/libs/go-libs/verifhook"
)

func ZZ_C17CursorN() int { return 4 }

func ZZ_C17CursorDesc(i int) string {
	return []string{"transactions list, no filter", "transactions list, filter {$match: {account: users:1}}", "accounts list, filter {$and: [...]}", "logs list, filter {$lt: {date: ...}}"}[i]
}

// ZZ_C17Cursor: every cursor token the server hands out is accepted back and stands for
// the same query, filters included. The token is what the list endpoints encode
// (EncodeCursor of the paginated query) and decode (UnmarshalCursor into the same type).
func ZZ_C17Cursor(shape int) {
	store := &Store{name: "l"}
	switch shape {
	case 0, 1:
		opts := NewPaginatedQueryOptions(PITFilterWithVolumes{}).WithPageSize(3)
		if shape == 1 {
			opts = opts.WithQueryBuilder(query.Match("account", "users:1"))
		}
		q := NewGetTransactionsQuery(opts)
		pid := verifhook.BigInt("pagination_id")
		q.PaginationID = pid
		token := bunpaginate.EncodeCursor(q)
		var back GetTransactionsQuery
		err := bunpaginate.UnmarshalCursor(token, &back)
		verifhook.Reach("decoded")
		verifhook.Assert(err == nil, "C17 a cursor handed out for a transactions list is not accepted back")
		if err != nil {
			return
		}
		verifhook.Assert(back.PageSize == 3 && back.Column == q.Column && back.Order == q.Order, "C17 decoded cursor stands for another page size / column / order")
		verifhook.Assert(back.PaginationID != nil && verifhook.Eq(back.PaginationID, pid), "C17 decoded cursor stands for another position")
		verifhook.Assert((back.Options.QueryBuilder == nil) == (q.Options.QueryBuilder == nil), "C17 the cursor lost (or invented) the filter")
		if q.Options.QueryBuilder != nil && back.Options.QueryBuilder != nil {
			c1, _, e1 := store.transactionQueryContext(q.Options.QueryBuilder, q)
			c2, _, e2 := store.transactionQueryContext(back.Options.QueryBuilder, back)
			verifhook.Assert(e1 == nil && e2 == nil && c1 == c2, "C17 the decoded cursor's filter builds another clause")
		}
	case 2:
		opts := NewPaginatedQueryOptions(PITFilterWithVolumes{}).WithPageSize(5).
			WithQueryBuilder(query.And(query.Match("address", "users:"), query.Match("metadata[k]", "v")))
		q := NewGetAccountsQuery(opts)
		token := bunpaginate.EncodeCursor(q)
		var back GetAccountsQuery
		err := bunpaginate.UnmarshalCursor(token, &back)
		verifhook.Reach("decoded")
		verifhook.Assert(err == nil, "C17 a cursor handed out for an accounts list is not accepted back")
		if err != nil {
			return
		}
		verifhook.Assert(back.Options.QueryBuilder != nil, "C17 the cursor lost the filter")
	case 3:
		opts := NewPaginatedQueryOptions[any](nil).WithPageSize(5).WithQueryBuilder(query.Lt("date", "2023-01-01T00:00:00Z"))
		q := NewGetLogsQuery(opts)
		token := bunpaginate.EncodeCursor(q)
		var back GetLogsQuery
		err := bunpaginate.UnmarshalCursor(token, &back)
		verifhook.Reach("decoded")
		verifhook.Assert(err == nil, "C17 a cursor handed out for a logs list is not accepted back")
		if err != nil {
			return
		}
		verifhook.Assert(back.Options.QueryBuilder != nil, "C17 the cursor lost the filter")
	}
	verifhook.Canary()
}

// zzGenFilter builds an arbitrary filter tree of the given depth; every shape choice is a
// decision of the exploration, every leaf has its own key so that no two trees render alike.
func zzGenFilter(path string, depth, maxArity int, leaves *int) query.Builder {
	kinds := 5
	if depth == 0 {
		kinds = 2
	}
	k := verifhook.Choose("node"+path, kinds)
	switch k {
	case 0:
		*leaves++
		return query.Match("k"+string(rune('0'+*leaves)), "v"+path)
	case 1:
		*leaves++
		return query.Lt("k"+string(rune('0'+*leaves)), "w"+path)
	case 4:
		return query.Not(zzGenFilter(path+"n", depth-1, maxArity, leaves))
	case 2, 3:
		arity := 0
		if path == "" {
			arity = verifhook.Choose("arity"+path, maxArity+1)
		} else {
			arity = verifhook.Choose("arity"+path, maxArity) + 1
		}
		items := make([]query.Builder, 0, arity)
		for i := 0; i < arity; i++ {
			items = append(items, zzGenFilter(path+string(rune('a'+i)), depth-1, maxArity, leaves))
		}
		if k == 2 {
			return query.And(items...)
		}
		return query.Or(items...)
	}
	panic("unreachable")
}

func zzRender(b query.Builder) (string, []any, error) {
	return b.Build(query.ContextFn(func(key, operator string, value any) (string, []any, error) {
		s, _ := value.(string)
		return key + " " + operator + " <" + s + ">", []any{value}, nil
	}))
}

var zzC17FilterShapes = [][2]int{{0, 0}, {1, 3}, {2, 2}, {2, 3}}

func ZZ_C17FilterDesc(i int) string {
	sh := zzC17FilterShapes[i]
	return "arbitrary filter tree of depth <= " + string(rune('0'+sh[0])) + " over {$match, $lt, $and, $or, $not}, sets of up to " + string(rune('0'+sh[1])) + " items (empty set at the top only)"
}

// ZZ_C17Filter: the filter carried inside a cursor token is the filter of the first page,
// whatever its shape: the decoded builder renders exactly the clause the original renders.
func ZZ_C17Filter(shape int) {
	n := 0
	f := zzGenFilter("", zzC17FilterShapes[shape][0], zzC17FilterShapes[shape][1], &n)
	if c, _, err := zzRender(f); err == nil {
		verifhook.Note(c)
	}
	q := NewGetTransactionsQuery(NewPaginatedQueryOptions(PITFilterWithVolumes{}).WithPageSize(uint64(verifhook.Choose("pageSize", 3) + 1)).WithQueryBuilder(f))
	pid := verifhook.BigInt("pagination_id")
	q.PaginationID = pid
	token := bunpaginate.EncodeCursor(q)
	var back GetTransactionsQuery
	err := bunpaginate.UnmarshalCursor(token, &back)
	verifhook.Reach("decoded")
	verifhook.Assert(err == nil, "C17 a cursor handed out for a filtered list is not accepted back")
	if err != nil {
		return
	}
	verifhook.Assert(back.PageSize == q.PageSize, "C17 decoded cursor stands for another page size")
	verifhook.Assert(back.PaginationID != nil && verifhook.Eq(back.PaginationID, pid), "C17 decoded cursor stands for another position")
	verifhook.Assert(back.Options.QueryBuilder != nil, "C17 the cursor lost the filter")
	if back.Options.QueryBuilder == nil {
		return
	}
	c1, a1, e1 := zzRender(f)
	c2, a2, e2 := zzRender(back.Options.QueryBuilder)
	verifhook.Assert(e1 == nil && e2 == nil, "C17 filter does not render")
	verifhook.Assert(c1 == c2, "C17 the filter decoded from the cursor is not the filter of the first page")
	verifhook.Assert(len(a1) == len(a2), "C17 the filter decoded from the cursor binds other arguments")
	verifhook.Canary()
}
