package ledgerstore

import (
	"github.com/formancehq/stack/libs/go-libs/bun/bunpaginate"
	"github.com/formancehq/stack/libs/go-libs/query"
	"github.com/formancehq/stack/libs/go-libs/verifhook"
)

func ZZ_C17CursorN() int { return 4 }

func ZZ_C17CursorDesc(i int) string {
	return []string{"transactions list, no filter", "transactions list, filter {$match: {account: users:1}}", "accounts list, filter {$and: [...]}", "logs list, filter {$lt: {date: ...}}"}[i]
}

// ZZ_C17Cursor: every cursor token the server hands out is accepted back and stands for
// the same query, filters included. The token is what the list endpoints encode
// (EncodeCursor of the paginated query) and decode (UnmarshalCursor into the same type).
func ZZ_C17Cursor(shape int) {
	store := &Store{name: "l"}
	switch shape {
	case 0, 1:
		opts := NewPaginatedQueryOptions(PITFilterWithVolumes{}).WithPageSize(3)
		if shape == 1 {
			opts = opts.WithQueryBuilder(query.Match("account", "users:1"))
		}
		q := NewGetTransactionsQuery(opts)
		pid := verifhook.BigInt("pagination_id")
		q.PaginationID = pid
		token := bunpaginate.EncodeCursor(q)
		var back GetTransactionsQuery
		err := bunpaginate.UnmarshalCursor(token, &back)
		verifhook.Reach("decoded")
		verifhook.Assert(err == nil, "C17 a cursor handed out for a transactions list is not accepted back")
		if err != nil {
			return
		}
		verifhook.Assert(back.PageSize == 3 && back.Column == q.Column && back.Order == q.Order, "C17 decoded cursor stands for another page size / column / order")
		verifhook.Assert(back.PaginationID != nil && verifhook.Eq(back.PaginationID, pid), "C17 decoded cursor stands for another position")
		verifhook.Assert((back.Options.QueryBuilder == nil) == (q.Options.QueryBuilder == nil), "C17 the cursor lost (or invented) the filter")
		if q.Options.QueryBuilder != nil && back.Options.QueryBuilder != nil {
			c1, _, e1 := store.transactionQueryContext(q.Options.QueryBuilder, q)
			c2, _, e2 := store.transactionQueryContext(back.Options.QueryBuilder, back)
			verifhook.Assert(e1 == nil && e2 == nil && c1 == c2, "C17 the decoded cursor's filter builds another clause")
		}
	case 2:
		opts := NewPaginatedQueryOptions(PITFilterWithVolumes{}).WithPageSize(5).
			WithQueryBuilder(query.And(query.Match("address", "users:"), query.Match("metadata[k]", "v")))
		q := NewGetAccountsQuery(opts)
		token := bunpaginate.EncodeCursor(q)
		var back GetAccountsQuery
		err := bunpaginate.UnmarshalCursor(token, &back)
		verifhook.Reach("decoded")
		verifhook.Assert(err == nil, "C17 a cursor handed out for an accounts list is not accepted back")
		if err != nil {
			return
		}
		verifhook.Assert(back.Options.QueryBuilder != nil, "C17 the cursor lost the filter")
	case 3:
		opts := NewPaginatedQueryOptions[any](nil).WithPageSize(5).WithQueryBuilder(query.Lt("date", "2023-01-01T00:00:00Z"))
		q := NewGetLogsQuery(opts)
		token := bunpaginate.EncodeCursor(q)
		var back GetLogsQuery
		err := bunpaginate.UnmarshalCursor(token, &back)
		verifhook.Reach("decoded")
		verifhook.Assert(err == nil, "C17 a cursor handed out for a logs list is not accepted back")
		if err != nil {
			return
		}
		verifhook.Assert(back.Options.QueryBuilder != nil, "C17 the cursor lost the filter")
	}
	verifhook.Canary()
}
