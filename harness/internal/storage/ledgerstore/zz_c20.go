package ledgerstore

import (
	"context"
	"fmt"

	"github.com/uptrace/bun"

	"github.com/formancehq/stack/libs/go-libs/query"
	"github.com/formancehq/stack/libs/go-libs/verifhook"
)

// zzFilterCase: which listing, which key/operator, where the client's text goes.
type zzFilterCase struct {
	Listing string // accounts | transactions | balances | logs
	Key     string // key with %s where client text is part of the key (metadata[...], balance[...])
	Op      string // $match $lt ...
	InKey   bool   // client text inside the brackets of the key (value is then benign)
	Len     int    // number of arbitrary bytes
}

const zzC20MaxLen = 4

var zzC20Cases = zzBuildC20()

func zzBuildC20() []zzFilterCase {
	var out []zzFilterCase
	add := func(l, k, op string, inKey bool) {
		for n := 0; n <= zzC20MaxLen; n++ {
			out = append(out, zzFilterCase{l, k, op, inKey, n})
		}
	}
	add("accounts", "address", "$match", false)
	add("accounts", "metadata[k]", "$match", false)
	add("accounts", "metadata[%s]", "$match", true)
	add("accounts", "balance[USD]", "$lt", false)
	add("accounts", "balance[%s]", "$lt", true)
	add("accounts", "balance", "$lt", false)
	add("transactions", "account", "$match", false)
	add("transactions", "source", "$match", false)
	add("transactions", "destination", "$match", false)
	add("transactions", "reference", "$match", false)
	add("transactions", "timestamp", "$gte", false)
	add("transactions", "metadata[k]", "$match", false)
	add("transactions", "metadata[%s]", "$match", true)
	add("balances", "address", "$match", false)
	add("balances", "metadata[%s]", "$match", true)
	add("logs", "date", "$lt", false)
	return out
}

func ZZ_C20N() int { return len(zzC20Cases) }

func ZZ_C20Desc(i int) string { return fmt.Sprintf("%+v", zzC20Cases[i]) }

func zzMakeKV(op, key string, value any) query.Builder {
	switch op {
	case "$lt":
		return query.Lt(key, value)
	case "$lte":
		return query.Lte(key, value)
	case "$gt":
		return query.Gt(key, value)
	case "$gte":
		return query.Gte(key, value)
	}
	return query.Match(key, value)
}

func zzBuildClause(store *Store, c zzFilterCase, text string) (string, []any, error) {
	key, value := c.Key, any(text)
	if c.InKey {
		key = fmt.Sprintf(c.Key, text)
		value = "x"
	}
	qb := zzMakeKV(c.Op, key, value)
	switch c.Listing {
	case "accounts":
		return store.accountQueryContext(qb, GetAccountsQuery{})
	case "transactions":
		return store.transactionQueryContext(qb, GetTransactionsQuery{})
	case "balances":
		return zzBalancesClause(store, &zzProbe{op: c.Op, key: key, value: value})
	case "logs":
		return zzLogsClause(store, &zzProbe{op: c.Op, key: key, value: value})
	}
	panic("zz: listing")
}

// zzProbe is a query.Builder that hands one key/operator/value to whatever matcher the
// store method installs, records the answer and then aborts the method with an error,
// so the real closures inside GetAggregatedBalances and logsQueryBuilder run without a
// database.
type zzProbe struct {
	op, key string
	value   any
	clause  string
	args    []any
	err     error
	called  bool
}

type zzStop struct{}

func (zzStop) Error() string { return "zz: probe done" }

func (p *zzProbe) Build(ctx query.Context) (string, []any, error) {
	p.clause, p.args, p.err = ctx.BuildMatcher(p.key, p.op, p.value)
	p.called = true
	return "", nil, zzStop{}
}

func zzBalancesClause(store *Store, p *zzProbe) (string, []any, error) {
	q := NewGetAggregatedBalancesQuery(PaginatedQueryOptions[PITFilter]{QueryBuilder: p})
	_, err := store.GetAggregatedBalances(context.Background(), q)
	if !p.called {
		panic(fmt.Sprint("zz: balances matcher not reached: ", err))
	}
	return p.clause, p.args, p.err
}

func zzLogsClause(store *Store, p *zzProbe) (clause string, args []any, err error) {
	defer func() {
		if r := recover(); r != nil {
			if !p.called {
				panic(r)
			}
			clause, args, err = p.clause, p.args, p.err
		}
	}()
	store.logsQueryBuilder(PaginatedQueryOptions[any]{QueryBuilder: p})(&bun.SelectQuery{})
	panic("zz: logs matcher not reached")
}

// byte classes of the scanners (one decision per arbitrary byte under the engine)
const (
	zzQ1 = iota // '
	zzQ2        // "
	zzBS        // backslash
	zzWS
	zzDG
	zzID
	zzPH // ?
	zzST // structural punctuation of JSON / jsonpath
	zzOT
)

var zzClasses = []string{"'", "\"", "\\", " \t\n", "0-9", "a-zA-Z_.", "?", "[]{},:$=()|&!@*<>"}

func zzCls(b byte) int { return verifhook.ByteClass(b, zzClasses) }

// zzSQLKinds scans a clause into token kinds: L quoted literal (followed by the kinds of
// its content read as JSON/jsonpath), Q quoted identifier, I identifier/keyword,
// N number, P placeholder, and any other byte as x or, for structural ones, itself.
func zzSQLKinds(s string) string {
	out := ""
	i := 0
	for i < len(s) {
		switch zzCls(s[i]) {
		case zzWS:
			i++
		case zzQ1:
			j := i + 1
			for j < len(s) {
				if zzCls(s[j]) == zzQ1 {
					if j+1 < len(s) && zzCls(s[j+1]) == zzQ1 {
						j += 2
						continue
					}
					break
				}
				j++
			}
			if j >= len(s) {
				return out + "L<unterminated>"
			}
			out += "L{" + zzInnerKinds(s[i+1:j]) + "}"
			i = j + 1
		case zzQ2:
			j := i + 1
			for j < len(s) && zzCls(s[j]) != zzQ2 {
				j++
			}
			if j >= len(s) {
				return out + "Q<unterminated>"
			}
			out += "Q"
			i = j + 1
		case zzPH:
			out += "P"
			i++
		case zzDG:
			for i < len(s) && zzCls(s[i]) == zzDG {
				i++
			}
			out += "N"
		case zzID:
			for i < len(s) && (zzCls(s[i]) == zzID || zzCls(s[i]) == zzDG) {
				i++
			}
			out += "I"
		case zzST:
			out += string([]byte{s[i]})
			i++
		default:
			out += "x"
			i++
		}
	}
	return out
}

// zzInnerKinds scans the inside of a literal as a JSON/jsonpath-like language: S for a
// double-quoted string (backslash escapes), structural bytes as themselves, runs of
// other characters as w.
func zzInnerKinds(s string) string {
	out := ""
	i := 0
	for i < len(s) {
		switch zzCls(s[i]) {
		case zzQ2:
			j := i + 1
			for j < len(s) && zzCls(s[j]) != zzQ2 {
				if zzCls(s[j]) == zzBS {
					j++
				}
				j++
			}
			if j >= len(s) {
				return out + "S<unterminated>"
			}
			out += "S"
			i = j + 1
		case zzST, zzPH:
			out += string([]byte{s[i]})
			i++
		case zzWS:
			i++
		default:
			for i < len(s) {
				k := zzCls(s[i])
				if k == zzQ2 || k == zzST || k == zzPH || k == zzWS {
					break
				}
				i++
			}
			out += "w"
		}
	}
	return out
}

// zzPlaceholders counts the '?' bytes of a clause wherever they stand.
func zzPlaceholders(s string) int {
	n := 0
	for i := 0; i < len(s); i++ {
		if zzCls(s[i]) == zzPH {
			n++
		}
	}
	return n
}

// zzBenign replaces every byte that is not ':' by 'a' (same segment shape).
func zzBenign(s string) string {
	b := make([]byte, len(s))
	for i := 0; i < len(s); i++ {
		if s[i] == ':' {
			b[i] = ':'
		} else {
			b[i] = 'a'
		}
	}
	return string(b)
}

// ZZ_C20: filter values are data, never SQL. The clause built for an arbitrary client
// string has the token structure of the clause built for a harmless string of the same
// shape, or the request is rejected.
func ZZ_C20(shape int) {
	c := zzC20Cases[shape]
	store := &Store{name: "l"}
	text := verifhook.String("v", c.Len)
	clause, _, err := zzBuildClause(store, c, text)
	if err != nil {
		verifhook.Reach("rejected")
		return
	}
	verifhook.Reach("built")
	ref, _, err2 := zzBuildClause(store, c, zzBenign(text))
	if err2 != nil {
		// the harmless twin is rejected but the arbitrary one was accepted: compare with nothing
		verifhook.Reach("twin-rejected")
		return
	}
	verifhook.Assert(zzSQLKinds(clause) == zzSQLKinds(ref), "C20 client text changes the structure of the SQL clause")
	// bun substitutes a bound argument for every '?' of the clause text, quoted or not
	verifhook.Assert(zzPlaceholders(clause) == zzPlaceholders(ref), "C20 client text adds a placeholder that bun substitutes with another clause's argument")
	verifhook.Canary()
}
