package command

import (
	"bytes"
	"encoding/json"
	"math/big"
	"time"

	ledger "github.com/formancehq/ledger/internal"
	"github.com/formancehq/stack/libs/go-libs/metadata"
	"github.com/formancehq/stack/libs/go-libs/verifhook"
)

var zzT0 = ledger.Time{Time: time.Date(2022, 5, 4, 10, 11, 12, 123456000, time.UTC)}

// zzPreload gives the store a summary tail: one chained log with arbitrary id L and
// one committed transaction with arbitrary id N (world -> seed, 10 USD/2). That is all
// Commander.Init reads, so one step from this state stands for a history of any length.
func zzPreload(st *zzStore) (L, N *big.Int) {
	N = verifhook.BigInt("N")
	verifhook.Assume(N.Sign() >= 0)
	verifhook.Assume(N.Cmp(new(big.Int).Lsh(big.NewInt(1), 62)) < 0)
	return zzPreloadWith(st, N)
}

// zzPreloadWith uses the given last transaction id (symbolic or concrete).
func zzPreloadWith(st *zzStore, N *big.Int) (*big.Int, *big.Int) {
	L := verifhook.BigInt("L")
	verifhook.Assume(L.Sign() >= 0)
	tx := &ledger.Transaction{ID: N}
	tx.Postings = ledger.Postings{{Source: "world", Destination: "seed", Asset: "USD/2", Amount: big.NewInt(10)}}
	tx.Metadata = metadata.Metadata{}
	tx.Timestamp = zzT0
	log := &ledger.ChainedLog{
		Log:  *ledger.NewTransactionLogWithDate(tx, map[string]metadata.Metadata{}, zzT0),
		ID:   L,
		Hash: zzHash0(),
	}
	st.InMemoryStore.PreloadLog(log)
	st.InMemoryStore.PreloadTransaction(&ledger.ExpandedTransaction{Transaction: *tx})
	return L, N
}

func zzHash0() []byte {
	h := make([]byte, 32)
	for i := range h {
		h[i] = 7
	}
	return h
}

const zzSendScript = "vars {\nmonetary $m\n}\nsend $m (\n  source = @a\n  destination = @b\n)\n"

// write kinds
const (
	zzKCreateScript = iota
	zzKCreatePostings
	zzKRevert
	zzKSetAccountMeta
	zzKSetTxMeta
	zzKDeleteAccountMeta
	zzKDeleteTxMeta
	zzKinds
)

var zzKindNames = []string{"create(script)", "create(postings)", "revert", "set account metadata", "set transaction metadata", "delete account metadata", "delete transaction metadata"}

func ZZ_NumKinds() int { return zzKinds }

type zzResp struct {
	tx  *ledger.Transaction
	err error
}

// zzWrite performs one write of the given kind. amt is the (symbolic) amount used by
// the creating kinds; target is the transaction id used by revert / tx metadata.
// zzMeta is the metadata a write carries: one entry, or (w.metaVariant) nil / empty / two entries.
func zzMeta(w *zzWorld, key, tag string) metadata.Metadata {
	switch w.metaVariant {
	case 1:
		return nil
	case 2:
		return metadata.Metadata{}
	case 3:
		return metadata.Metadata{key: tag, "other": ""}
	}
	return metadata.Metadata{key: tag}
}

func zzWrite(w *zzWorld, kind int, p Parameters, amt *big.Int, target *big.Int, tag string) zzResp {
	switch kind {
	case zzKCreateScript:
		rs := zzScript(zzSendScript, map[string]string{"m": "USD/2 " + amt.String()})
		rs.Metadata = zzMeta(w, "tag", tag)
		rs.Timestamp = w.stamp
		tx, err := w.commander.CreateTransaction(w.ctx, p, rs)
		return zzResp{tx, err}
	case zzKCreatePostings:
		td := ledger.TransactionData{Postings: ledger.Postings{{Source: "a", Destination: "c", Asset: "USD/2", Amount: amt}}, Metadata: zzMeta(w, "tag", tag), Timestamp: w.stamp}
		tx, err := w.commander.CreateTransaction(w.ctx, p, ledger.TxToScriptData(td, false))
		return zzResp{tx, err}
	case zzKRevert:
		tx, err := w.commander.RevertTransaction(w.ctx, p, target, false)
		return zzResp{tx, err}
	case zzKSetAccountMeta:
		return zzResp{nil, w.commander.SaveMeta(w.ctx, p, ledger.MetaTargetTypeAccount, "a", zzMeta(w, "k", tag))}
	case zzKSetTxMeta:
		return zzResp{nil, w.commander.SaveMeta(w.ctx, p, ledger.MetaTargetTypeTransaction, target, zzMeta(w, "k", tag))}
	case zzKDeleteAccountMeta:
		return zzResp{nil, w.commander.DeleteMetadata(w.ctx, p, ledger.MetaTargetTypeAccount, "a", "k")}
	case zzKDeleteTxMeta:
		return zzResp{nil, w.commander.DeleteMetadata(w.ctx, p, ledger.MetaTargetTypeTransaction, target, "k")}
	}
	panic("zz: kind")
}

func zzSamePostings(a, b ledger.Postings) bool {
	if len(a) != len(b) {
		return false
	}
	ok := true
	for i := range a {
		ok = verifhook.And(ok, a[i].Source == b[i].Source && a[i].Destination == b[i].Destination && a[i].Asset == b[i].Asset)
		ok = verifhook.And(ok, verifhook.Eq(a[i].Amount, b[i].Amount))
	}
	return ok
}

func zzNewWorld() (*zzWorld, *big.Int, *big.Int) {
	st := zzNewStore()
	st.setOpening("a", "USD/2", verifhook.BigInt("bal_a"))
	L, N := zzPreload(st)
	return zzStart(st, NewDefaultLocker()), L, N
}

// ZZ_C14: a dry run changes nothing. World A: preview(w), real(w), real(r). World B:
// real(w), real(r). Same arbitrary pre-state (L, N, balance) and amounts.
func ZZ_C14(shape int) {
	if shape >= zzKinds {
		zzC14UsedKey(shape - zzKinds)
		return
	}
	kind := shape
	amt := verifhook.BigInt("amt")
	amt2 := verifhook.BigInt("amt2")
	A, L, N := zzNewWorld()
	B, _, _ := zzNewWorld()

	pv := zzWrite(A, kind, Parameters{DryRun: true}, amt, N, "w")
	verifhook.Reach("previewed")
	verifhook.Assert(len(A.store.Logs()) == 1, "C14 preview writes no log entry")
	verifhook.Assert(len(A.monitor.events) == 0, "C14 preview publishes no event")
	ra := zzWrite(A, kind, Parameters{}, amt, N, "w")
	rb := zzWrite(B, kind, Parameters{}, amt, N, "w")
	verifhook.Assert((ra.err == nil) == (rb.err == nil), "C14 real write after a preview has the same outcome as without the preview")
	verifhook.Assert((pv.err == nil) == (rb.err == nil), "C14 preview answers with the outcome of the real write")
	if ra.err == nil && rb.err == nil && ra.tx != nil && rb.tx != nil {
		verifhook.Reach("real-tx")
		verifhook.Assert(verifhook.Eq(ra.tx.ID, rb.tx.ID), "C14 preview consumed no transaction id")
		verifhook.Assert(verifhook.Eq(rb.tx.ID, new(big.Int).Add(N, big.NewInt(1))), "transaction ids continue at N+1")
		verifhook.Assert(zzSamePostings(ra.tx.Postings, rb.tx.Postings), "C14 same postings with and without preview")
		if pv.err == nil && pv.tx != nil {
			verifhook.Assert(verifhook.Eq(pv.tx.ID, rb.tx.ID), "C14 preview answers the transaction id the real write gets")
			verifhook.Assert(zzSamePostings(pv.tx.Postings, rb.tx.Postings), "C14 preview answers the postings of the real write")
		}
	}
	// a following real write behaves identically in both worlds
	fa := zzWrite(A, zzKCreateScript, Parameters{}, amt2, N, "r")
	fb := zzWrite(B, zzKCreateScript, Parameters{}, amt2, N, "r")
	verifhook.Assert((fa.err == nil) == (fb.err == nil), "C14 later write has the same outcome")
	if fa.err == nil && fb.err == nil {
		verifhook.Assert(verifhook.Eq(fa.tx.ID, fb.tx.ID), "C14 later write gets the same transaction id")
	}
	la, lb := A.store.Logs(), B.store.Logs()
	verifhook.Assert(len(la) == len(lb), "C14 same number of log entries")
	if len(la) == len(lb) {
		for i := range la {
			verifhook.Assert(verifhook.Eq(la[i].ID, lb[i].ID), "C14 same log ids")
			verifhook.Assert(la[i].Type == lb[i].Type, "C14 same log types")
		}
	}
	verifhook.Assert(len(A.monitor.events) == len(B.monitor.events), "C14 same published events")
	_ = L
	verifhook.Canary()
}

// zzC14UsedKey: the preview of a request whose idempotency key was already used answers
// what the real retry answers (the stored outcome), and changes nothing. World A: real
// w(K), preview w(K), real r. World B: real w(K), real w(K) again, real r.
func zzC14UsedKey(kind int) {
	amt := verifhook.BigInt("amt")
	amt2 := verifhook.BigInt("amt2")
	A, _, N := zzNewWorld()
	B, _, _ := zzNewWorld()
	key := Parameters{IdempotencyKey: "k14"}
	ra := zzWrite(A, kind, key, amt, N, "w")
	rb := zzWrite(B, kind, key, amt, N, "w")
	verifhook.Assert((ra.err == nil) == (rb.err == nil), "the two worlds start alike")
	if ra.err != nil || rb.err != nil {
		verifhook.Reach("first-refused")
		return
	}
	nLogs, nEvents := len(A.store.Logs()), len(A.monitor.events)
	pv := zzWrite(A, kind, Parameters{IdempotencyKey: "k14", DryRun: true}, amt, N, "w")
	rr := zzWrite(B, kind, key, amt, N, "w")
	verifhook.Reach("previewed-used-key")
	verifhook.Assert(len(A.store.Logs()) == nLogs, "C14 preview writes no log entry")
	verifhook.Assert(len(A.monitor.events) == nEvents, "C14 preview publishes no event")
	verifhook.Assert((pv.err == nil) == (rr.err == nil), "C14 preview of an already used key answers with another outcome than the real retry")
	if pv.err == nil && rr.err == nil && pv.tx != nil && rr.tx != nil {
		verifhook.Reach("replayed-tx")
		verifhook.Assert(verifhook.Eq(pv.tx.ID, rr.tx.ID), "C14 preview of an already used key answers another transaction than the real retry")
		verifhook.Assert(zzSamePostings(pv.tx.Postings, rr.tx.Postings), "C14 preview of an already used key answers other postings than the real retry")
	}
	fa := zzWrite(A, zzKCreateScript, Parameters{}, amt2, N, "r")
	fb := zzWrite(B, zzKCreateScript, Parameters{}, amt2, N, "r")
	verifhook.Assert((fa.err == nil) == (fb.err == nil), "C14 later write has the same outcome")
	if fa.err == nil && fb.err == nil {
		verifhook.Assert(verifhook.Eq(fa.tx.ID, fb.tx.ID), "C14 later write gets the same transaction id")
	}
	verifhook.Assert(len(A.store.Logs()) == len(B.store.Logs()), "C14 same number of log entries")
	verifhook.Canary()
}

// zzLogOfTx finds the persisted log that carries transaction id.
func zzLogOfTx(st *zzStore, id *big.Int) (*ledger.ChainedLog, *ledger.Transaction, *big.Int) {
	for _, l := range st.Logs() {
		switch p := l.Data.(type) {
		case ledger.NewTransactionLogPayload:
			if verifhook.Eq(p.Transaction.ID, id) {
				return l, p.Transaction, nil
			}
		case ledger.RevertedTransactionLogPayload:
			if verifhook.Eq(p.RevertTransaction.ID, id) {
				return l, p.RevertTransaction, p.RevertedTransactionID
			}
		}
	}
	return nil, nil, nil
}

// ZZ_C16: published events describe committed changes faithfully.
// shape = kind*3 + mode; mode 0 real, 1 preview, 2 real twice through one idempotency key.
func ZZ_C16(shape int) {
	kind, mode := shape/3, shape%3
	target := 0
	if shape >= 3*zzKinds {
		// the same write aimed at a transaction that does not exist (refused), with and
		// without an idempotency key
		kind, mode, target = []int{zzKRevert, zzKSetTxMeta, zzKDeleteTxMeta}[(shape-3*zzKinds)/2], 2*((shape-3*zzKinds)%2), 7
	}
	amt := verifhook.BigInt("amt")
	st := zzNewStore()
	st.setOpening("a", "USD/2", verifhook.BigInt("bal_a"))
	_, N := zzPreload(st)
	if target != 0 {
		N = new(big.Int).Add(N, big.NewInt(int64(target)))
	}
	w := zzStartBus(st, NewDefaultLocker())
	p := Parameters{}
	switch mode {
	case 1:
		p.DryRun = true
	case 2:
		p.IdempotencyKey = "ik-1"
	}
	r := zzWrite(w, kind, p, amt, N, "w")
	if target != 0 {
		verifhook.Reach("aimed-at-nothing")
		verifhook.Assert(r.err != nil, "C16 a write on a transaction that does not exist is accepted")
	}
	if mode == 2 {
		zzWrite(w, kind, p, amt, N, "w")
	}
	verifhook.Reach("written")
	logs := w.store.Logs()[1:] // after the preloaded tail
	evs := w.monitor.events
	if mode == 1 {
		verifhook.Assert(len(evs) == 0, "C16 a preview publishes nothing")
		verifhook.Assert(len(logs) == 0, "C16 a preview persists nothing")
		return
	}
	if r.err != nil {
		verifhook.Assert(len(evs) == 0, "C16 a refused write publishes nothing")
		return
	}
	verifhook.Reach("accepted")
	verifhook.Assert(len(logs) >= 1, "C16 an accepted write is persisted")
	verifhook.Assert(len(evs) >= len(logs), "C16 every persisted change is published at least once")
	for _, e := range evs {
		switch e.Kind {
		case "committed":
			l, tx, _ := zzLogOfTx(w.store, e.Tx.ID)
			verifhook.Assert(l != nil, "C16 committed event refers to a persisted transaction")
			if l != nil {
				verifhook.Assert(l.Type == ledger.NewTransactionLogType, "C16 committed event refers to a new-transaction log")
				verifhook.Assert(zzSamePostings(tx.Postings, e.Tx.Postings), "C16 committed event carries the persisted postings")
			}
		case "reverted":
			l, tx, revertedID := zzLogOfTx(w.store, e.Tx.ID)
			verifhook.Assert(l != nil && revertedID != nil, "C16 revert event names as reverting transaction the one the log created")
			if l != nil && revertedID != nil {
				verifhook.Assert(zzSamePostings(tx.Postings, e.Tx.Postings), "C16 revert event carries the reverting postings")
				verifhook.Assert(verifhook.Eq(e.Reverted.ID, revertedID), "C16 revert event names the reverted transaction")
			}
		case "saved":
			l := logs[0]
			pl, ok := l.Data.(ledger.SetMetadataLogPayload)
			verifhook.Assert(ok, "C16 saved-metadata event refers to a set-metadata log")
			if ok {
				verifhook.Assert(pl.TargetType == e.TargetType, "C16 saved-metadata event carries the target type")
				verifhook.Assert(zzIDString(pl.TargetID) == zzIDString(e.TargetID), "C16 saved-metadata event carries the target id")
				verifhook.Assert(pl.Metadata["k"] == e.Metadata["k"], "C16 saved-metadata event carries the metadata")
			}
		case "deleted":
			l := logs[0]
			pl, ok := l.Data.(ledger.DeleteMetadataLogPayload)
			verifhook.Assert(ok, "C16 deleted-metadata event refers to a delete-metadata log")
			if ok {
				verifhook.Assert(pl.TargetType == e.TargetType && pl.Key == e.Key, "C16 deleted-metadata event carries target type and key")
				verifhook.Assert(zzIDString(pl.TargetID) == zzIDString(e.TargetID), "C16 deleted-metadata event carries the target id")
			}
		}
	}
	verifhook.Canary()
}

func zzIDString(v any) string {
	switch x := v.(type) {
	case string:
		return x
	case *big.Int:
		return x.String()
	case uint64:
		return new(big.Int).SetUint64(x).String()
	}
	return "?"
}

// ZZ_C13: every log entry the write path emits can be read back and re-verified.
var zzC13BigIDs = []string{"", "9007199254740993", "1234567890123456789", "4611686018427387905"}

var zzMetaVariantNames = []string{"one entry", "nil", "empty", "two entries (one empty value)", "one entry, written right after a preview of the same request"}

// timestamps as a client may send them (parsed the way the API decodes them)
var zzC13Stamps = []string{
	"2023-06-01T12:00:00.123456789+05:30",
	"9999-12-31T23:30:00-01:00",
	"0000-01-01T00:30:00+01:00",
	"9999-12-31T23:59:59.9999995Z",
	"0001-01-01T00:00:00Z",
	"1969-12-31T23:59:59.999999499Z",
}

func ZZ_C13N() int { return zzKinds*(len(zzC13BigIDs)+4) + 2*len(zzC13Stamps) }

func ZZ_C13Desc(i int) string {
	if k := i - zzKinds*(len(zzC13BigIDs)+4); k >= 0 {
		return "write kind: " + zzKindNames[k%2] + ", client timestamp " + zzC13Stamps[k/2]
	}
	if v := i/zzKinds - len(zzC13BigIDs); v >= 0 {
		return "write kind: " + zzKindNames[i%zzKinds] + ", last transaction id symbolic (< 2^62), metadata " + zzMetaVariantNames[v+1]
	}
	id := zzC13BigIDs[i/zzKinds]
	if id == "" {
		id = "symbolic (< 2^62)"
	}
	return "write kind: " + zzKindNames[i%zzKinds] + ", last transaction id " + id
}

func ZZ_C13(shape int) {
	stamp := ""
	if k := shape - zzKinds*(len(zzC13BigIDs)+4); k >= 0 {
		stamp, shape = zzC13Stamps[k/2], k%2 // create(script) / create(postings)
	}
	kind := shape % zzKinds
	amt := verifhook.BigInt("amt")
	var w *zzWorld
	var N *big.Int
	variant := 0
	if v := shape/zzKinds - len(zzC13BigIDs); v >= 0 {
		variant = v + 1
		shape = kind
	}
	if v := zzC13BigIDs[shape/zzKinds]; v == "" {
		w, _, N = zzNewWorld()
	} else {
		N, _ = new(big.Int).SetString(v, 10)
		st := zzNewStore()
		st.setOpening("a", "USD/2", verifhook.BigInt("bal_a"))
		zzPreloadWith(st, N)
		w = zzStart(st, NewDefaultLocker())
	}
	if stamp != "" {
		ts, err := ledger.ParseTime(stamp)
		if err != nil {
			verifhook.Reach("timestamp-refused")
			return
		}
		w.stamp = ts
	}
	w.metaVariant = variant
	if variant == 4 {
		w.metaVariant = 0
		zzWrite(w, kind, Parameters{DryRun: true}, amt, N, "w")
	}
	p := Parameters{}
	if kind%2 == 1 {
		p.IdempotencyKey = "key-13"
	}
	r := zzWrite(w, kind, p, amt, N, "w")
	if r.err != nil {
		verifhook.Reach("refused")
		return
	}
	verifhook.Reach("written")
	logs := w.store.Logs()
	for i := 1; i < len(logs); i++ {
		l := logs[i]
		verifhook.Assert(ledger.LogTypeFromString(l.Type.String()) == l.Type, "C13 log type name round-trips")
		raw, err := json.Marshal(l)
		verifhook.Assert(err == nil, "C13 log entry encodes")
		var back ledger.ChainedLog
		err = json.Unmarshal(raw, &back)
		verifhook.Assert(err == nil, "C13 stored log entry decodes")
		if err != nil {
			continue
		}
		verifhook.Reach("decoded")
		verifhook.Assert(back.Type == l.Type, "C13 type survives")
		verifhook.Assert(verifhook.Eq(back.ID, l.ID), "C13 id survives")
		verifhook.Assert(back.IdempotencyKey == l.IdempotencyKey, "C13 idempotency key survives")
		verifhook.Assert(back.Date.Equal(l.Date), "C13 date survives")
		verifhook.Assert(bytes.Equal(back.Hash, l.Hash), "C13 hash survives")
		raw2, err := json.Marshal(&back)
		verifhook.Assert(err == nil, "C13 decoded log entry encodes again")
		verifhook.Assert(verifhook.StrEq(string(raw), string(raw2)), "C13 decoded entry has the same stored form")
		// recompute the hash from the round-tripped content and the previous hash
		again := back
		again.ID = big.NewInt(0)
		again.Hash = nil
		again.ComputeHash(logs[i-1])
		verifhook.Assert(bytes.Equal(again.Hash, l.Hash), "C13 hash recomputed from the round-tripped entry equals the stored hash")
	}
	verifhook.Canary()
}
