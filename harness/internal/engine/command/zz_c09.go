package command

import (
	"fmt"
	"math/big"

	ledger "github.com/formancehq/ledger/internal"
	"github.com/formancehq/ledger/internal/machine"
	"github.com/formancehq/stack/libs/go-libs/metadata"
	"github.com/formancehq/stack/libs/go-libs/verifhook"
)

type zzPat struct{ Src, Dst, Asset string }

var zzC09Patterns = zzBuildC09()

func zzBuildC09() [][]zzPat {
	accs := []string{"world", "a", "b", "c"}
	assets := []string{"USD/2", "EUR"}
	var out [][]zzPat
	// one posting: every combination
	for _, s := range accs {
		for _, d := range accs {
			for _, as := range assets {
				out = append(out, []zzPat{{s, d, as}})
			}
		}
	}
	// two postings: first over USD/2, second over both assets
	for _, s1 := range accs {
		for _, d1 := range accs {
			for _, s2 := range accs {
				for _, d2 := range accs {
					for _, as := range assets {
						out = append(out, []zzPat{{s1, d1, "USD/2"}, {s2, d2, as}})
					}
				}
			}
		}
	}
	// three postings: chains, repeats and fan-in/fan-out
	three := [][]zzPat{
		{{"world", "a", "USD/2"}, {"a", "b", "USD/2"}, {"b", "c", "USD/2"}},
		{{"a", "b", "USD/2"}, {"b", "c", "USD/2"}, {"c", "a", "USD/2"}},
		{{"a", "b", "USD/2"}, {"a", "b", "USD/2"}, {"a", "b", "USD/2"}},
		{{"a", "b", "USD/2"}, {"a", "c", "USD/2"}, {"a", "world", "USD/2"}},
		{{"a", "c", "USD/2"}, {"b", "c", "USD/2"}, {"c", "world", "USD/2"}},
		{{"a", "b", "USD/2"}, {"a", "b", "EUR"}, {"b", "a", "USD/2"}},
		{{"world", "a", "EUR"}, {"a", "a", "EUR"}, {"a", "world", "EUR"}},
		{{"c", "b", "USD/2"}, {"b", "a", "USD/2"}, {"a", "b", "USD/2"}},
	}
	out = append(out, three...)
	// asset names where one is the other followed by digits (amount digits could be
	// mistaken for asset digits by a careless encoding)
	confusable := [][]zzPat{
		{{"world", "a", "EUR2"}, {"world", "a", "EUR"}},
		{{"world", "a", "EUR"}, {"world", "b", "EUR2"}},
		{{"a", "b", "USD/2"}, {"a", "b", "USD/25"}},
		{{"world", "a", "COIN/1"}, {"world", "a", "COIN/18"}, {"a", "b", "COIN/1"}},
	}
	out = append(out, confusable...)
	// assets the grammar does not allow, submitted on the path that does not validate
	// postings up front (v2): refused as a whole, never rewritten into another asset
	out = append(out, [][]zzPat{
		{{"world", "a", "usd/2"}},
		{{"world", "a", "usd/2"}, {"world", "a", "USD/2"}},
		{{"world", "a", "Eur"}, {"a", "b", "EUR"}},
	}...)
	return out
}

func zzOddAsset(pat []zzPat) bool {
	for _, p := range pat {
		if !ledger.AssetIsValid(p.Asset) {
			return true
		}
	}
	return false
}

func zzAssetsOf(pat []zzPat) []string {
	var out []string
	seen := map[string]bool{}
	for _, p := range pat {
		if !seen[p.Asset] {
			seen[p.Asset] = true
			out = append(out, p.Asset)
		}
	}
	return out
}

func ZZ_C09N() int { return len(zzC09Patterns) }

func ZZ_C09Desc(i int) string { return fmt.Sprint(zzC09Patterns[i]) }

// ZZ_C09: posting-mode transactions commit exactly the requested postings.
func ZZ_C09(shape int) {
	pat := zzC09Patterns[shape]
	st := zzNewStore()
	run := map[string]*big.Int{} // running balances keyed account|asset
	for _, a := range []string{"a", "b", "c"} {
		for _, as := range zzAssetsOf(pat) {
			used := false
			for _, p := range pat {
				if p.Asset == as && (p.Src == a || p.Dst == a) {
					used = true
				}
			}
			if used {
				b := verifhook.BigInt("bal_" + a + "_" + as)
				st.setOpening(a, as, b)
				run[a+"|"+as] = b
			}
		}
	}
	_, N := zzPreload(st)
	w := zzStart(st, NewDefaultLocker())
	postings := make(ledger.Postings, len(pat))
	amts := make([]*big.Int, len(pat))
	for i, p := range pat {
		amts[i] = verifhook.BigInt(fmt.Sprintf("amt%d", i))
		postings[i] = ledger.Posting{Source: p.Src, Destination: p.Dst, Asset: p.Asset, Amount: amts[i]}
	}
	odd := zzOddAsset(pat)
	// what the v1 API layer validates up front (v2 hands the postings to the engine as they are)
	if _, err := postings.Validate(); err != nil && !odd {
		verifhook.Reach("validation-refused")
		neg := false
		for _, a := range amts {
			neg = verifhook.Or(neg, verifhook.Lt(a, big.NewInt(0)))
		}
		verifhook.Assert(neg, "C09 postings refused by validation although every amount is non-negative")
		return
	}
	td := ledger.TransactionData{Postings: postings, Metadata: metadata.Metadata{"purpose": "c09"}, Reference: "ref-c09", Timestamp: zzT0}
	in := make(ledger.Postings, len(postings))
	copy(in, postings)
	tx, err := w.commander.CreateTransaction(w.ctx, Parameters{}, ledger.TxToScriptData(td, false))
	// reference reading: walking the postings in order never needs more than a source holds
	coverable := true
	for i, p := range pat {
		if p.Src != "world" {
			coverable = verifhook.And(coverable, verifhook.Le(amts[i], verifhook.Max(big.NewInt(0), run[p.Src+"|"+p.Asset])))
			run[p.Src+"|"+p.Asset] = new(big.Int).Sub(run[p.Src+"|"+p.Asset], amts[i])
		}
		if p.Dst != "world" {
			run[p.Dst+"|"+p.Asset] = new(big.Int).Add(run[p.Dst+"|"+p.Asset], amts[i])
		}
	}
	if odd {
		verifhook.Reach("odd-asset")
		verifhook.Assert(err != nil, "C09 a posting in an asset the language does not allow is committed (under another asset or as it is)")
		verifhook.Assert(len(st.Logs()) == 1 && len(st.Transactions()) == 1, "C09 rejected request leaves nothing behind")
		return
	}
	if err != nil {
		verifhook.Reach("rejected")
		verifhook.Assert(verifhook.Not(coverable), "C09 request rejected although every posting is covered in order")
		verifhook.Assert(machine.IsInsufficientFundError(err), "C09 rejection of an uncovered request is an insufficient-funds error")
		verifhook.Assert(len(st.Logs()) == 1 && len(st.Transactions()) == 1, "C09 rejected request leaves nothing behind")
		return
	}
	verifhook.Reach("committed")
	verifhook.Assert(coverable, "C09 request committed although a posting is not covered")
	verifhook.Assert(len(tx.Postings) == len(in), "C09 committed transaction has as many postings as requested")
	if len(tx.Postings) == len(in) {
		for i := range in {
			verifhook.Assert(tx.Postings[i].Source == in[i].Source && tx.Postings[i].Destination == in[i].Destination && tx.Postings[i].Asset == in[i].Asset, "C09 posting ends and asset as requested, in order")
			verifhook.Assert(verifhook.Eq(tx.Postings[i].Amount, in[i].Amount), "C09 posting amount as requested")
		}
	}
	verifhook.Assert(tx.Metadata["purpose"] == "c09" && len(tx.Metadata) == 1, "C09 supplied metadata committed")
	verifhook.Assert(tx.Reference == "ref-c09", "C09 supplied reference committed")
	verifhook.Assert(tx.Timestamp.Equal(zzT0), "C09 supplied timestamp committed")
	verifhook.Assert(verifhook.Eq(tx.ID, new(big.Int).Add(N, big.NewInt(1))), "C09 next transaction id")
	logs := st.Logs()
	verifhook.Assert(len(logs) == 2, "C09 exactly one log entry persisted")
	if len(logs) == 2 {
		pl, ok := logs[1].Data.(ledger.NewTransactionLogPayload)
		verifhook.Assert(ok, "C09 persisted entry is a new-transaction log")
		if ok {
			verifhook.Assert(zzSamePostings(pl.Transaction.Postings, in), "C09 persisted log carries exactly the requested postings")
		}
	}
	verifhook.Canary()
}

// revert shapes: original pattern x force x intermediate spend
type zzRevShape struct {
	Pat   []zzPat
	Force bool
	Spend bool // move the delivered funds on before reverting
}

var zzC10Shapes = zzBuildC10()

func zzBuildC10() []zzRevShape {
	pats := [][]zzPat{
		{{"world", "a", "USD/2"}},
		{{"a", "b", "USD/2"}},
		{{"a", "a", "USD/2"}},
		{{"a", "world", "USD/2"}},
		{{"world", "a", "USD/2"}, {"a", "b", "USD/2"}},
		{{"a", "b", "USD/2"}, {"a", "c", "USD/2"}},
		{{"a", "b", "USD/2"}, {"b", "c", "EUR"}},
		{{"a", "b", "USD/2"}, {"b", "c", "USD/2"}, {"c", "a", "USD/2"}},
		{{"world", "a", "USD/2"}, {"world", "b", "USD/2"}, {"world", "a", "USD/2"}},
		{{"world", "a", "USD/2"}, {"a", "b", "USD/2"}, {"b", "c", "USD/2"}, {"c", "world", "USD/2"}},
		{{"world", "a", "USD/2"}, {"a", "b", "USD/2"}, {"b", "c", "USD/2"}, {"c", "a", "USD/2"}, {"a", "world", "USD/2"}},
	}
	var out []zzRevShape
	for _, p := range pats {
		for _, f := range []bool{false, true} {
			for _, s := range []bool{false, true} {
				out = append(out, zzRevShape{p, f, s})
			}
		}
	}
	return out
}

func ZZ_C10N() int { return len(zzC10Shapes) }

func ZZ_C10Desc(i int) string { return fmt.Sprintf("%+v", zzC10Shapes[i]) }

// ZZ_C10: revert is an exact, once-only inverse.
func ZZ_C10(shape int) {
	sh := zzC10Shapes[shape]
	st := zzNewStore()
	type key struct{ acc, asset string }
	opening := map[key]*big.Int{}
	var keys []key
	for _, a := range []string{"a", "b", "c"} {
		for _, as := range []string{"USD/2", "EUR"} {
			used := false
			for _, p := range sh.Pat {
				if p.Asset == as && (p.Src == a || p.Dst == a) {
					used = true
				}
			}
			if used {
				b := verifhook.BigInt("bal_" + a + "_" + as)
				verifhook.Assume(b.Sign() >= 0)
				st.setOpening(a, as, b)
				opening[key{a, as}] = b
				keys = append(keys, key{a, as})
			}
		}
	}
	zzPreload(st)
	w := zzStart(st, NewDefaultLocker())
	postings := make(ledger.Postings, len(sh.Pat))
	for i, p := range sh.Pat {
		a := verifhook.BigInt(fmt.Sprintf("amt%d", i))
		verifhook.Assume(a.Sign() >= 0)
		postings[i] = ledger.Posting{Source: p.Src, Destination: p.Dst, Asset: p.Asset, Amount: a}
	}
	orig, err := w.commander.CreateTransaction(w.ctx, Parameters{}, ledger.TxToScriptData(ledger.TransactionData{Postings: postings, Metadata: metadata.Metadata{}}, false))
	if err != nil {
		verifhook.Reach("original-refused")
		return
	}
	verifhook.Reach("original-committed")
	origPostings := make(ledger.Postings, len(orig.Postings))
	copy(origPostings, orig.Postings)
	if sh.Spend {
		// someone moves what the last posting delivered
		last := sh.Pat[len(sh.Pat)-1]
		if last.Dst != "world" {
			spend := verifhook.BigInt("spend")
			verifhook.Assume(spend.Sign() > 0)
			_, err := w.commander.CreateTransaction(w.ctx, Parameters{}, ledger.TxToScriptData(ledger.TransactionData{
				Postings: ledger.Postings{{Source: last.Dst, Destination: "sink", Asset: last.Asset, Amount: spend}}, Metadata: metadata.Metadata{}}, false))
			if err != nil {
				verifhook.Reach("spend-refused")
				return
			}
			verifhook.Reach("spent")
		}
	}
	before := map[key]*big.Int{}
	for _, k := range keys {
		before[k], _ = st.GetBalance(w.ctx, k.acc, k.asset)
	}
	nLogs := len(st.Logs())
	rev, err := w.commander.RevertTransaction(w.ctx, Parameters{}, orig.ID, sh.Force)
	if err != nil {
		verifhook.Reach("revert-refused")
		verifhook.Assert(!sh.Force, "C10 forced revert is refused")
		verifhook.Assert(machine.IsInsufficientFundError(err), "C10 unforced revert refused for another reason than insufficient funds")
		verifhook.Assert(len(st.Logs()) == nLogs, "C10 refused revert changes nothing")
		t, _ := st.GetTransaction(w.ctx, orig.ID)
		verifhook.Assert(t != nil && !t.Reverted, "C10 refused revert leaves the original unmarked")
		return
	}
	verifhook.Reach("reverted")
	n := len(origPostings)
	verifhook.Assert(len(rev.Postings) == n, "C10 revert has as many postings as the original")
	if len(rev.Postings) == n {
		for i := 0; i < n; i++ {
			o := origPostings[n-1-i]
			r := rev.Postings[i]
			verifhook.Assert(r.Source == o.Destination && r.Destination == o.Source && r.Asset == o.Asset, "C10 revert postings are the original's reversed with ends swapped")
			verifhook.Assert(verifhook.Eq(r.Amount, o.Amount), "C10 revert amounts equal the original's")
		}
	}
	t, _ := st.GetTransaction(w.ctx, orig.ID)
	verifhook.Assert(t != nil && t.Reverted, "C10 original is marked reverted")
	verifhook.Assert(len(st.Logs()) == nLogs+1, "C10 exactly one log entry appended")
	for _, k := range keys {
		after, _ := st.GetBalance(w.ctx, k.acc, k.asset)
		if !sh.Spend {
			verifhook.Assert(verifhook.Eq(after, opening[k]), "C10 balance of "+k.acc+" back to where it stood before the original")
		}
		if !sh.Force {
			// an unforced revert never drives a balance below zero that was not already there
			verifhook.Assert(verifhook.Or(verifhook.Ge(after, big.NewInt(0)), verifhook.Ge(after, before[k])), "C10 unforced revert overdraws "+k.acc)
		}
	}
	_, err = w.commander.RevertTransaction(w.ctx, Parameters{}, orig.ID, sh.Force)
	verifhook.Assert(err != nil, "C10 second revert of the same transaction is refused")
	verifhook.Assert(len(st.Logs()) == nLogs+1, "C10 second revert appends nothing")
	verifhook.Canary()
}

// ZZ_C10Reverse: TransactionData.Reverse on 0..7 postings with arbitrary amounts is the
// list in reverse order with the ends of every posting swapped; the original is untouched.
func ZZ_C10Reverse(shape int) {
	n := shape
	td := ledger.TransactionData{Postings: make(ledger.Postings, n), Metadata: metadata.Metadata{}}
	for i := 0; i < n; i++ {
		td.Postings[i] = ledger.Posting{Source: fmt.Sprintf("s%d", i), Destination: fmt.Sprintf("d%d", i), Asset: fmt.Sprintf("A%d", i), Amount: verifhook.BigInt(fmt.Sprintf("amt%d", i))}
	}
	rev := td.Reverse()
	verifhook.Reach("reversed")
	verifhook.Assert(len(rev.Postings) == n && len(td.Postings) == n, "C10 reversing changes the number of postings")
	if len(rev.Postings) != n {
		return
	}
	for i := 0; i < n; i++ {
		o := td.Postings[i]
		verifhook.Assert(o.Source == fmt.Sprintf("s%d", i) && o.Destination == fmt.Sprintf("d%d", i), "C10 reversing alters the original transaction")
		r := rev.Postings[n-1-i]
		verifhook.Assert(r.Source == o.Destination && r.Destination == o.Source && r.Asset == o.Asset, "C10 revert postings are the original's reversed with ends swapped")
		verifhook.Assert(verifhook.Eq(r.Amount, o.Amount), "C10 revert amounts equal the original's")
	}
	verifhook.Canary()
}
