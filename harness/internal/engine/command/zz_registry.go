package command

var zzRegistry = map[string]func(int){
	"ZZ_CmdSmoke":   ZZ_CmdSmoke,
	"ZZ_C02":        ZZ_C02,
	"ZZ_C05Fresh":   ZZ_C05Fresh,
	"ZZ_C05":        ZZ_C05,
	"ZZ_C06":        ZZ_C06,
	"ZZ_C07":        ZZ_C07,
	"ZZ_C08Cache":   ZZ_C08Cache,
	"ZZ_C09":        ZZ_C09,
	"ZZ_C11":        ZZ_C11,
	"ZZ_C10Reverse": ZZ_C10Reverse,
	"ZZ_C10":        ZZ_C10,
	"ZZ_C10Race":    ZZ_C10Race,
	"ZZ_C13":        ZZ_C13,
	"ZZ_C14":        ZZ_C14,
	"ZZ_C15Stage":   ZZ_C15Stage,
	"ZZ_C15":        ZZ_C15,
	"ZZ_C16Conc":    ZZ_C16Conc,
	"ZZ_C16":        ZZ_C16,
}
