package command

import (
	"bytes"
	"context"
	"fmt"
	"math/big"
	"strings"

	ledger "github.com/formancehq/ledger/internal"
	"github.com/formancehq/stack/libs/go-libs/metadata"
	"github.com/formancehq/stack/libs/go-libs/verifhook"
)

// zzRecLocker records the account sets handed to the real locker.
type zzRecLocker struct {
	inner Locker
	seen  []Accounts
}

func (l *zzRecLocker) Lock(ctx context.Context, accounts Accounts) (Unlock, error) {
	l.seen = append(l.seen, accounts)
	return l.inner.Lock(ctx, accounts)
}

type zzOp struct {
	Kind   int
	Amt    *big.Int
	IK     string
	Ref    string
	Src    string // "", "var", "meta": how the script names its source
	Target *big.Int
	Tag    string
	Force  bool
	DryRun bool
	Cancel bool // the request's context is cancelled by a separate thread at an arbitrary moment
	ctx    context.Context
}

type zzOpRes struct {
	returned    bool
	tx          *ledger.Transaction
	err         error
	ownLogAtAck bool // at the instant of the acknowledgement a persisted log carries the tag / id
	logsAtAck   int
}

const zzSendVarScript = "vars {\naccount $s\nmonetary $m\n}\nsend $m (\n  source = $s\n  destination = @b\n)\n"
const zzSendMetaScript = "vars {\naccount $s = meta(@cfg, \"src\")\nmonetary $m\n}\nsend $m (\n  source = $s\n  destination = @b\n)\n"

func zzDo(w *zzWorld, op zzOp) (*ledger.Transaction, error) {
	p := Parameters{IdempotencyKey: op.IK, DryRun: op.DryRun}
	if op.ctx != nil {
		w = &zzWorld{store: w.store, monitor: w.monitor, commander: w.commander, ctx: op.ctx}
	}
	switch op.Kind {
	case zzKCreateScript:
		var rs ledger.RunScript
		switch op.Src {
		case "world":
			rs = zzScript("vars {\nmonetary $m\n}\nsend $m (\n  source = @world\n  destination = @c\n)\n", map[string]string{"m": "USD/2 " + op.Amt.String()})
		case "var":
			rs = zzScript(zzSendVarScript, map[string]string{"s": "a", "m": "USD/2 " + op.Amt.String()})
		case "meta":
			rs = zzScript(zzSendMetaScript, map[string]string{"m": "USD/2 " + op.Amt.String()})
		case "all":
			rs = zzScript("send [USD/2 *] (\n  source = @a\n  destination = @b\n)\n", map[string]string{})
		case "allvar":
			rs = zzScript("vars {\naccount $s\n}\nsend [USD/2 *] (\n  source = {\n    $s\n    @d\n  }\n  destination = @b\n)\n", map[string]string{"s": "a"})
		default:
			rs = zzScript(zzSendScript, map[string]string{"m": "USD/2 " + op.Amt.String()})
		}
		rs.Metadata = metadata.Metadata{"tag": op.Tag}
		rs.Reference = op.Ref
		return w.commander.CreateTransaction(w.ctx, p, rs)
	case zzKRevert:
		return w.commander.RevertTransaction(w.ctx, p, op.Target, op.Force)
	case zzKSetAccountMeta:
		return nil, w.commander.SaveMeta(w.ctx, p, ledger.MetaTargetTypeAccount, "a", metadata.Metadata{"tag": op.Tag})
	case zzKSetTxMeta:
		return nil, w.commander.SaveMeta(w.ctx, p, ledger.MetaTargetTypeTransaction, op.Target, metadata.Metadata{"tag": op.Tag})
	case zzKDeleteAccountMeta:
		return nil, w.commander.DeleteMetadata(w.ctx, p, ledger.MetaTargetTypeAccount, "a", op.Tag)
	}
	panic("zz: op kind")
}

func zzPosAmt(name string) *big.Int {
	a := verifhook.BigInt(name)
	verifhook.Assume(a.Sign() > 0)
	return a
}

// zzLogTag extracts the marker a request put into its log.
func zzLogTag(l *ledger.ChainedLog) string {
	switch p := l.Data.(type) {
	case ledger.NewTransactionLogPayload:
		return p.Transaction.Metadata["tag"]
	case ledger.SetMetadataLogPayload:
		return p.Metadata["tag"]
	case ledger.DeleteMetadataLogPayload:
		return p.Key
	case ledger.RevertedTransactionLogPayload:
		return "revert"
	}
	return ""
}

func zzCountTag(st *zzStore, tag string) int {
	n := 0
	for _, l := range st.Logs() { // the preloaded tail (if any) carries no tag
		if zzLogTag(l) == tag {
			n++
		}
	}
	return n
}

// zzRunClients issues every op from its own client thread and waits for quiescence.
func zzRunClients(w *zzWorld, ops []zzOp, gen string) []zzOpRes {
	res := make([]zzOpRes, len(ops))
	for i := range ops {
		i := i
		if ops[i].Kind == zzKRevert && ops[i].Tag != "same" {
			ops[i].Tag = "revert" // the marker a revert leaves in its log
		}
		if ops[i].Cancel {
			var cancel context.CancelFunc
			ops[i].ctx, cancel = context.WithCancel(w.ctx)
			verifhook.Go(fmt.Sprintf("x%d%s", i, gen), func() { cancel() })
		}
		verifhook.Go(fmt.Sprintf("c%d%s", i, gen), func() {
			tx, err := zzDo(w, ops[i])
			// the acknowledgement: nothing below contains a scheduling point
			res[i].tx, res[i].err, res[i].returned = tx, err, true
			res[i].logsAtAck = len(w.store.Logs())
			if err == nil {
				res[i].ownLogAtAck = zzCountTag(w.store, ops[i].Tag) >= 1
				if ops[i].Tag != "same" && !ops[i].DryRun {
					verifhook.Assert(res[i].ownLogAtAck, "C06 a write is acknowledged although its log entry is not persisted")
				}
			}
		})
	}
	verifhook.Quiesce()
	return res
}

func zzConcWorld(withMeta bool) (*zzWorld, *zzRecLocker, *big.Int, *big.Int, *big.Int) {
	st := zzNewStore()
	bal := verifhook.BigInt("bal_a")
	st.setOpening("a", "USD/2", bal)
	if withMeta {
		st.InMemoryStore.SetAccounts([]*ledger.Account{{Address: "cfg", Metadata: metadata.Metadata{"src": "a"}}})
	}
	L, N := zzPreload(st)
	rl := &zzRecLocker{inner: NewDefaultLocker()}
	return zzStart(st, rl), rl, bal, L, N
}

// zzCheckChain: ids L+1.. in insertion order, hashes chained, transaction ids N+1.. in log order.
func zzCheckChain(st *zzStore, L, N *big.Int, prop string) {
	logs := st.Logs()
	nextTx := new(big.Int).Add(N, big.NewInt(1))
	for i := 1; i < len(logs); i++ {
		want := new(big.Int).Add(L, big.NewInt(int64(i)))
		verifhook.Assert(verifhook.Eq(logs[i].ID, want), prop+" log ids are consecutive in insertion order")
		again := *logs[i]
		again.ID = big.NewInt(0)
		again.Hash = nil
		again.ComputeHash(logs[i-1])
		verifhook.Assert(bytes.Equal(again.Hash, logs[i].Hash), prop+" each hash is the digest of the previous hash and the entry")
		var txid *big.Int
		switch p := logs[i].Data.(type) {
		case ledger.NewTransactionLogPayload:
			txid = p.Transaction.ID
		case ledger.RevertedTransactionLogPayload:
			txid = p.RevertTransaction.ID
		}
		if txid != nil {
			verifhook.Assert(verifhook.Eq(txid, nextTx), prop+" transaction ids increase by one in log order")
			nextTx = new(big.Int).Add(nextTx, big.NewInt(1))
		}
	}
}

// ---------- C02 ----------

var zzC02Shapes = [][]string{{"", ""}, {"var", "var"}, {"meta", "meta"}, {"", "meta"}, {"var", ""}, {"cancel", ""}, {"cancel", "cancel"}, {"all", "all"}, {"all", ""}, {"allvar", "all"}}

func ZZ_C02N() int { return len(zzC02Shapes) }

func ZZ_C02Desc(i int) string {
	return fmt.Sprintf("two concurrent sends from @a; source named %q / %q (\"\"=literal)", zzC02Shapes[i][0], zzC02Shapes[i][1])
}

// ZZ_C02: concurrent transactions cannot spend the same funds twice.
func ZZ_C02(shape int) {
	srcs := zzC02Shapes[shape]
	w, rl, bal, _, _ := zzConcWorld(true)
	verifhook.Assume(bal.Sign() >= 0)
	ops := make([]zzOp, len(srcs))
	for i, s := range srcs {
		a := verifhook.BigInt(fmt.Sprintf("amt%d", i))
		verifhook.Assume(a.Sign() > 0)
		ops[i] = zzOp{Kind: zzKCreateScript, Amt: a, Src: s, Tag: fmt.Sprintf("t%d", i)}
		if s == "cancel" {
			// the client gives up at an arbitrary moment (disconnect, timeout)
			ops[i].Src, ops[i].Cancel = "", true
		}
	}
	zzRunClients(w, ops, "")
	verifhook.Reach("quiescent")
	// the committed history, replayed in log order from the opening balance
	run := map[string]*big.Int{"a": bal}
	for _, l := range w.store.Logs()[1:] {
		p, ok := l.Data.(ledger.NewTransactionLogPayload)
		if !ok {
			continue
		}
		for _, po := range p.Transaction.Postings {
			if po.Source != "world" {
				cur, known := run[po.Source]
				if !known {
					cur = big.NewInt(0)
				}
				verifhook.Assert(verifhook.Le(po.Amount, verifhook.Max(big.NewInt(0), cur)), "C02 at its position in the log a transaction's source held enough")
				run[po.Source] = new(big.Int).Sub(cur, po.Amount)
			}
			if cur, ok := run[po.Destination]; ok {
				run[po.Destination] = new(big.Int).Add(cur, po.Amount)
			}
		}
	}
	for _, acc := range rl.seen {
		found := false
		for _, x := range acc.Write {
			if x == "a" {
				found = true
			}
		}
		verifhook.Assert(found, "C02 the write-lock set contains the resolved source account")
	}
	verifhook.Canary()
}

// ---------- C05 ----------

const zzKCreateWorld = 100 // create whose only source is @world (takes no account lock)

var zzC05Shapes = [][]int{
	{zzKCreateScript, zzKCreateScript},
	{zzKCreateScript, zzKCreateWorld},
	{zzKCreateWorld, zzKCreateWorld},
	{zzKCreateScript, zzKSetAccountMeta},
	{zzKCreateScript, zzKRevert},
	{zzKSetAccountMeta, zzKDeleteAccountMeta},
	{zzKCreateScript, zzKCreateScript, zzKCreateScript},
	{zzKCreateCancel, zzKCreateScript},
	{zzKCreateCancel, zzKSetAccountMeta},
	{zzKCreatePreview, zzKCreateScript},
	{zzKCreatePreview, zzKSetAccountMeta},
}

const zzKCreatePreview = 104 // a dry-run create running among the real writes

const zzKCreateCancel = 102 // create whose client gives up (context cancelled) at an arbitrary moment

func ZZ_C05N() int { return len(zzC05Shapes) }

func ZZ_C05Desc(i int) string {
	s := "concurrent:"
	for _, k := range zzC05Shapes[i] {
		if k == zzKCreateWorld {
			s += " create(from world)"
			continue
		}
		if k == zzKCreateCancel {
			s += " create(client gives up at an arbitrary moment)"
			continue
		}
		if k == zzKCreatePreview {
			s += " create(dry run)"
			continue
		}
		s += " " + zzKindNames[k]
	}
	return s + "; then (after a possible crash) restart and one more create"
}

// ZZ_C05: the log is a gap-free hash chain in every schedule and after every restart.
func ZZ_C05(shape int) {
	kinds := zzC05Shapes[shape]
	w, _, _, L, N := zzConcWorld(false)
	ops := make([]zzOp, len(kinds))
	for i, k := range kinds {
		ops[i] = zzOp{Kind: k, Amt: zzPosAmt(fmt.Sprintf("amt%d", i)), Target: N, Tag: fmt.Sprintf("t%d", i)}
		if k == zzKCreateWorld {
			ops[i].Kind, ops[i].Src = zzKCreateScript, "world"
		}
		if k == zzKCreateCancel {
			ops[i].Kind, ops[i].Cancel = zzKCreateScript, true
		}
		if k == zzKCreatePreview {
			ops[i].Kind, ops[i].DryRun = zzKCreateScript, true
		}
	}
	zzRunClients(w, ops, "")
	verifhook.Reach("quiescent")
	if verifhook.Crashed() {
		verifhook.Reach("crashed")
	}
	zzCheckChain(w.store, L, N, "C05")
	// stop (or crash) and start again on the same store: the chain continues
	w2 := zzRestart(w)
	r := zzRunClients(w2, []zzOp{{Kind: zzKCreateScript, Amt: zzPosAmt("amt_after"), Tag: "after"}}, "r")
	verifhook.Reach("restarted")
	_ = r
	zzCheckChain(w.store, L, N, "C05 (after restart)")
	verifhook.Canary()
}

func zzRestart(w *zzWorld) *zzWorld {
	w2 := &zzWorld{store: w.store, monitor: &zzMonitor{}, ctx: context.Background(), restarts: w.restarts + 1}
	w2.commander = New(w.store, NewDefaultLocker(), NewCompiler(1024), NewReferencer(), w2.monitor)
	if err := w2.commander.Init(w2.ctx); err != nil {
		panic(err)
	}
	// one name per generation (the native schedule controller finds threads by name)
	verifhook.Go(fmt.Sprintf("runner%d", w2.restarts+1), func() { w2.commander.Run(w2.ctx) })
	return w2
}

// ---------- C06 ----------

func ZZ_C06N() int { return len(zzC05Shapes) * 2 }

func ZZ_C06Desc(i int) string {
	f := ""
	if i%2 == 1 {
		f = " with an injectable InsertLogs failure"
	}
	return ZZ_C05Desc(i/2) + f
}

// ZZ_C06: acknowledged means persisted; rejected means no trace.
func ZZ_C06(shape int) {
	kinds := zzC05Shapes[shape/2]
	fault := shape%2 == 1
	w, _, _, _, N := zzConcWorld(false)
	if fault {
		w.store.failNext = verifhook.Bool("insert_fails")
		w.store.failClass = verifhook.Choose("insert_error", 3)
		verifhook.ExpectPanic() // a failing InsertLogs stops the process by design
	}
	ops := make([]zzOp, len(kinds))
	for i, k := range kinds {
		ops[i] = zzOp{Kind: k, Amt: zzPosAmt(fmt.Sprintf("amt%d", i)), Target: N, Tag: fmt.Sprintf("t%d", i)}
		if k == zzKRevert {
			ops[i].Tag = "revert"
		}
		if k == zzKCreateWorld {
			ops[i].Kind, ops[i].Src = zzKCreateScript, "world"
		}
		if k == zzKCreateCancel {
			ops[i].Kind, ops[i].Cancel = zzKCreateScript, true
		}
		if k == zzKCreatePreview {
			ops[i].Kind, ops[i].DryRun = zzKCreateScript, true
		}
	}
	res := zzRunClients(w, ops, "")
	verifhook.Reach("quiescent")
	logs := w.store.Logs()[1:]
	for i, r := range res {
		n := zzCountTag(w.store, ops[i].Tag)
		if ops[i].DryRun {
			verifhook.Assert(n == 0, "C06 a preview left a log entry")
			continue
		}
		if r.returned && r.err == nil {
			verifhook.Assert(r.ownLogAtAck, "C06 a write was acknowledged before its log entry was persisted")
			verifhook.Assert(n == 1, "C06 an acknowledged write corresponds to exactly one log entry")
			if r.tx != nil {
				l, tx, _ := zzLogOfTx(w.store, r.tx.ID)
				verifhook.Assert(l != nil && zzSamePostings(tx.Postings, r.tx.Postings), "C06 the persisted entry carries what the caller got back")
			}
		} else if r.returned {
			verifhook.Assert(n == 0, "C06 a write that reported an error left a log entry")
		} else {
			verifhook.Assert(n <= 1, "C06 a write cut off by the stop left more than one entry")
		}
	}
	for _, l := range logs {
		t := zzLogTag(l)
		known := false
		for i := range ops {
			if ops[i].Tag == t {
				known = true
			}
		}
		verifhook.Assert(known, "C06 a log entry exists that no request produced")
	}
	if fault && w.store.failedIns > 0 {
		for i, r := range res {
			if ops[i].DryRun {
				continue // a preview is answered without any log entry
			}
			verifhook.Assert(!(r.returned && r.err == nil && !r.ownLogAtAck), "C06 acknowledged although InsertLogs failed")
		}
	}
	verifhook.Canary()
}

// ---------- C07 ----------

var zzC07Shapes = [][]int{
	{zzKCreateScript, zzKCreateScript},
	{zzKSetAccountMeta, zzKSetAccountMeta},
	{zzKCreateScript, zzKSetAccountMeta},
	{zzKRevert, zzKRevert},
	// plus a third request without a key whose transaction *reference* equals the key
	{zzKCreateScript, zzKCreateScript, zzKInterferer},
	{zzKSetAccountMeta, zzKSetAccountMeta, zzKInterferer},
	// keys at the length the log table's column can hold, and one byte more
	{zzKCreateScript, zzKCreateScript, zzKLongKey255},
	{zzKCreateScript, zzKCreateScript, zzKLongKey256},
}

const (
	zzKLongKey255 = 255
	zzKLongKey256 = 256
)

const zzKInterferer = 101

func ZZ_C07N() int { return len(zzC07Shapes) }

func ZZ_C07Desc(i int) string {
	s := "same idempotency key, concurrent then retried after restart:"
	for _, k := range zzC07Shapes[i] {
		if k == zzKInterferer {
			s += " + a create without a key whose reference equals the key"
			continue
		}
		if k == zzKLongKey255 || k == zzKLongKey256 {
			s += fmt.Sprintf(" (key of %d bytes)", k)
			continue
		}
		s += " " + zzKindNames[k]
	}
	return s
}

// ZZ_C07: an idempotency key takes effect at most once.
func ZZ_C07(shape int) {
	kinds := zzC07Shapes[shape]
	w, _, _, _, N := zzConcWorld(false)
	amt := zzPosAmt("amt")
	key := "the-key"
	if last := kinds[len(kinds)-1]; last == zzKLongKey255 || last == zzKLongKey256 {
		key = strings.Repeat("k", last)
		kinds = kinds[:len(kinds)-1]
	}
	ops := make([]zzOp, len(kinds))
	for i, k := range kinds {
		ops[i] = zzOp{Kind: k, Amt: amt, Target: N, IK: key, Tag: "same"}
		if k == zzKInterferer {
			ops[i] = zzOp{Kind: zzKCreateScript, Amt: zzPosAmt("amt_other"), Ref: key, Tag: "other"}
		}
	}
	res := zzRunClients(w, ops, "")
	verifhook.Reach("quiescent")
	// retry after a stop/crash and restart
	w2 := zzRestart(w)
	res2 := zzRunClients(w2, []zzOp{{Kind: kinds[0], Amt: amt, Target: N, IK: key, Tag: "same"}}, "r")
	verifhook.Reach("retried")
	withKey := 0
	for _, l := range w.store.Logs()[1:] {
		if l.IdempotencyKey == key {
			withKey++
		}
	}
	verifhook.Assert(withKey <= 1, "C07 more than one write took effect under one idempotency key")
	verifhook.Assert(zzCountTag(w.store, "same") <= 1, "C07 duplicates of one request produced more than one log entry")
	var first *ledger.Transaction
	for i, r := range append(res, res2...) {
		if i < len(ops) && ops[i].Tag != "same" {
			continue
		}
		if r.returned && r.err == nil && r.tx != nil {
			if first == nil {
				first = r.tx
			} else {
				verifhook.Assert(verifhook.Eq(first.ID, r.tx.ID), "C07 successful duplicates return different transactions")
				verifhook.Assert(zzSamePostings(first.Postings, r.tx.Postings), "C07 successful duplicates return different content")
			}
		}
	}
	verifhook.Canary()
}

// ---------- C11 ----------

// C11 shapes: number of concurrent creates, whether they draw on @world only (no account
// lock serialises them), and whether a preview with the same reference runs among them.
type zzC11Shape struct {
	N       int
	World   bool
	Preview bool
	Ref     string // the reference the requests share ("" = ref-1)
	Cancel  bool   // the first client gives up at an arbitrary moment
}

var zzC11Shapes = []zzC11Shape{{2, false, false, "", false}, {3, false, false, "", false}, {2, true, false, "", false}, {2, true, true, "", false}, {2, false, true, "", false},
	// references a client may send with white space around them, or with odd characters
	{2, false, false, " ref-1", false}, {2, true, false, "ref-1\t", false}, {2, false, false, "réf/1?x=&y", false},
	{2, false, false, "", true}, {2, true, false, "", true}}

func ZZ_C11N() int { return len(zzC11Shapes) }

func ZZ_C11Desc(i int) string {
	return fmt.Sprintf("%+v: N concurrent creates with one reference (World: sourced from @world only; Preview: plus a concurrent dry run with the same reference), then a later create with that reference", zzC11Shapes[i])
}

// ZZ_C11: a transaction reference is committed at most once.
func ZZ_C11(shape int) {
	sh := zzC11Shapes[shape]
	ref := sh.Ref
	if ref == "" {
		ref = "ref-1"
	}
	w, _, _, _, _ := zzConcWorld(false)
	src := ""
	if sh.World {
		src = "world"
	}
	var ops []zzOp
	for i := 0; i < sh.N; i++ {
		ops = append(ops, zzOp{Kind: zzKCreateScript, Amt: zzPosAmt(fmt.Sprintf("amt%d", i)), Ref: ref, Src: src, Tag: fmt.Sprintf("t%d", i), Cancel: sh.Cancel && i == 0})
		if sh.Preview && i == 0 {
			ops = append(ops, zzOp{Kind: zzKCreateScript, Amt: zzPosAmt("amt_preview"), Ref: ref, Src: src, Tag: "preview", DryRun: true})
		}
	}
	res := zzRunClients(w, ops, "")
	verifhook.Reach("quiescent")
	later := zzRunClients(w, []zzOp{{Kind: zzKCreateScript, Amt: zzPosAmt("amt_late"), Ref: ref, Tag: "late"}}, "l")
	withRef := 0
	for _, t := range w.store.Transactions()[1:] {
		if t.Reference == ref {
			withRef++
		}
	}
	verifhook.Assert(withRef <= 1, "C11 two committed transactions carry the same reference")
	ok := 0
	all := append(append([]zzOpRes{}, res...), later...)
	for i, r := range all {
		if i < len(ops) && ops[i].DryRun {
			continue
		}
		if r.returned && r.err == nil {
			ok++
		}
	}
	verifhook.Assert(ok <= 1, "C11 two requests with the same reference were both accepted")
	verifhook.Assert(ok == withRef, "C11 accepted requests and committed transactions with the reference differ")
	okEarly := 0
	for i, r := range res {
		if r.returned && r.err == nil && !ops[i].DryRun {
			okEarly++
		}
	}
	if okEarly == 1 && later[0].returned {
		verifhook.Assert(later[0].err != nil, "C11 a later request with a committed reference is accepted")
		if later[0].err != nil {
			verifhook.Assert(IsInvalidTransactionError(later[0].err, ErrInvalidTransactionCodeConflict), "C11 the later request is rejected with something else than a conflict")
		}
	}
	verifhook.Canary()
}

// ---------- C10 (racing reverts) ----------

type zzC10RaceShape struct {
	N     int
	Force bool
}

var zzC10RaceShapes = []zzC10RaceShape{{2, false}, {2, true}, {3, false}, {3, true}}

func ZZ_C10RaceN() int { return len(zzC10RaceShapes) }

func ZZ_C10RaceDesc(i int) string {
	return fmt.Sprintf("%d concurrent reverts of one transaction, force=%v", zzC10RaceShapes[i].N, zzC10RaceShapes[i].Force)
}

// ZZ_C10Race: a transaction is reverted at most once however many revert requests race.
func ZZ_C10Race(shape int) {
	sh := zzC10RaceShapes[shape]
	w, _, _, _, N := zzConcWorld(false)
	ops := make([]zzOp, sh.N)
	for i := range ops {
		ops[i] = zzOp{Kind: zzKRevert, Target: N, Force: sh.Force, Tag: "revert"}
	}
	res := zzRunClients(w, ops, "")
	verifhook.Reach("quiescent")
	reverts := 0
	for _, l := range w.store.Logs()[1:] {
		if p, ok := l.Data.(ledger.RevertedTransactionLogPayload); ok && verifhook.Eq(p.RevertedTransactionID, N) {
			reverts++
		}
	}
	verifhook.Assert(reverts <= 1, "C10 a transaction was reverted more than once by racing requests")
	ok := 0
	for _, r := range res {
		if r.returned && r.err == nil {
			ok++
		}
	}
	verifhook.Assert(ok <= 1, "C10 more than one racing revert of the same transaction succeeded")
	verifhook.Assert(ok == reverts, "C10 successful reverts and revert log entries differ")
	bal, _ := w.store.GetBalance(w.ctx, "seed", "USD/2")
	if !sh.Force {
		verifhook.Assert(bal.Sign() >= 0, "C10 racing unforced reverts overdrew the account")
	}
	verifhook.Canary()
}

// ---------- C08 (compilation cache under concurrency and eviction) ----------

type zzC08CacheShape struct {
	CacheSize  int
	Concurrent bool
	Same       bool // both clients submit the same text
}

var zzC08CacheShapes = []zzC08CacheShape{{1024, true, false}, {1, true, false}, {1, false, false}, {2, true, true}}

func ZZ_C08CacheN() int { return len(zzC08CacheShapes) }

func ZZ_C08CacheDesc(i int) string { return fmt.Sprintf("%+v", zzC08CacheShapes[i]) }

func zzWorldSend(dest string) string {
	return "vars {\nmonetary $m\n}\nsend $m (\n  source = @world\n  destination = @" + dest + "\n)\n"
}

// ZZ_C08Cache: getting a program from the compilation cache, under any cache size and
// concurrency, gives the behaviour of the text that was submitted.
func ZZ_C08Cache(shape int) {
	sh := zzC08CacheShapes[shape]
	st := zzNewStore()
	zzPreload(st)
	w := zzStartWithCache(st, NewDefaultLocker(), sh.CacheSize)
	dests := []string{"x", "y"}
	if sh.Same {
		dests = []string{"x", "x"}
	}
	type outcome struct {
		tx  *ledger.Transaction
		err error
	}
	check := func(round string, i int, o outcome, amt *big.Int) {
		verifhook.Assert(o.err == nil, "C08 "+round+": a valid script is refused")
		if o.err != nil || o.tx == nil {
			return
		}
		verifhook.Assert(len(o.tx.Postings) == 1, "C08 "+round+": the script of this request yields one posting")
		if len(o.tx.Postings) == 1 {
			verifhook.Assert(o.tx.Postings[0].Destination == dests[i] && o.tx.Postings[0].Source == "world", "C08 "+round+": the request ran another text's program (wrong destination)")
			verifhook.Assert(verifhook.Eq(o.tx.Postings[0].Amount, amt), "C08 "+round+": amount differs from the supplied variable")
		}
	}
	amts := []*big.Int{zzPosAmt("amt0"), zzPosAmt("amt1")}
	run := func(i int) outcome {
		tx, err := w.commander.CreateTransaction(w.ctx, Parameters{}, zzScript(zzWorldSend(dests[i]), map[string]string{"m": "USD/2 " + amts[i].String()}))
		return outcome{tx, err}
	}
	outs := make([]outcome, 2)
	if sh.Concurrent {
		for i := range outs {
			i := i
			verifhook.Go(fmt.Sprintf("c%d", i), func() { outs[i] = run(i) })
		}
		verifhook.Quiesce()
	} else {
		outs[0] = run(0)
		outs[1] = run(1)
	}
	verifhook.Reach("first-round")
	for i := range outs {
		check("first use", i, outs[i], amts[i])
	}
	// second round, sequential: cache hits (or re-compilation after eviction)
	for k := 0; k < 2; k++ {
		for i := range outs {
			check("later use", i, run(i), amts[i])
		}
	}
	verifhook.Reach("second-round")
	verifhook.Canary()
}

// ---------- C05 from an empty ledger ----------

// each inner list is a stage (its writes run concurrently); between stages the process
// stops (or crashes) and a new commander starts on the same store
var zzC05FreshShapes = [][][]int{
	{{zzKSetAccountMeta}, {zzKSetAccountMeta}},
	{{zzKSetAccountMeta}, {zzKCreateWorld}},
	{{zzKCreateWorld}, {zzKSetAccountMeta}, {zzKCreateWorld}},
	{{zzKDeleteAccountMeta}, {zzKSetAccountMeta, zzKCreateWorld}},
	{{zzKCreateWorld, zzKCreateWorld}, {zzKCreateWorld}},
	{{zzKSetAccountMeta, zzKDeleteAccountMeta}, {zzKSetAccountMeta}, {zzKCreateWorld}},
}

func ZZ_C05FreshN() int { return len(zzC05FreshShapes) }

func ZZ_C05FreshDesc(i int) string {
	s := "from an empty ledger:"
	for si, st := range zzC05FreshShapes[i] {
		if si > 0 {
			s += " | restart |"
		}
		for _, k := range st {
			if k == zzKCreateWorld {
				s += " create(from world)"
			} else {
				s += " " + zzKindNames[k]
			}
		}
	}
	return s
}

// zzCheckChainFromZero: ids 0.. in insertion order, the first entry chained on nothing,
// transaction ids 0.. in log order.
func zzCheckChainFromZero(st *zzStore, prop string) {
	logs := st.Logs()
	nextTx := big.NewInt(0)
	for i := range logs {
		verifhook.Assert(verifhook.Eq(logs[i].ID, big.NewInt(int64(i))), prop+" log ids are consecutive from 0 in insertion order")
		again := *logs[i]
		again.ID = big.NewInt(0)
		again.Hash = nil
		var prev *ledger.ChainedLog
		if i > 0 {
			prev = logs[i-1]
		}
		again.ComputeHash(prev)
		verifhook.Assert(bytes.Equal(again.Hash, logs[i].Hash), prop+" each hash is the digest of the previous hash and the entry")
		var txid *big.Int
		switch p := logs[i].Data.(type) {
		case ledger.NewTransactionLogPayload:
			txid = p.Transaction.ID
		case ledger.RevertedTransactionLogPayload:
			txid = p.RevertTransaction.ID
		}
		if txid != nil {
			verifhook.Assert(verifhook.Eq(txid, nextTx), prop+" transaction ids increase by one from 0 in log order")
			nextTx = new(big.Int).Add(nextTx, big.NewInt(1))
		}
	}
}

// ZZ_C05Fresh: the chain law on a ledger that starts empty and is restarted between
// writes, including while it holds no transaction yet.
func ZZ_C05Fresh(shape int) {
	stages := zzC05FreshShapes[shape]
	st := zzNewStore()
	w := zzStart(st, NewDefaultLocker())
	for si, kinds := range stages {
		if si > 0 {
			w = zzRestart(w)
		}
		ops := make([]zzOp, len(kinds))
		for i, k := range kinds {
			ops[i] = zzOp{Kind: k, Amt: zzPosAmt(fmt.Sprintf("amt%d_%d", si, i)), Tag: fmt.Sprintf("t%d_%d", si, i)}
			if k == zzKCreateWorld {
				ops[i].Kind, ops[i].Src = zzKCreateScript, "world"
			}
		}
		zzRunClients(w, ops, fmt.Sprintf("s%d", si))
		zzCheckChainFromZero(st, fmt.Sprintf("C05 (stage %d)", si))
	}
	verifhook.Reach("all-stages")
	verifhook.Canary()
}

// ---------- C16 with clients that give up ----------

var zzC16ConcShapes = [][]int{
	{zzKCreateCancel},
	{zzKCreateCancel, zzKCreateScript},
	{zzKRevertCancel},
	{zzKCreateCancel, zzKSetAccountMeta},
}

const zzKRevertCancel = 103

func ZZ_C16ConcN() int { return len(zzC16ConcShapes) }

func ZZ_C16ConcDesc(i int) string {
	s := "concurrent:"
	for _, k := range zzC16ConcShapes[i] {
		switch k {
		case zzKCreateCancel:
			s += " create(client gives up at an arbitrary moment)"
		case zzKRevertCancel:
			s += " revert(client gives up at an arbitrary moment)"
		default:
			s += " " + zzKindNames[k]
		}
	}
	return s
}

// ZZ_C16Conc: whatever the clients do while their request is under way, once the system
// is at rest every persisted log entry has been published, and every published event
// describes a persisted entry.
func ZZ_C16Conc(shape int) {
	kinds := zzC16ConcShapes[shape]
	w, _, _, _, N := zzConcWorld(false)
	ops := make([]zzOp, len(kinds))
	for i, k := range kinds {
		ops[i] = zzOp{Kind: k, Amt: zzPosAmt(fmt.Sprintf("amt%d", i)), Target: N, Tag: fmt.Sprintf("t%d", i)}
		switch k {
		case zzKCreateCancel:
			ops[i].Kind, ops[i].Cancel = zzKCreateScript, true
		case zzKRevertCancel:
			ops[i].Kind, ops[i].Cancel, ops[i].Force = zzKRevert, true, true
		}
	}
	zzRunClients(w, ops, "")
	verifhook.Reach("quiescent")
	logs := w.store.Logs()[1:]
	committed, reverted, saved := 0, 0, 0
	for _, e := range w.monitor.events {
		switch e.Kind {
		case "committed":
			committed++
			l, _, _ := zzLogOfTx(w.store, e.Tx.ID)
			verifhook.Assert(l != nil, "C16 a committed-transaction event names a transaction that is not persisted")
		case "reverted":
			reverted++
			l, _, _ := zzLogOfTx(w.store, e.Tx.ID)
			verifhook.Assert(l != nil, "C16 a reverted-transaction event names a revert that is not persisted")
		case "saved":
			saved++
		}
	}
	nTx, nRev, nSaved := 0, 0, 0
	for _, l := range logs {
		switch l.Data.(type) {
		case ledger.NewTransactionLogPayload:
			nTx++
		case ledger.RevertedTransactionLogPayload:
			nRev++
		case ledger.SetMetadataLogPayload:
			nSaved++
		}
	}
	verifhook.Assert(committed == nTx, "C16 a persisted transaction was never published (or published twice)")
	verifhook.Assert(reverted == nRev, "C16 a persisted revert was never published (or published twice)")
	verifhook.Assert(saved == nSaved, "C16 a persisted metadata change was never published (or published twice)")
	verifhook.Canary()
}
