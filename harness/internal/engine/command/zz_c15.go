package command

import (
	"context"
	"fmt"

	"github.com/formancehq/stack/libs/go-libs/verifhook"
)

type zzLockReq struct {
	Read, Write []string
	Cancel      bool // this request's context is cancelled by a separate thread at an arbitrary moment
}

var zzC15Shapes = [][]zzLockReq{
	{{Write: []string{"x"}}, {Write: []string{"x"}}},
	{{Read: []string{"x"}}, {Write: []string{"x"}}},
	{{Write: []string{"x"}}, {Read: []string{"x"}}},
	{{Read: []string{"x"}}, {Read: []string{"x"}}},
	{{Write: []string{"x", "y"}}, {Write: []string{"y"}}},
	{{Write: []string{"x"}}, {Write: []string{"y"}}},
	{{Read: []string{"x"}, Write: []string{"y"}}, {Read: []string{"y"}, Write: []string{"x"}}},
	{{Write: []string{"x"}}, {Write: []string{"x"}, Cancel: true}},
	{{Read: []string{"x"}}, {Write: []string{"x"}, Cancel: true}},
	{{Write: []string{"x"}, Cancel: true}, {Write: []string{"x"}}},
	{{Write: []string{"x"}}, {Write: []string{"x"}}, {Write: []string{"x"}}},
	{{Write: []string{"x"}}, {Read: []string{"x"}}, {Read: []string{"x"}}},
	{{Read: []string{"x"}}, {Write: []string{"x"}}, {Read: []string{"x"}}},
	{{Write: []string{"x"}}, {Write: []string{"x"}, Cancel: true}, {Write: []string{"x"}}},
	{{Read: []string{"x", "y"}}, {Read: []string{"x"}}, {Write: []string{"y"}}},
	{{Read: []string{"x", "y"}}, {Read: []string{"y"}}, {Write: []string{"x"}}},
	{{Read: []string{"x", "y"}, Write: []string{"z"}}, {Read: []string{"x"}, Write: []string{"z"}}, {Write: []string{"y"}}},
	// an account named in both sets of one request (what the commander does for every source)
	{{Read: []string{"x"}}, {Read: []string{"x"}, Write: []string{"x"}}},
	{{Read: []string{"x"}, Write: []string{"x"}}, {Read: []string{"x"}}},
	{{Read: []string{"x"}, Write: []string{"x"}}, {Read: []string{"x"}, Write: []string{"x"}}},
	{{Read: []string{"x", "y"}}, {Read: []string{"x", "y"}, Write: []string{"y"}}, {Read: []string{"y"}}},
}

func ZZ_C15N() int { return len(zzC15Shapes) }

func ZZ_C15Desc(i int) string { return fmt.Sprintf("%+v", zzC15Shapes[i]) }

func zzConflict(a, b zzLockReq) bool {
	for _, w := range a.Write {
		for _, o := range b.Write {
			if w == o {
				return true
			}
		}
		for _, o := range b.Read {
			if w == o {
				return true
			}
		}
	}
	for _, w := range b.Write {
		for _, o := range a.Read {
			if w == o {
				return true
			}
		}
	}
	return false
}

// ZZ_C15: account locks are exclusive and always eventually granted; an abandoned
// request neither obtains nor leaves behind a lock.
func ZZ_C15(shape int) {
	reqs := zzC15Shapes[shape]
	locker := NewDefaultLocker()
	n := len(reqs)
	holding := make([]bool, n)
	done := make([]bool, n)
	failed := make([]bool, n)
	overlap := false
	for i := range reqs {
		i := i
		ctx := context.Background()
		if reqs[i].Cancel {
			var cancel context.CancelFunc
			ctx, cancel = context.WithCancel(ctx)
			verifhook.Go(fmt.Sprintf("x%d", i), func() { cancel() })
		}
		verifhook.Go(fmt.Sprintf("c%d", i), func() {
			unlock, err := locker.Lock(ctx, Accounts{Read: reqs[i].Read, Write: reqs[i].Write})
			if err != nil {
				failed[i] = true
				done[i] = true
				return
			}
			for j := range reqs {
				if j != i && holding[j] && zzConflict(reqs[i], reqs[j]) {
					overlap = true
				}
			}
			holding[i] = true
			verifhook.Yield("zz:holding")
			holding[i] = false
			unlock(context.Background())
			done[i] = true
		})
	}
	verifhook.Quiesce()
	verifhook.Reach("quiescent")
	verifhook.Assert(!overlap, "C15 two holders overlap on an account one of them writes")
	for i := range reqs {
		verifhook.Assert(done[i], fmt.Sprintf("C15 request %d is never granted although every holder released", i))
		if !reqs[i].Cancel {
			verifhook.Assert(!failed[i], "C15 a request that was not cancelled fails")
		}
	}
	verifhook.Assert(len(locker.readLocks) == 0 && len(locker.writeLocks) == 0, "C15 locks left behind after every request finished")
	verifhook.Assert(locker.intents.FirstNode() == nil, "C15 a waiting request is left in the queue after every request finished")
	verifhook.Canary()
}

// ---------- staged releases ----------

type zzC15Stage struct {
	Reqs  []zzLockReq
	Order []int // holders are told to release in this order, one per stage
}

var zzC15Stages = []zzC15Stage{
	{[]zzLockReq{{Write: []string{"x", "y"}}, {Write: []string{"x"}}, {Write: []string{"y"}}}, []int{0, 1, 2}},
	{[]zzLockReq{{Write: []string{"x"}}, {Read: []string{"x"}}, {Read: []string{"x"}}}, []int{0, 1, 2}},
	{[]zzLockReq{{Write: []string{"x", "y"}}, {Read: []string{"x"}}, {Read: []string{"y"}}}, []int{0, 2, 1}},
	{[]zzLockReq{{Read: []string{"x"}}, {Read: []string{"x"}}, {Write: []string{"x"}}}, []int{0, 1, 2}},
	{[]zzLockReq{{Write: []string{"x", "y"}}, {Write: []string{"x"}, Cancel: true}, {Write: []string{"y"}}}, []int{0, 1, 2}},
	{[]zzLockReq{{Write: []string{"x"}}, {Write: []string{"y"}}, {Write: []string{"x", "y"}}}, []int{1, 0, 2}},
	{[]zzLockReq{{Read: []string{"x", "y"}}, {Read: []string{"x"}}, {Write: []string{"y"}}}, []int{0, 1, 2}},
	{[]zzLockReq{{Read: []string{"x", "y"}}, {Read: []string{"y"}}, {Write: []string{"y"}}}, []int{1, 0, 2}},
}

func ZZ_C15StageN() int { return len(zzC15Stages) }

func ZZ_C15StageDesc(i int) string { return fmt.Sprintf("%+v", zzC15Stages[i]) }

// ZZ_C15Stage: holders keep their lock until told to release, one per stage. Whenever
// the system has come to rest, every request that is still pending conflicts with a
// current holder -- a release grants every request it makes grantable, not just one.
func ZZ_C15Stage(shape int) {
	st := zzC15Stages[shape]
	reqs := st.Reqs
	locker := NewDefaultLocker()
	n := len(reqs)
	holding := make([]bool, n)
	done := make([]bool, n)
	gates := make([]chan struct{}, n)
	overlap := false
	for i := range reqs {
		i := i
		gates[i] = make(chan struct{})
		ctx := context.Background()
		if reqs[i].Cancel {
			var cancel context.CancelFunc
			ctx, cancel = context.WithCancel(ctx)
			verifhook.Go(fmt.Sprintf("x%d", i), func() { cancel() })
		}
		verifhook.Go(fmt.Sprintf("c%d", i), func() {
			unlock, err := locker.Lock(ctx, Accounts{Read: reqs[i].Read, Write: reqs[i].Write})
			if err != nil {
				done[i] = true
				return
			}
			for j := range reqs {
				if j != i && holding[j] && zzConflict(reqs[i], reqs[j]) {
					overlap = true
				}
			}
			holding[i] = true
			<-gates[i]
			holding[i] = false
			unlock(context.Background())
			done[i] = true
		})
	}
	atRest := func(stage int) {
		verifhook.Quiesce()
		for i := range reqs {
			if done[i] || holding[i] {
				continue
			}
			blocked := false
			for j := range reqs {
				if j != i && holding[j] && zzConflict(reqs[i], reqs[j]) {
					blocked = true
				}
			}
			verifhook.Assert(blocked, fmt.Sprintf("C15 request %d is still pending at rest although no conflicting holder is left (stage %d)", i, stage))
		}
	}
	for s, k := range st.Order {
		atRest(s)
		close(gates[k])
	}
	atRest(len(st.Order))
	verifhook.Reach("all-released")
	verifhook.Assert(!overlap, "C15 two holders overlap on an account one of them writes")
	for i := range reqs {
		verifhook.Assert(done[i], fmt.Sprintf("C15 request %d is never granted although every holder released", i))
	}
	verifhook.Assert(len(locker.readLocks) == 0 && len(locker.writeLocks) == 0, "C15 locks left behind after every request finished")
	verifhook.Assert(locker.intents.FirstNode() == nil, "C15 a waiting request is left in the queue after every request finished")
	verifhook.Canary()
}
