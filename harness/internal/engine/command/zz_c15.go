package command

import (
	"context"
	"fmt"

	"github.com/formancehq/stack/libs/go-libs/verifhook"
)

type zzLockReq struct {
	Read, Write []string
	Cancel      bool // this request's context is cancelled by a separate thread at an arbitrary moment
}

var zzC15Shapes = [][]zzLockReq{
	{{Write: []string{"x"}}, {Write: []string{"x"}}},
	{{Read: []string{"x"}}, {Write: []string{"x"}}},
	{{Write: []string{"x"}}, {Read: []string{"x"}}},
	{{Read: []string{"x"}}, {Read: []string{"x"}}},
	{{Write: []string{"x", "y"}}, {Write: []string{"y"}}},
	{{Write: []string{"x"}}, {Write: []string{"y"}}},
	{{Read: []string{"x"}, Write: []string{"y"}}, {Read: []string{"y"}, Write: []string{"x"}}},
	{{Write: []string{"x"}}, {Write: []string{"x"}, Cancel: true}},
	{{Read: []string{"x"}}, {Write: []string{"x"}, Cancel: true}},
	{{Write: []string{"x"}, Cancel: true}, {Write: []string{"x"}}},
	{{Write: []string{"x"}}, {Write: []string{"x"}}, {Write: []string{"x"}}},
	{{Write: []string{"x"}}, {Read: []string{"x"}}, {Read: []string{"x"}}},
	{{Read: []string{"x"}}, {Write: []string{"x"}}, {Read: []string{"x"}}},
	{{Write: []string{"x"}}, {Write: []string{"x"}, Cancel: true}, {Write: []string{"x"}}},
}

func ZZ_C15N() int { return len(zzC15Shapes) }

func ZZ_C15Desc(i int) string { return fmt.Sprintf("%+v", zzC15Shapes[i]) }

func zzConflict(a, b zzLockReq) bool {
	for _, w := range a.Write {
		for _, o := range b.Write {
			if w == o {
				return true
			}
		}
		for _, o := range b.Read {
			if w == o {
				return true
			}
		}
	}
	for _, w := range b.Write {
		for _, o := range a.Read {
			if w == o {
				return true
			}
		}
	}
	return false
}

// ZZ_C15: account locks are exclusive and always eventually granted; an abandoned
// request neither obtains nor leaves behind a lock.
func ZZ_C15(shape int) {
	reqs := zzC15Shapes[shape]
	locker := NewDefaultLocker()
	n := len(reqs)
	holding := make([]bool, n)
	done := make([]bool, n)
	failed := make([]bool, n)
	overlap := false
	for i := range reqs {
		i := i
		ctx := context.Background()
		if reqs[i].Cancel {
			var cancel context.CancelFunc
			ctx, cancel = context.WithCancel(ctx)
			verifhook.Go(fmt.Sprintf("x%d", i), func() { cancel() })
		}
		verifhook.Go(fmt.Sprintf("c%d", i), func() {
			unlock, err := locker.Lock(ctx, Accounts{Read: reqs[i].Read, Write: reqs[i].Write})
			if err != nil {
				failed[i] = true
				done[i] = true
				return
			}
			for j := range reqs {
				if j != i && holding[j] && zzConflict(reqs[i], reqs[j]) {
					overlap = true
				}
			}
			holding[i] = true
			verifhook.Yield("zz:holding")
			holding[i] = false
			unlock(context.Background())
			done[i] = true
		})
	}
	verifhook.Quiesce()
	verifhook.Reach("quiescent")
	verifhook.Assert(!overlap, "C15 two holders overlap on an account one of them writes")
	for i := range reqs {
		verifhook.Assert(done[i], fmt.Sprintf("C15 request %d is never granted although every holder released", i))
		if !reqs[i].Cancel {
			verifhook.Assert(!failed[i], "C15 a request that was not cancelled fails")
		}
	}
	verifhook.Assert(len(locker.readLocks) == 0 && len(locker.writeLocks) == 0, "C15 locks left behind after every request finished")
	verifhook.Assert(locker.intents.FirstNode() == nil, "C15 a waiting request is left in the queue after every request finished")
	verifhook.Canary()
}
