package command

import (
	"context"

	"encoding/json"
	"github.com/pkg/errors"
	"math/big"

	"github.com/ThreeDotsLabs/watermill/message"
	"github.com/formancehq/ledger/pkg/events"

	ledger "github.com/formancehq/ledger/internal"
	"github.com/formancehq/ledger/internal/bus"
	"github.com/formancehq/ledger/internal/storage"
	"github.com/formancehq/stack/libs/go-libs/metadata"
	"github.com/formancehq/stack/libs/go-libs/verifhook"
)

// zzStore is the durable store of the harnesses: the repository's InMemoryStore plus
// symbolic opening balances and an injectable InsertLogs failure.
type zzStore struct {
	*storage.InMemoryStore
	opening   map[string]map[string]*big.Int // account -> asset -> opening balance
	failNext  bool
	failClass int // which error a failing InsertLogs returns
	inserts   int
	failedIns int
}

func zzNewStore() *zzStore {
	return &zzStore{InMemoryStore: storage.NewInMemoryStore(), opening: map[string]map[string]*big.Int{}}
}

func (s *zzStore) setOpening(account, asset string, v *big.Int) {
	if s.opening[account] == nil {
		s.opening[account] = map[string]*big.Int{}
	}
	s.opening[account][asset] = v
}

func (s *zzStore) GetBalance(ctx context.Context, address, asset string) (*big.Int, error) {
	b, err := s.InMemoryStore.GetBalance(ctx, address, asset)
	if err != nil {
		return nil, err
	}
	if o, ok := s.opening[address][asset]; ok {
		b = new(big.Int).Add(b, o)
	}
	return b, nil
}

type zzInsertFailure struct{}

func (zzInsertFailure) Error() string { return "injected InsertLogs failure" }

func (s *zzStore) InsertLogs(ctx context.Context, logs ...*ledger.ChainedLog) error {
	if s.failNext {
		s.failNext = false
		s.failedIns++
		switch s.failClass {
		case 1: // the way a database driver reports a statement cut short by its context
			return errors.Wrap(context.Canceled, "inserting logs")
		case 2:
			return errors.Wrap(context.DeadlineExceeded, "inserting logs")
		}
		return zzInsertFailure{}
	}
	s.inserts++
	return s.InMemoryStore.InsertLogs(ctx, logs...)
}

// zzEvent is one recorded monitor call.
type zzEvent struct {
	Kind       string
	Tx         *ledger.Transaction // committed / revert transaction
	Reverted   *ledger.Transaction
	AccountMD  map[string]metadata.Metadata
	TargetType string
	TargetID   any
	Metadata   metadata.Metadata
	Key        string
}

type zzMonitor struct{ events []zzEvent }

func (m *zzMonitor) CommittedTransactions(ctx context.Context, res ledger.Transaction, accountMetadata map[string]metadata.Metadata) {
	m.events = append(m.events, zzEvent{Kind: "committed", Tx: &res, AccountMD: accountMetadata})
}
func (m *zzMonitor) SavedMetadata(ctx context.Context, targetType, id string, md metadata.Metadata) {
	m.events = append(m.events, zzEvent{Kind: "saved", TargetType: targetType, TargetID: id, Metadata: md})
}
func (m *zzMonitor) RevertedTransaction(ctx context.Context, reverted, revert *ledger.Transaction) {
	m.events = append(m.events, zzEvent{Kind: "reverted", Reverted: reverted, Tx: revert})
}
func (m *zzMonitor) DeletedMetadata(ctx context.Context, targetType string, targetID any, key string) {
	m.events = append(m.events, zzEvent{Kind: "deleted", TargetType: targetType, TargetID: targetID, Key: key})
}

var _ bus.Monitor = (*zzMonitor)(nil)

// zzBusMonitor sends every monitor call through the real bus.ledgerMonitor and a
// recording publisher, and decodes what was put on the bus back into zzEvents: the
// oracle then judges the published payloads, not the arguments.
type zzBusMonitor struct {
	zzMonitor
	real bus.Monitor
}

type zzPublisher struct{ m *zzBusMonitor }

func (p zzPublisher) Close() error { return nil }

func (p zzPublisher) Publish(topic string, messages ...*message.Message) error {
	for _, msg := range messages {
		var env struct {
			Type    string          `json:"type"`
			Payload json.RawMessage `json:"payload"`
		}
		if err := json.Unmarshal(msg.Payload, &env); err != nil {
			panic(err)
		}
		verifhook.Assert(env.Type == topic, "C16 the message type differs from the topic it is published on")
		switch env.Type {
		case events.EventTypeCommittedTransactions:
			var pl bus.CommittedTransactions
			if err := json.Unmarshal(env.Payload, &pl); err != nil {
				panic(err)
			}
			for i := range pl.Transactions {
				p.m.events = append(p.m.events, zzEvent{Kind: "committed", Tx: &pl.Transactions[i], AccountMD: pl.AccountMetadata})
			}
		case events.EventTypeRevertedTransaction:
			var pl bus.RevertedTransaction
			if err := json.Unmarshal(env.Payload, &pl); err != nil {
				panic(err)
			}
			p.m.events = append(p.m.events, zzEvent{Kind: "reverted", Reverted: &pl.RevertedTransaction, Tx: &pl.RevertTransaction})
		case events.EventTypeSavedMetadata:
			var pl bus.SavedMetadata
			if err := json.Unmarshal(env.Payload, &pl); err != nil {
				panic(err)
			}
			p.m.events = append(p.m.events, zzEvent{Kind: "saved", TargetType: pl.TargetType, TargetID: pl.TargetID, Metadata: pl.Metadata})
		case events.EventTypeDeletedMetadata:
			var pl struct {
				TargetType string          `json:"targetType"`
				TargetID   json.RawMessage `json:"targetId"`
				Key        string          `json:"key"`
			}
			if err := json.Unmarshal(env.Payload, &pl); err != nil {
				panic(err)
			}
			id := string(pl.TargetID)
			if pl.TargetType == ledger.MetaTargetTypeAccount {
				if err := json.Unmarshal(pl.TargetID, &id); err != nil {
					panic(err)
				}
			}
			p.m.events = append(p.m.events, zzEvent{Kind: "deleted", TargetType: pl.TargetType, TargetID: id, Key: pl.Key})
		default:
			verifhook.Assert(false, "C16 unknown event type published")
		}
	}
	return nil
}

func zzNewBusMonitor() *zzBusMonitor {
	m := &zzBusMonitor{}
	m.real = bus.NewLedgerMonitor(zzPublisher{m}, "ledger-1")
	return m
}

func (m *zzBusMonitor) CommittedTransactions(ctx context.Context, res ledger.Transaction, accountMetadata map[string]metadata.Metadata) {
	m.real.CommittedTransactions(ctx, res, accountMetadata)
}
func (m *zzBusMonitor) SavedMetadata(ctx context.Context, targetType, id string, md metadata.Metadata) {
	m.real.SavedMetadata(ctx, targetType, id, md)
}
func (m *zzBusMonitor) RevertedTransaction(ctx context.Context, reverted, revert *ledger.Transaction) {
	m.real.RevertedTransaction(ctx, reverted, revert)
}
func (m *zzBusMonitor) DeletedMetadata(ctx context.Context, targetType string, targetID any, key string) {
	m.real.DeletedMetadata(ctx, targetType, targetID, key)
}

// zzWorld is one running commander over a store.
type zzWorld struct {
	restarts    int         // how many times the commander was restarted on this store
	stamp       ledger.Time // explicit timestamp of created transactions (zero: now)
	metaVariant int
	store       *zzStore
	monitor     *zzMonitor
	commander   *Commander
	ctx         context.Context
}

func zzStart(store *zzStore, locker Locker) *zzWorld {
	return zzStartWithCache(store, locker, 1024)
}

// zzStartBus is zzStart with the real bus.ledgerMonitor in front of a recording publisher.
func zzStartBus(store *zzStore, locker Locker) *zzWorld {
	bm := zzNewBusMonitor()
	w := &zzWorld{store: store, monitor: &bm.zzMonitor, ctx: context.Background()}
	w.commander = New(store, locker, NewCompiler(1024), NewReferencer(), bm)
	if err := w.commander.Init(w.ctx); err != nil {
		panic(err)
	}
	verifhook.Go("runner", func() { w.commander.Run(w.ctx) })
	return w
}

func zzStartWithCache(store *zzStore, locker Locker, cacheSize int) *zzWorld {
	w := &zzWorld{store: store, monitor: &zzMonitor{}, ctx: context.Background()}
	w.commander = New(store, locker, NewCompiler(cacheSize), NewReferencer(), w.monitor)
	if err := w.commander.Init(w.ctx); err != nil {
		panic(err)
	}
	verifhook.Go("runner", func() { w.commander.Run(w.ctx) })
	return w
}

func zzScript(plain string, vars map[string]string) ledger.RunScript {
	return ledger.RunScript{Script: ledger.Script{Plain: plain, Vars: vars}}
}

func ZZ_CmdSmoke(shape int) {
	st := zzNewStore()
	bal := verifhook.BigInt("bal")
	st.setOpening("a", "USD/2", bal)
	w := zzStart(st, NewDefaultLocker())
	amt := verifhook.BigInt("amt")
	tx, err := w.commander.CreateTransaction(w.ctx, Parameters{}, zzScript("vars {\nmonetary $m\n}\nsend $m (\n  source = @a\n  destination = @b\n)\n", map[string]string{"m": "USD/2 " + amt.String()}))
	verifhook.Reach("created")
	if err != nil {
		verifhook.Reach("refused")
		verifhook.Assert(len(st.InMemoryStore.Logs()) == 0, "refused leaves no log")
		return
	}
	verifhook.Reach("accepted")
	verifhook.Assert(verifhook.Le(amt, bal), "accepted only when covered")
	verifhook.Assert(tx.ID.Sign() == 0, "first id is zero")
	verifhook.Assert(len(st.InMemoryStore.Logs()) == 1, "one log")
}
