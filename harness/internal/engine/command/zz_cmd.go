package command

import (
	"context"
	"math/big"

	ledger "github.com/formancehq/ledger/internal"
	"github.com/formancehq/ledger/internal/bus"
	"github.com/formancehq/ledger/internal/storage"
	"github.com/formancehq/stack/libs/go-libs/metadata"
	"github.com/formancehq/stack/libs/go-libs/verifhook"
)

// zzStore is the durable store of the harnesses: the repository's InMemoryStore plus
// symbolic opening balances and an injectable InsertLogs failure.
type zzStore struct {
	*storage.InMemoryStore
	opening   map[string]map[string]*big.Int // account -> asset -> opening balance
	failNext  bool
	inserts   int
	failedIns int
}

func zzNewStore() *zzStore {
	return &zzStore{InMemoryStore: storage.NewInMemoryStore(), opening: map[string]map[string]*big.Int{}}
}

func (s *zzStore) setOpening(account, asset string, v *big.Int) {
	if s.opening[account] == nil {
		s.opening[account] = map[string]*big.Int{}
	}
	s.opening[account][asset] = v
}

func (s *zzStore) GetBalance(ctx context.Context, address, asset string) (*big.Int, error) {
	b, err := s.InMemoryStore.GetBalance(ctx, address, asset)
	if err != nil {
		return nil, err
	}
	if o, ok := s.opening[address][asset]; ok {
		b = new(big.Int).Add(b, o)
	}
	return b, nil
}

type zzInsertFailure struct{}

func (zzInsertFailure) Error() string { return "injected InsertLogs failure" }

func (s *zzStore) InsertLogs(ctx context.Context, logs ...*ledger.ChainedLog) error {
	if s.failNext {
		s.failNext = false
		s.failedIns++
		return zzInsertFailure{}
	}
	s.inserts++
	return s.InMemoryStore.InsertLogs(ctx, logs...)
}

// zzEvent is one recorded monitor call.
type zzEvent struct {
	Kind       string
	Tx         *ledger.Transaction // committed / revert transaction
	Reverted   *ledger.Transaction
	AccountMD  map[string]metadata.Metadata
	TargetType string
	TargetID   any
	Metadata   metadata.Metadata
	Key        string
}

type zzMonitor struct{ events []zzEvent }

func (m *zzMonitor) CommittedTransactions(ctx context.Context, res ledger.Transaction, accountMetadata map[string]metadata.Metadata) {
	m.events = append(m.events, zzEvent{Kind: "committed", Tx: &res, AccountMD: accountMetadata})
}
func (m *zzMonitor) SavedMetadata(ctx context.Context, targetType, id string, md metadata.Metadata) {
	m.events = append(m.events, zzEvent{Kind: "saved", TargetType: targetType, TargetID: id, Metadata: md})
}
func (m *zzMonitor) RevertedTransaction(ctx context.Context, reverted, revert *ledger.Transaction) {
	m.events = append(m.events, zzEvent{Kind: "reverted", Reverted: reverted, Tx: revert})
}
func (m *zzMonitor) DeletedMetadata(ctx context.Context, targetType string, targetID any, key string) {
	m.events = append(m.events, zzEvent{Kind: "deleted", TargetType: targetType, TargetID: targetID, Key: key})
}

var _ bus.Monitor = (*zzMonitor)(nil)

// zzWorld is one running commander over a store.
type zzWorld struct {
	store     *zzStore
	monitor   *zzMonitor
	commander *Commander
	ctx       context.Context
}

func zzStart(store *zzStore, locker Locker) *zzWorld {
	return zzStartWithCache(store, locker, 1024)
}

func zzStartWithCache(store *zzStore, locker Locker, cacheSize int) *zzWorld {
	w := &zzWorld{store: store, monitor: &zzMonitor{}, ctx: context.Background()}
	w.commander = New(store, locker, NewCompiler(cacheSize), NewReferencer(), w.monitor)
	if err := w.commander.Init(w.ctx); err != nil {
		panic(err)
	}
	verifhook.Go("runner", func() { w.commander.Run(w.ctx) })
	return w
}

func zzScript(plain string, vars map[string]string) ledger.RunScript {
	return ledger.RunScript{Script: ledger.Script{Plain: plain, Vars: vars}}
}

func ZZ_CmdSmoke(shape int) {
	st := zzNewStore()
	bal := verifhook.BigInt("bal")
	st.setOpening("a", "USD/2", bal)
	w := zzStart(st, NewDefaultLocker())
	amt := verifhook.BigInt("amt")
	tx, err := w.commander.CreateTransaction(w.ctx, Parameters{}, zzScript("vars {\nmonetary $m\n}\nsend $m (\n  source = @a\n  destination = @b\n)\n", map[string]string{"m": "USD/2 " + amt.String()}))
	verifhook.Reach("created")
	if err != nil {
		verifhook.Reach("refused")
		verifhook.Assert(len(st.InMemoryStore.Logs()) == 0, "refused leaves no log")
		return
	}
	verifhook.Reach("accepted")
	verifhook.Assert(verifhook.Le(amt, bal), "accepted only when covered")
	verifhook.Assert(tx.ID.Sign() == 0, "first id is zero")
	verifhook.Assert(len(st.InMemoryStore.Logs()) == 1, "one log")
}
