package batching

var zzRegistry = map[string]func(int){
	"ZZ_C06Batch": ZZ_C06Batch,
}
