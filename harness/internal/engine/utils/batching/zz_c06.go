package batching

import (
	"context"
	"fmt"

	"github.com/formancehq/stack/libs/go-libs/verifhook"
)

const ZZ_C06BatchN = 6 * 3

func ZZ_C06BatchDesc(i int) string {
	return fmt.Sprintf("%d pending items, batches of at most %d, two late arrivals between the cuts", i%6, i/6+1)
}

// ZZ_C06Batch: every composition of batches. From n pending items (arbitrary values) the
// batcher cuts batches of at most m; between the cuts more items arrive. Every item is
// in exactly one batch, in arrival order, no batch is larger than m, a batch already cut
// is not altered by later arrivals or cuts, and every callback fires once.
func ZZ_C06Batch(shape int) {
	n, m := shape%6, shape/6+1
	b := NewBatcher[uint64](func(ctx context.Context, items ...uint64) error { return nil }, 1, m)
	var want []uint64
	fired := map[int]int{}
	add := func() {
		k := len(want)
		v := verifhook.Uint64(fmt.Sprintf("item%d", k))
		want = append(want, v)
		// what Append does, without waking the runner
		b.mu.Lock()
		b.pending = append(b.pending, &pending[uint64]{object: v, callback: func() { fired[k]++ }})
		b.mu.Unlock()
	}
	for i := 0; i < n; i++ {
		add()
	}
	var cuts []*batcherJob[uint64]
	late := 2
	for step := 0; step < 12; step++ {
		j := b.nextBatch()
		if j == nil {
			if late == 0 {
				break
			}
			late--
			add()
			continue
		}
		cuts = append(cuts, j)
		if late > 0 {
			late--
			add()
		}
	}
	verifhook.Reach("drained")
	verifhook.Assert(b.nextBatch() == nil, "C06 items are left pending after the queue was drained")
	pos := 0
	for _, j := range cuts {
		verifhook.Assert(len(j.items) >= 1 && len(j.items) <= m, "C06 a batch is empty or larger than the maximum batch size")
		for _, it := range j.items {
			verifhook.Assert(pos < len(want), "C06 more items were batched than were appended")
			if pos < len(want) {
				verifhook.Assert(it.object == want[pos], "C06 batches do not carry the appended items once each, in arrival order")
			}
			pos++
		}
		j.Terminated()
	}
	verifhook.Assert(pos == len(want), "C06 an appended item is in no batch")
	for k := range want {
		verifhook.Assert(fired[k] == 1, "C06 the callback of an item does not fire exactly once")
	}
	verifhook.Canary()
}
