// Command zz_verifhelper runs the repository's Numscript compiler natively for the
// symbolic engine: one JSON request per line on stdin, one JSON answer per line on
// stdout. Programs are dumped generically (by reflection) so that the engine can lift
// them into values of the repository's own types.
package main

import (
	"bufio"
	"encoding/json"
	"fmt"
	"math/big"
	"os"
	"reflect"
	"sort"

	"github.com/formancehq/ledger/internal/machine/script/compiler"
)

type request struct {
	Script string `json:"script"`
}

type answer struct {
	Err     string `json:"err,omitempty"`
	Panic   string `json:"panic,omitempty"`
	Program any    `json:"program,omitempty"`
}

var (
	bigIntT = reflect.TypeOf(big.Int{})
	bigRatT = reflect.TypeOf(big.Rat{})
)

func typeName(t reflect.Type) string {
	if t.Name() != "" && t.PkgPath() != "" {
		return t.PkgPath() + "." + t.Name()
	}
	switch t.Kind() {
	case reflect.Ptr:
		return "*" + typeName(t.Elem())
	case reflect.Slice:
		return "[]" + typeName(t.Elem())
	}
	return t.String()
}

func dump(v reflect.Value) any {
	t := v.Type()
	if t.ConvertibleTo(bigIntT) && t.Kind() == reflect.Struct {
		b := v.Convert(bigIntT).Interface().(big.Int)
		return map[string]any{"k": "big", "v": b.String()}
	}
	if t.ConvertibleTo(bigRatT) && t.Kind() == reflect.Struct {
		r := v.Convert(bigRatT).Interface().(big.Rat)
		return map[string]any{"k": "rat", "v": r.String()}
	}
	switch t.Kind() {
	case reflect.Bool:
		return map[string]any{"k": "bool", "v": v.Bool()}
	case reflect.Int, reflect.Int8, reflect.Int16, reflect.Int32, reflect.Int64:
		return map[string]any{"k": "int", "v": fmt.Sprint(v.Int())}
	case reflect.Uint, reflect.Uint8, reflect.Uint16, reflect.Uint32, reflect.Uint64, reflect.Uintptr:
		return map[string]any{"k": "int", "v": fmt.Sprint(v.Uint())}
	case reflect.String:
		return map[string]any{"k": "string", "v": v.String()}
	case reflect.Ptr:
		if v.IsNil() {
			return map[string]any{"k": "ptr"}
		}
		return map[string]any{"k": "ptr", "v": dump(v.Elem())}
	case reflect.Interface:
		if v.IsNil() {
			return map[string]any{"k": "iface"}
		}
		return map[string]any{"k": "iface", "t": typeName(v.Elem().Type()), "v": dump(v.Elem())}
	case reflect.Slice:
		if v.IsNil() {
			return map[string]any{"k": "slice", "nil": true}
		}
		es := make([]any, v.Len())
		for i := range es {
			es[i] = dump(v.Index(i))
		}
		return map[string]any{"k": "slice", "e": es, "cap": v.Cap()}
	case reflect.Array:
		es := make([]any, v.Len())
		for i := range es {
			es[i] = dump(v.Index(i))
		}
		return map[string]any{"k": "array", "e": es}
	case reflect.Map:
		if v.IsNil() {
			return map[string]any{"k": "map", "nil": true}
		}
		keys := v.MapKeys()
		sort.Slice(keys, func(i, j int) bool { return fmt.Sprint(keys[i]) < fmt.Sprint(keys[j]) })
		es := make([]any, 0, len(keys))
		for _, k := range keys {
			es = append(es, []any{dump(k), dump(v.MapIndex(k))})
		}
		return map[string]any{"k": "map", "e": es}
	case reflect.Struct:
		fs := make([]any, t.NumField())
		for i := range fs {
			f := v.Field(i)
			if !f.CanInterface() {
				// unexported: read through an addressable copy
				c := reflect.New(t).Elem()
				c.Set(v)
				f = c.Field(i)
				f = reflect.NewAt(f.Type(), f.Addr().UnsafePointer()).Elem()
			}
			fs[i] = dump(f)
		}
		return map[string]any{"k": "struct", "f": fs}
	}
	panic("verifhelper: cannot dump " + t.String())
}

func handle(req request) (ans answer) {
	defer func() {
		if r := recover(); r != nil {
			ans = answer{Panic: fmt.Sprint(r)}
		}
	}()
	p, err := compiler.Compile(req.Script)
	if err != nil {
		return answer{Err: err.Error()}
	}
	return answer{Program: dump(reflect.ValueOf(p))}
}

func main() {
	in := bufio.NewReaderSize(os.Stdin, 1<<20)
	out := bufio.NewWriter(os.Stdout)
	for {
		line, err := in.ReadBytes('\n')
		if len(line) > 0 {
			var req request
			if e := json.Unmarshal(line, &req); e != nil {
				fmt.Fprintln(os.Stderr, "bad request:", e)
				os.Exit(2)
			}
			b, _ := json.Marshal(handle(req))
			out.Write(b)
			out.WriteByte('\n')
			out.Flush()
		}
		if err != nil {
			return
		}
	}
}
