#!/bin/bash
# usage: run_seed.sh <patch.diff> <check ids...> : applies the patch to /repo, runs the quick checks, undoes it.
set -u
P=$1; shift
cd /repo && git stash list >/dev/null
git -C /repo apply $P || { echo "patch does not apply to /repo"; exit 2; }
trap 'git -C /repo checkout -- . ' EXIT
for id in "$@"; do
  cd /verif && ./check $id quick > /tmp/seedrun_$id.log 2>&1; rc=$?
  echo "check $id exit=$rc  $(grep -c '^VIOLATION' /tmp/seedrun_$id.log) VIOLATION line(s); $(grep -E '^(INCONCLUSIVE|CHECK-ERROR|UNCONFIRMED|TRANSLATOR|CANARY|REPLAY-ERROR)' /tmp/seedrun_$id.log | cut -c1-160 | sort | uniq -c | head -3 | tr '\n' ';')"
  grep -A2 '^VIOLATION' /tmp/seedrun_$id.log | head -4 | cut -c1-300
done
