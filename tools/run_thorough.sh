#!/bin/bash
# runs thorough checks in turn, one summary line each (used with `vp run`); each is capped
cd "$(dirname "$0")/.."
IDS=${*:-C15 C14 C16 C13 C17 C19 C18 C10 C09 C20 C07 C11 C02 C06 C01 C03 C12 C08 C05}
for id in $IDS; do
  s=$(date +%s)
  timeout 3000 ./check $id thorough > /tmp/thorough_$id.log 2>&1; rc=$?
  e=$(date +%s)
  echo "$id rc=$rc $((e-s))s $(tail -1 /tmp/thorough_$id.log | cut -c1-330)"
  grep -E "^(INCONCLUSIVE|TRANSLATOR|CANARY|REPLAY-ERROR|VIOLATION|UNCONFIRMED|CHECK-ERROR)" /tmp/thorough_$id.log | cut -c1-200 | sort | uniq -c | head -5
done
