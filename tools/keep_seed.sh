#!/bin/bash
# usage: keep_seed.sh <seed-id> <out-dir> <property> <demo dir> "<needs>" "<ran>" "<caught by>"
set -e
D=/verif/seeded/$1; mkdir -p $D
cp $2/patch.diff $D/patch.diff; cp $2/zz_demo_test.go $D/zz_demo_test.go; cp $2/notes.md $D/agent_notes.md 2>/dev/null || true
python3 - "$@" <<'PY'
import json,sys
sid,out,prop,demodir,needs,ran,caught=sys.argv[1:8]
json.dump({"seed":sid,"breaks_property":prop,"demo_placed_in":demodir,"needs_to_manifest":needs,"what_was_run":ran,"caught_by":caught},open(f"/verif/seeded/{sid}/meta.json","w"),indent=1)
PY
echo kept $D
