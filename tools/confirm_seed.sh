#!/bin/bash
# usage: confirm_seed.sh <out-dir with patch.diff, zz_demo_test.go, notes.md> <demo package dir relative to repo root> <test packages...>
# Confirms in a fresh scratch worktree: builds with the patch, existing tests pass with it,
# the demo passes without the patch and fails with it.
set -u
OUT=$1; DEMODIR=$2; shift 2
export GOFLAGS=-mod=mod GOPROXY=off GOSUMDB=off GOTOOLCHAIN=local
WT=/tmp/wt/confirm-$$
git -C /repo worktree add -q --detach $WT HEAD || exit 2
trap 'git -C /repo worktree remove --force $WT >/dev/null 2>&1' EXIT
cd $WT
MOD=.
case "$DEMODIR" in libs/*) MOD=libs; REL=${DEMODIR#libs/};; *) REL=$DEMODIR;; esac
cp $OUT/zz_demo_test.go $WT/$DEMODIR/zz_demo_test.go
echo "== demo WITHOUT the change (must pass)"
(cd $MOD && go test -vet=off -count=1 -run . ./$REL 2>&1 | tail -3)
W0=${PIPESTATUS[0]}
(cd $MOD && go test -vet=off -count=1 ./$REL >/dev/null 2>&1); W0=$?
git apply $OUT/patch.diff || { echo "PATCH DOES NOT APPLY"; exit 2; }
echo "== build with the change"
go build ./... && (cd libs && go build ./...) || { echo "BUILD FAILS"; exit 2; }
echo "== demo WITH the change (must fail)"
(cd $MOD && go test -vet=off -count=1 ./$REL 2>&1 | grep -E "^(--- FAIL|FAIL|ok|panic)" | head -5)
(cd $MOD && go test -vet=off -count=1 ./$REL >/dev/null 2>&1); W1=$?
rm $WT/$DEMODIR/zz_demo_test.go
echo "== existing tests with the change (must pass)"
E=0
for p in "$@"; do
  case "$p" in libs/*) (cd libs && go test -vet=off -count=1 ./${p#libs/} 2>&1 | grep -v "no test files" | tail -2); (cd libs && go test -vet=off -count=1 ./${p#libs/} >/dev/null 2>&1) || E=1;;
  *) go test -vet=off -count=1 ./$p 2>&1 | grep -v "no test files" | tail -3; go test -vet=off -count=1 ./$p >/dev/null 2>&1 || E=1;; esac
done
echo "SUMMARY demo_without=$W0 (want 0) demo_with=$W1 (want !=0) existing=$E (want 0)"
