#!/bin/bash
# runs every quick check in turn, one summary line each
cd "$(dirname "$0")/.."
IDS=${*:-C01 C02 C03 C05 C06 C07 C08 C09 C10 C11 C12 C13 C14 C15 C16 C17 C18 C19 C20}
for id in $IDS; do
  s=$(date +%s)
  ./check $id quick > /tmp/quick_$id.log 2>&1; rc=$?
  e=$(date +%s)
  echo "$id rc=$rc $((e-s))s $(tail -1 /tmp/quick_$id.log | cut -c1-330)"
  grep -E "^(INCONCLUSIVE|TRANSLATOR|CANARY|REPLAY-ERROR|VIOLATION|UNCONFIRMED|CHECK-ERROR|KNOWN)" /tmp/quick_$id.log | cut -c1-200 | sort | uniq -c | head -5
done
