#!/bin/bash
# usage: prep_round.sh <suffix> <ids...>  -- creates /tmp/wt/<id><suffix> worktrees and prompts
suf=$1; shift
mkdir -p /tmp/wt
for id in "$@"; do
git -C /repo worktree add -q --detach /tmp/wt/${id}${suf} HEAD
python3 - $id $suf <<'PY'
import json,sys,glob,re
pid,suf=sys.argv[1],sys.argv[2]
props=[json.loads(l) for l in open('/verif/properties.jsonl')]
p=[x for x in props if x['id']==pid][0]
txt=f"{p['id']}: {p['title']}\n\nStatement: {p['statement']}\n\nHolds: {p['quantifier']['text']}\n\nCode anchors: files {', '.join(p['anchors']['files'])}\nMechanisms that make it hold:\n" + "\n".join(f"  - {m['name']} ({m['where']})" for m in p['anchors']['mechanism'])
t=open('/verif/tools/AGENT_PROMPT.txt').read().replace('__ID__',pid+suf).replace('__PROPERTY__',txt)
touched=set()
for d in glob.glob(f'/verif/seeded/{pid}-*/patch.diff'):
    for l in open(d):
        m=re.match(r'\+\+\+ b/(.*)',l)
        if m: touched.add(m.group(1))
funcs=set()
for d in glob.glob(f'/verif/seeded/{pid}-*/patch.diff'):
    for l in open(d):
        m=re.match(r'@@.*@@ func (.*)',l)
        if m: funcs.add(m.group(1).strip()[:80])
if touched:
    t+="\n\nNote: earlier seeded changes for this property already exist; they touched: "+", ".join(sorted(touched))+(" (in: "+"; ".join(sorted(funcs))+")" if funcs else "")+". To be useful yours must attack a DIFFERENT function and mechanism (another file among the anchors, another kind of request, an error path, the restart path, the API layer in front of the engine, encoding/decoding, a boundary value).\n"
open(f'/tmp/wt/{pid}{suf}.prompt.txt','w').write(t)
PY
done
ls /tmp/wt | grep prompt | wc -l
