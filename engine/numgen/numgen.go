// Package numgen enumerates Numscript programs up to a grammar bound and renders each
// as script text plus a Go literal of its AST (types declared in the harness file
// zz_ast.go of package vm).
package numgen

import (
	"fmt"
	"sort"
	"strings"
)

type Portion struct {
	Num, Den  int64
	Remaining bool
	Var       string
	Text      string
}

type Source struct {
	Kind   string // acc | world | max | seq
	Acc    string
	Od     string // "" | bounded | unbounded
	OdVar  string
	CapVar string
	Subs   []*Source
}

type Dest struct {
	Kind     string // acc | kept | seq | allot
	Acc      string
	CapVars  []string
	Portions []Portion
	Subs     []*Dest
}

type Stmt struct {
	Kind        string // send | sendall
	AmtVar      string
	Asset       string
	SrcAllot    bool
	SrcPortions []Portion
	Srcs        []*Source
	Dst         *Dest
}

type Shape struct {
	Name        string
	Script      string
	Stmts       []*Stmt
	Valid       bool
	Why         string
	PortionVars map[string][2]int64
}

// ---------- rendering ----------

func (p Portion) text() string {
	switch {
	case p.Remaining:
		return "remaining"
	case p.Var != "":
		return "$" + p.Var
	case p.Text != "":
		return p.Text
	}
	return fmt.Sprintf("%d/%d", p.Num, p.Den)
}

func (s *Source) text(ind string) string {
	switch s.Kind {
	case "world":
		return "@world"
	case "acc":
		switch s.Od {
		case "bounded":
			return fmt.Sprintf("@%s allowing overdraft up to $%s", s.Acc, s.OdVar)
		case "unbounded":
			return fmt.Sprintf("@%s allowing unbounded overdraft", s.Acc)
		}
		return "@" + s.Acc
	case "max":
		return fmt.Sprintf("max $%s from %s", s.CapVar, s.Subs[0].text(ind))
	case "seq":
		var sb strings.Builder
		sb.WriteString("{\n")
		for _, x := range s.Subs {
			sb.WriteString(ind + "  " + x.text(ind+"  ") + "\n")
		}
		sb.WriteString(ind + "}")
		return sb.String()
	}
	panic("source kind " + s.Kind)
}

func (d *Dest) text(ind string) string {
	switch d.Kind {
	case "acc":
		return "@" + d.Acc
	case "seq":
		var sb strings.Builder
		sb.WriteString("{\n")
		for i, x := range d.Subs {
			if i < len(d.Subs)-1 {
				sb.WriteString(fmt.Sprintf("%s  max $%s %s\n", ind, d.CapVars[i], x.keptOrTo(ind+"  ")))
			} else {
				sb.WriteString(fmt.Sprintf("%s  remaining %s\n", ind, x.keptOrTo(ind+"  ")))
			}
		}
		sb.WriteString(ind + "}")
		return sb.String()
	case "allot":
		var sb strings.Builder
		sb.WriteString("{\n")
		for i, x := range d.Subs {
			sb.WriteString(fmt.Sprintf("%s  %s %s\n", ind, d.Portions[i].text(), x.keptOrTo(ind+"  ")))
		}
		sb.WriteString(ind + "}")
		return sb.String()
	}
	panic("dest kind " + d.Kind)
}

func (d *Dest) keptOrTo(ind string) string {
	if d.Kind == "kept" {
		return "kept"
	}
	return "to " + d.text(ind)
}

func (st *Stmt) text() string {
	var sb strings.Builder
	if st.Kind == "sendall" {
		sb.WriteString(fmt.Sprintf("send [%s *] (\n", st.Asset))
	} else {
		sb.WriteString(fmt.Sprintf("send $%s (\n", st.AmtVar))
	}
	sb.WriteString("  source = ")
	if st.SrcAllot {
		sb.WriteString("{\n")
		for i, s := range st.Srcs {
			sb.WriteString(fmt.Sprintf("    %s from %s\n", st.SrcPortions[i].text(), s.text("    ")))
		}
		sb.WriteString("  }")
	} else {
		sb.WriteString(st.Srcs[0].text("  "))
	}
	sb.WriteString("\n  destination = " + st.Dst.text("  ") + "\n)")
	return sb.String()
}

func (s *Source) walk(f func(*Source)) {
	f(s)
	for _, x := range s.Subs {
		x.walk(f)
	}
}

func (d *Dest) walk(f func(*Dest)) {
	f(d)
	for _, x := range d.Subs {
		x.walk(f)
	}
}

// MonVars lists the monetary variables of a shape in declaration order.
func (sh *Shape) MonVars() []string {
	var out []string
	seen := map[string]bool{}
	add := func(v string) {
		if v != "" && !seen[v] {
			seen[v] = true
			out = append(out, v)
		}
	}
	for _, st := range sh.Stmts {
		add(st.AmtVar)
		for _, s := range st.Srcs {
			s.walk(func(x *Source) { add(x.OdVar); add(x.CapVar) })
		}
		st.Dst.walk(func(x *Dest) {
			for _, c := range x.CapVars {
				add(c)
			}
		})
	}
	return out
}

func (sh *Shape) portionVarNames() []string {
	var out []string
	for k := range sh.PortionVars {
		out = append(out, k)
	}
	sort.Strings(out)
	return out
}

func (sh *Shape) render() {
	var sb strings.Builder
	mv := sh.MonVars()
	pv := sh.portionVarNames()
	if len(mv)+len(pv) > 0 {
		sb.WriteString("vars {\n")
		for _, v := range mv {
			sb.WriteString("monetary $" + v + "\n")
		}
		for _, v := range pv {
			sb.WriteString("portion $" + v + "\n")
		}
		sb.WriteString("}\n")
	}
	for i, st := range sh.Stmts {
		if i > 0 {
			sb.WriteString("\n")
		}
		sb.WriteString(st.text())
	}
	sb.WriteString("\n")
	sh.Script = sb.String()
}

// ---------- validity (the language's static rules as read from the grammar/compiler docs) ----------

type srcInfo struct {
	fallback bool
	emptied  map[string]bool
}

func (s *Source) check(isAll bool) (srcInfo, string) {
	switch s.Kind {
	case "world":
		if isAll {
			return srcInfo{}, "send-all from unbounded source"
		}
		return srcInfo{fallback: true, emptied: map[string]bool{"world": true}}, ""
	case "acc":
		fb := s.Od == "unbounded"
		if fb && isAll {
			return srcInfo{}, "send-all from unbounded source"
		}
		return srcInfo{fallback: fb, emptied: map[string]bool{s.Acc: true}}, ""
	case "max":
		_, why := s.Subs[0].check(false)
		return srcInfo{emptied: map[string]bool{}}, why
	case "seq":
		inf := srcInfo{emptied: map[string]bool{}}
		for i, x := range s.Subs {
			xi, why := x.check(isAll)
			if why != "" {
				return inf, why
			}
			if xi.fallback && i != len(s.Subs)-1 {
				return inf, "unbounded subsource not last"
			}
			inf.fallback = xi.fallback
			// deterministic order of detection is irrelevant for validity
			for a := range xi.emptied {
				if inf.emptied[a] {
					return inf, "account already empty at this stage"
				}
				inf.emptied[a] = true
			}
		}
		return inf, ""
	}
	panic("kind")
}

func ratCmp1(n, d int64) int { // compare n/d with 1
	switch {
	case n > d:
		return 1
	case n < d:
		return -1
	}
	return 0
}

func checkPortions(ps []Portion) string {
	var n, d int64 = 0, 1
	hasVar, hasRem := false, false
	for _, p := range ps {
		switch {
		case p.Remaining:
			if hasRem {
				return "two remaining"
			}
			hasRem = true
		case p.Var != "":
			hasVar = true
		default:
			n, d = n*p.Den+p.Num*d, d*p.Den
		}
	}
	c := ratCmp1(n, d)
	switch {
	case c > 0:
		return "portions exceed 100%"
	case c < 0 && !hasRem:
		return "portions might be less than 100%"
	case c == 0 && hasVar:
		return "portions might exceed 100%"
	case c == 0 && hasRem:
		return "known portions already 100%"
	}
	return ""
}

func (d *Dest) check() string {
	if d.Kind == "allot" {
		if why := checkPortions(d.Portions); why != "" {
			return why
		}
	}
	for _, x := range d.Subs {
		if why := x.check(); why != "" {
			return why
		}
	}
	return ""
}

func (sh *Shape) validate() {
	sh.Valid = true
	for _, st := range sh.Stmts {
		isAll := st.Kind == "sendall"
		if st.SrcAllot {
			if isAll {
				sh.Valid, sh.Why = false, "send-all from allotment"
				return
			}
			if why := checkPortions(st.SrcPortions); why != "" {
				sh.Valid, sh.Why = false, why
				return
			}
		}
		for _, s := range st.Srcs {
			if _, why := s.check(isAll); why != "" {
				sh.Valid, sh.Why = false, why
				return
			}
		}
		if why := st.Dst.check(); why != "" {
			sh.Valid, sh.Why = false, why
			return
		}
	}
}

// ---------- Go literal ----------

func goPortions(ps []Portion) string {
	var parts []string
	for _, p := range ps {
		parts = append(parts, fmt.Sprintf("{Num: %d, Den: %d, Remaining: %v, Var: %q}", p.Num, p.Den, p.Remaining, p.Var))
	}
	return "[]zzPortion{" + strings.Join(parts, ", ") + "}"
}

func (s *Source) goLit() string {
	var subs []string
	for _, x := range s.Subs {
		subs = append(subs, x.goLit())
	}
	return fmt.Sprintf("{Kind: %q, Acc: %q, Od: %q, OdVar: %q, CapVar: %q, Subs: []zzSource{%s}}", s.Kind, s.Acc, s.Od, s.OdVar, s.CapVar, strings.Join(subs, ", "))
}

func (d *Dest) goLit() string {
	var subs []string
	for _, x := range d.Subs {
		subs = append(subs, x.goLit())
	}
	caps := fmt.Sprintf("%#v", d.CapVars)
	if d.CapVars == nil {
		caps = "nil"
	}
	return fmt.Sprintf("{Kind: %q, Acc: %q, CapVars: %s, Portions: %s, Subs: []zzDest{%s}}", d.Kind, d.Acc, caps, goPortions(d.Portions), strings.Join(subs, ", "))
}

func (st *Stmt) goLit() string {
	var srcs []string
	for _, s := range st.Srcs {
		srcs = append(srcs, s.goLit())
	}
	return fmt.Sprintf("{Kind: %q, AmtVar: %q, Asset: %q, SrcAllot: %v, SrcPortions: %s, Srcs: []zzSource{%s}, Dst: zzDest%s}",
		st.Kind, st.AmtVar, st.Asset, st.SrcAllot, goPortions(st.SrcPortions), strings.Join(srcs, ", "), st.Dst.goLit())
}

func (sh *Shape) goLit() string {
	var stmts []string
	for _, st := range sh.Stmts {
		stmts = append(stmts, st.goLit())
	}
	var pv []string
	for _, k := range sh.portionVarNames() {
		v := sh.PortionVars[k]
		pv = append(pv, fmt.Sprintf("%q: {%d, %d}", k, v[0], v[1]))
	}
	var mv []string
	for _, v := range sh.MonVars() {
		mv = append(mv, fmt.Sprintf("%q", v))
	}
	var va []string
	for _, st := range sh.Stmts {
		one := &Shape{Stmts: []*Stmt{st}}
		for _, v := range one.MonVars() {
			va = append(va, fmt.Sprintf("%q: %q", v, st.Asset))
		}
	}
	return fmt.Sprintf("{Name: %q, Valid: %v, Why: %q, MonVars: []string{%s}, VarAsset: map[string]string{%s}, PortionVars: map[string][2]int64{%s}, Script: %q,\n\t\tStmts: []zzStmt{%s}}",
		sh.Name, sh.Valid, sh.Why, strings.Join(mv, ", "), strings.Join(va, ", "), strings.Join(pv, ", "), sh.Script, strings.Join(stmts, ", "))
}

// GoFile renders the generated shape table.
func GoFile(pkg, varName string, shapes []*Shape) string {
	var sb strings.Builder
	sb.WriteString("// Code generated by symgo numgen. DO NOT EDIT.\n\npackage " + pkg + "\n\nvar " + varName + " = []zzShape{\n")
	for _, sh := range shapes {
		sb.WriteString("\t" + sh.goLit() + ",\n")
	}
	sb.WriteString("}\n")
	return sb.String()
}

// ---------- enumeration ----------

type Bounds struct {
	MaxLeaves   int  // per source
	Depth       int  // source nesting depth
	TwoSends    bool // include two-statement programs
	RichDest    bool
	AllLeafMix  bool // every combination of leaf kinds (else at most one special leaf)
}

type varGen struct{ n int }

func (g *varGen) next(prefix string) string {
	g.n++
	return fmt.Sprintf("%s%d", prefix, g.n)
}

// skeletons returns source tree shapes (Kind set, leaves unassigned) with leaf count.
type skel struct {
	kind string
	subs []*skel
}

func (s *skel) leaves() int {
	if s.kind == "leaf" {
		return 1
	}
	n := 0
	for _, x := range s.subs {
		n += x.leaves()
	}
	return n
}

func skeletons(depth, maxLeaves int) []*skel {
	if depth == 0 {
		return []*skel{{kind: "leaf"}}
	}
	lower := skeletons(depth-1, maxLeaves)
	out := []*skel{{kind: "leaf"}}
	for _, s := range lower {
		if s.leaves() <= maxLeaves {
			out = append(out, &skel{kind: "max", subs: []*skel{s}})
		}
	}
	for _, a := range lower {
		for _, b := range lower {
			if a.leaves()+b.leaves() <= maxLeaves {
				out = append(out, &skel{kind: "seq", subs: []*skel{a, b}})
			}
			for _, c := range lower {
				if a.leaves()+b.leaves()+c.leaves() <= maxLeaves {
					out = append(out, &skel{kind: "seq", subs: []*skel{a, b, c}})
				}
			}
		}
	}
	// dedupe structurally
	seen := map[string]bool{}
	var uniq []*skel
	for _, s := range out {
		k := s.key()
		if !seen[k] {
			seen[k] = true
			uniq = append(uniq, s)
		}
	}
	return uniq
}

func (s *skel) key() string {
	if s.kind == "leaf" {
		return "L"
	}
	var parts []string
	for _, x := range s.subs {
		parts = append(parts, x.key())
	}
	return s.kind + "(" + strings.Join(parts, ",") + ")"
}

var leafKinds = []string{"plain", "bounded", "unbounded", "world"}

// restricted growth strings over n positions with at most k blocks
func partitions(n, k int) [][]int {
	var out [][]int
	cur := make([]int, n)
	var rec func(i, maxUsed int)
	rec = func(i, maxUsed int) {
		if i == n {
			out = append(out, append([]int(nil), cur...))
			return
		}
		for v := 0; v <= maxUsed+1 && v < k; v++ {
			cur[i] = v
			m := maxUsed
			if v > m {
				m = v
			}
			rec(i+1, m)
		}
	}
	rec(0, -1)
	return out
}

var accNames = []string{"a", "b", "c", "d"}

// instantiate builds a Source from a skeleton, leaf kinds and account assignment.
func instantiate(s *skel, kinds []string, accs []int, li *int, g *varGen) *Source {
	switch s.kind {
	case "leaf":
		k := kinds[*li]
		a := accNames[accs[*li]]
		*li++
		switch k {
		case "world":
			return &Source{Kind: "world"}
		case "bounded":
			return &Source{Kind: "acc", Acc: a, Od: "bounded", OdVar: g.next("o")}
		case "unbounded":
			return &Source{Kind: "acc", Acc: a, Od: "unbounded"}
		}
		return &Source{Kind: "acc", Acc: a}
	case "max":
		cv := g.next("c")
		return &Source{Kind: "max", CapVar: cv, Subs: []*Source{instantiate(s.subs[0], kinds, accs, li, g)}}
	case "seq":
		out := &Source{Kind: "seq"}
		for _, x := range s.subs {
			out.Subs = append(out.Subs, instantiate(x, kinds, accs, li, g))
		}
		return out
	}
	panic("skel")
}

func kindVectors(n int, all bool) [][]string {
	var out [][]string
	cur := make([]string, n)
	var rec func(i, specials int)
	rec = func(i, specials int) {
		if i == n {
			out = append(out, append([]string(nil), cur...))
			return
		}
		for _, k := range leafKinds {
			sp := specials
			if k != "plain" {
				sp++
			}
			if !all && sp > 1 {
				continue
			}
			cur[i] = k
			rec(i+1, sp)
		}
	}
	rec(0, 0)
	return out
}

// Sources enumerates concrete sources within the bounds. Each call of the returned
// constructors makes fresh variable names from g.
type srcMaker func(g *varGen) *Source

func Sources(b Bounds) []srcMaker {
	var out []srcMaker
	seen := map[string]bool{}
	for _, sk := range skeletons(b.Depth, b.MaxLeaves) {
		n := sk.leaves()
		if n > b.MaxLeaves {
			continue
		}
		for _, kv := range kindVectors(n, b.AllLeafMix) {
			for _, pt := range partitions(n, len(accNames)) {
				// world leaves carry no account: canonicalise by requiring their slot to equal
				// the smallest admissible value (avoid duplicates)
				sk, kv, pt := sk, kv, pt
				probe := instantiate(sk, kv, pt, new(int), &varGen{})
				key := probe.text("")
				if seen[key] {
					continue
				}
				seen[key] = true
				out = append(out, func(g *varGen) *Source { return instantiate(sk, kv, pt, new(int), g) })
			}
		}
	}
	return out
}

type dstMaker func(g *varGen) (*Dest, map[string][2]int64)

func acc(a string) *Dest { return &Dest{Kind: "acc", Acc: a} }
func kept() *Dest        { return &Dest{Kind: "kept"} }

func P(n, d int64) Portion        { return Portion{Num: n, Den: d} }
func PT(t string, n, d int64) Portion { return Portion{Num: n, Den: d, Text: t} }
func PR() Portion                 { return Portion{Remaining: true} }
func PV(v string) Portion         { return Portion{Var: v} }

// Dests returns destination constructors. x,y are fresh accounts; a is the first source account.
func Dests(rich bool) []dstMaker {
	none := map[string][2]int64(nil)
	ds := []dstMaker{
		func(g *varGen) (*Dest, map[string][2]int64) { return acc("x"), none },
		func(g *varGen) (*Dest, map[string][2]int64) { return acc("a"), none },
		func(g *varGen) (*Dest, map[string][2]int64) {
			return &Dest{Kind: "allot", Portions: []Portion{P(1, 3), P(2, 3)}, Subs: []*Dest{acc("x"), acc("y")}}, none
		},
		func(g *varGen) (*Dest, map[string][2]int64) {
			return &Dest{Kind: "seq", CapVars: []string{g.next("d")}, Subs: []*Dest{acc("x"), acc("y")}}, none
		},
		func(g *varGen) (*Dest, map[string][2]int64) {
			return &Dest{Kind: "allot", Portions: []Portion{PT("50%", 1, 2), PR()}, Subs: []*Dest{acc("x"), kept()}}, none
		},
		func(g *varGen) (*Dest, map[string][2]int64) {
			return &Dest{Kind: "seq", CapVars: []string{g.next("d")}, Subs: []*Dest{kept(), acc("b")}}, none
		},
	}
	if rich {
		ds = append(ds,
			func(g *varGen) (*Dest, map[string][2]int64) {
				return &Dest{Kind: "allot", Portions: []Portion{P(1, 7), PT("33.3%", 333, 1000), PR()}, Subs: []*Dest{acc("x"), acc("y"), acc("a")}}, none
			},
			func(g *varGen) (*Dest, map[string][2]int64) {
				pv := g.next("p")
				return &Dest{Kind: "allot", Portions: []Portion{P(1, 7), PV(pv), PR()}, Subs: []*Dest{acc("x"), acc("y"), kept()}}, map[string][2]int64{pv: {2, 5}}
			},
			func(g *varGen) (*Dest, map[string][2]int64) {
				return &Dest{Kind: "seq", CapVars: []string{g.next("d"), g.next("d")}, Subs: []*Dest{acc("x"), acc("y"), kept()}}, none
			},
			func(g *varGen) (*Dest, map[string][2]int64) {
				inner := &Dest{Kind: "allot", Portions: []Portion{P(1, 2), P(1, 2)}, Subs: []*Dest{acc("x"), acc("y")}}
				return &Dest{Kind: "seq", CapVars: []string{g.next("d")}, Subs: []*Dest{inner, acc("a")}}, none
			},
			func(g *varGen) (*Dest, map[string][2]int64) {
				inner := &Dest{Kind: "seq", CapVars: []string{g.next("d")}, Subs: []*Dest{acc("x"), kept()}}
				return &Dest{Kind: "allot", Portions: []Portion{P(2, 3), P(1, 3)}, Subs: []*Dest{inner, acc("y")}}, none
			},
			// invalid allotments (negative class)
			func(g *varGen) (*Dest, map[string][2]int64) {
				return &Dest{Kind: "allot", Portions: []Portion{P(1, 3), P(1, 3)}, Subs: []*Dest{acc("x"), acc("y")}}, none
			},
			func(g *varGen) (*Dest, map[string][2]int64) {
				return &Dest{Kind: "allot", Portions: []Portion{P(2, 3), P(2, 3)}, Subs: []*Dest{acc("x"), acc("y")}}, none
			},
			func(g *varGen) (*Dest, map[string][2]int64) {
				return &Dest{Kind: "allot", Portions: []Portion{P(1, 2), P(1, 2), PR()}, Subs: []*Dest{acc("x"), acc("y"), kept()}}, none
			},
			// fractions written with leading zeros are decimal like every number of the language
			func(g *varGen) (*Dest, map[string][2]int64) {
				return &Dest{Kind: "allot", Portions: []Portion{PT("1/010", 1, 10), PR()}, Subs: []*Dest{acc("x"), acc("y")}}, none
			},
			func(g *varGen) (*Dest, map[string][2]int64) {
				return &Dest{Kind: "allot", Portions: []Portion{PT("010/0100", 10, 100), PT("09.50%", 95, 1000), PR()}, Subs: []*Dest{acc("x"), acc("y"), acc("a")}}, none
			},
		)
	}
	return ds
}

func newShape(name string, stmts []*Stmt, pv map[string][2]int64) *Shape {
	sh := &Shape{Name: name, Stmts: stmts, PortionVars: map[string][2]int64{}}
	for k, v := range pv {
		sh.PortionVars[k] = v
	}
	sh.render()
	sh.validate()
	return sh
}

// Generate enumerates the shapes for a tier.
func Generate(tier string) []*Shape {
	if tier == "thorough" {
		// everything the quick tier has, then a fixed sample of programs over sources of
		// exactly three leaves
		shapes := Generate("quick")
		for _, sh := range generate("thorough") {
			sh.Name = fmt.Sprintf("s%04d", len(shapes))
			shapes = append(shapes, sh)
		}
		return shapes
	}
	return generate(tier)
}

func generate(tier string) []*Shape {
	var shapes []*Shape
	add := func(sh *Shape) {
		sh.Name = fmt.Sprintf("s%04d", len(shapes))
		shapes = append(shapes, sh)
	}
	b := Bounds{MaxLeaves: 2, Depth: 2}
	srcs := Sources(b)
	if tier == "thorough" {
		// only the sources the quick tier does not have (three leaves)
		have := map[string]bool{}
		for _, sm := range srcs {
			have[sm(&varGen{}).text("")] = true
		}
		var extra []srcMaker
		for _, sm := range Sources(Bounds{MaxLeaves: 3, Depth: 2, AllLeafMix: false}) {
			if !have[sm(&varGen{}).text("")] {
				extra = append(extra, sm)
			}
		}
		srcs = extra
	}
	dsts := Dests(true)
	simple := Dests(false)

	// Three-leaf sources met with every destination are about 11k programs, which does not
	// finish within an hour per property: the thorough tier keeps one combination in
	// sixteen (a fixed stride, so the set is the same on every run).
	pick := 0
	keep := func() bool {
		pick++
		return tier != "thorough" || pick%16 == 0
	}
	// (1) every source × the simple destinations, send $m
	for _, sm := range srcs {
		for di, dm := range simple {
			if tier != "thorough" && di >= 4 {
				continue
			}
			if !keep() {
				continue
			}
			g := &varGen{}
			s := sm(g)
			d, pv := dm(g)
			add(newShape("", []*Stmt{{Kind: "send", AmtVar: "m", Asset: "USD/2", Srcs: []*Source{s}, Dst: d}}, pv))
		}
	}
	// (2) a reduced source list × every destination (rich)
	for i, sm := range srcs {
		if tier != "thorough" && i%7 != 0 {
			continue
		}
		for _, dm := range dsts[len(simple):] {
			if !keep() {
				continue
			}
			g := &varGen{}
			s := sm(g)
			d, pv := dm(g)
			add(newShape("", []*Stmt{{Kind: "send", AmtVar: "m", Asset: "USD/2", Srcs: []*Source{s}, Dst: d}}, pv))
		}
	}
	// (3) send-all
	for i, sm := range srcs {
		if tier != "thorough" && i%3 != 0 {
			continue
		}
		if !keep() {
			continue
		}
		g := &varGen{}
		s := sm(g)
		d, pv := dsts[i%len(dsts)](g)
		add(newShape("", []*Stmt{{Kind: "sendall", Asset: "USD/2", Srcs: []*Source{s}, Dst: d}}, pv))
	}
	if tier == "thorough" {
		return shapes // classes (4)-(7) come with the quick part
	}
	// (4) allotment sources: portion vectors × small sub-sources
	small := []srcMaker{
		func(g *varGen) *Source { return &Source{Kind: "acc", Acc: "a"} },
		func(g *varGen) *Source { return &Source{Kind: "acc", Acc: "b", Od: "bounded", OdVar: g.next("o")} },
		func(g *varGen) *Source { return &Source{Kind: "acc", Acc: "c", Od: "unbounded"} },
		func(g *varGen) *Source { return &Source{Kind: "world"} },
		func(g *varGen) *Source {
			return &Source{Kind: "max", CapVar: g.next("c"), Subs: []*Source{{Kind: "acc", Acc: "a"}}}
		},
		func(g *varGen) *Source {
			return &Source{Kind: "seq", Subs: []*Source{{Kind: "acc", Acc: "a"}, {Kind: "acc", Acc: "b"}}}
		},
	}
	pvecs := [][]Portion{
		{P(1, 3), P(2, 3)},
		{PT("10%", 1, 10), PR()},
		{P(1, 2), P(1, 3)},       // invalid: < 100%
		{P(1, 2), PV("q"), PR()}, // variable portion
		{P(1, 7), PT("33.3%", 333, 1000), PR()},
	}
	for vi, pvv := range pvecs {
		if tier != "thorough" && len(pvv) > 2 && vi == 4 {
			continue
		}
		for i := range small {
			for j := range small {
				if tier != "thorough" && (i+j)%2 == 1 {
					continue
				}
				g := &varGen{}
				ss := []*Source{small[i](g), small[j](g)}
				for len(ss) < len(pvv) {
					ss = append(ss, &Source{Kind: "acc", Acc: "d"})
				}
				d, pv := simple[(i+j+vi)%4](g)
				pvm := map[string][2]int64{}
				for k, v := range pv {
					pvm[k] = v
				}
				for _, p := range pvv {
					if p.Var != "" {
						pvm[p.Var] = [2]int64{1, 4}
					}
				}
				add(newShape("", []*Stmt{{Kind: "send", AmtVar: "m", Asset: "USD/2", SrcAllot: true, SrcPortions: pvv, Srcs: ss, Dst: d}}, pvm))
			}
		}
	}
	// (5) two sends touching the same accounts
	two := append([]srcMaker{}, small...)
	two = append(two, func(g *varGen) *Source {
		return &Source{Kind: "seq", Subs: []*Source{{Kind: "max", CapVar: g.next("c"), Subs: []*Source{{Kind: "acc", Acc: "b"}}}, {Kind: "acc", Acc: "a"}}}
	})
	for i := range two {
		for j := range two {
			if tier != "thorough" && (i*len(two)+j)%3 != 0 {
				continue
			}
			g := &varGen{}
			s1 := two[i](g)
			s2 := two[j](g)
			d1, pv1 := simple[(i+j)%4](g)
			d2 := acc("a")
			if (i+j)%2 == 0 {
				d2 = acc("z")
			}
			// first send delivers to an account the second send draws from
			if i%2 == 1 {
				d1 = acc("a")
			}
			asset2 := "USD/2"
			if (i+j)%5 == 4 {
				asset2 = "EUR"
			}
			add(newShape("", []*Stmt{
				{Kind: "send", AmtVar: "m", Asset: "USD/2", Srcs: []*Source{s1}, Dst: d1},
				{Kind: "send", AmtVar: "n", Asset: asset2, Srcs: []*Source{s2}, Dst: d2},
			}, pv1))
		}
	}
	// (6) the same account drawn repeatedly under different overdraft grants: in
	// successive sends, and inside one ordered source (one occurrence capped, as the
	// compiler demands)
	mode := func(g *varGen, a, m string) *Source {
		switch m {
		case "bounded":
			return &Source{Kind: "acc", Acc: a, Od: "bounded", OdVar: g.next("o")}
		case "unbounded":
			return &Source{Kind: "acc", Acc: a, Od: "unbounded"}
		}
		return &Source{Kind: "acc", Acc: a}
	}
	modes := []string{"", "bounded", "unbounded"}
	for _, m1 := range modes {
		for _, m2 := range modes {
			g := &varGen{}
			add(newShape("", []*Stmt{
				{Kind: "send", AmtVar: "m", Asset: "USD/2", Srcs: []*Source{mode(g, "a", m1)}, Dst: acc("x")},
				{Kind: "send", AmtVar: "n", Asset: "USD/2", Srcs: []*Source{mode(g, "a", m2)}, Dst: acc("y")},
			}, nil))
			g = &varGen{}
			capped := &Source{Kind: "max", CapVar: g.next("c"), Subs: []*Source{mode(g, "a", m1)}}
			add(newShape("", []*Stmt{{Kind: "send", AmtVar: "m", Asset: "USD/2", Srcs: []*Source{{Kind: "seq", Subs: []*Source{capped, mode(g, "a", m2), {Kind: "acc", Acc: "c"}}}}, Dst: acc("x")}}, nil))
			if m1 != "unbounded" && m2 != "unbounded" {
				g = &varGen{}
				capped = &Source{Kind: "max", CapVar: g.next("c"), Subs: []*Source{mode(g, "a", m2)}}
				add(newShape("", []*Stmt{{Kind: "sendall", Asset: "USD/2", Srcs: []*Source{{Kind: "seq", Subs: []*Source{mode(g, "a", m1), capped}}}, Dst: acc("x")}}, nil))
				// emptied, credited in between, emptied again
				g = &varGen{}
				add(newShape("", []*Stmt{
					{Kind: "sendall", Asset: "USD/2", Srcs: []*Source{mode(g, "a", m1)}, Dst: acc("x")},
					{Kind: "send", AmtVar: "m", Asset: "USD/2", Srcs: []*Source{{Kind: "world"}}, Dst: acc("a")},
					{Kind: "sendall", Asset: "USD/2", Srcs: []*Source{mode(g, "a", m2)}, Dst: acc("y")},
				}, nil))
			}
		}
	}
	for _, ms := range [][3]string{{"unbounded", "unbounded", "bounded"}, {"bounded", "unbounded", "bounded"}, {"unbounded", "", "bounded"}, {"unbounded", "bounded", ""}} {
		g := &varGen{}
		add(newShape("", []*Stmt{
			{Kind: "send", AmtVar: "m", Asset: "USD/2", Srcs: []*Source{mode(g, "a", ms[0])}, Dst: acc("x")},
			{Kind: "send", AmtVar: "n", Asset: "USD/2", Srcs: []*Source{mode(g, "a", ms[1])}, Dst: acc("y")},
			{Kind: "send", AmtVar: "p", Asset: "USD/2", Srcs: []*Source{mode(g, "a", ms[2])}, Dst: acc("z")},
		}, nil))
	}
	// (7) @world ahead of an account inside a funding that is handed back (capped world
	// in an ordered source, world branch of a portioned source, kept parts), followed by
	// a statement that reads the account's balance again
	capWorld := func(g *varGen) *Source {
		return &Source{Kind: "max", CapVar: g.next("c"), Subs: []*Source{{Kind: "world"}}}
	}
	keptTail := func(g *varGen) *Dest {
		return &Dest{Kind: "seq", CapVars: []string{g.next("d")}, Subs: []*Dest{acc("x"), kept()}}
	}
	{
		g := &varGen{}
		add(newShape("", []*Stmt{
			{Kind: "send", AmtVar: "m", Asset: "USD/2", Srcs: []*Source{{Kind: "seq", Subs: []*Source{capWorld(g), {Kind: "acc", Acc: "a"}}}}, Dst: acc("x")},
			{Kind: "sendall", Asset: "USD/2", Srcs: []*Source{{Kind: "acc", Acc: "a"}}, Dst: acc("y")},
		}, nil))
		g = &varGen{}
		inner := &Source{Kind: "max", CapVar: g.next("c"), Subs: []*Source{{Kind: "seq", Subs: []*Source{capWorld(g), {Kind: "acc", Acc: "a"}}}}}
		add(newShape("", []*Stmt{{Kind: "send", AmtVar: "m", Asset: "USD/2", Srcs: []*Source{{Kind: "seq", Subs: []*Source{inner, {Kind: "acc", Acc: "a"}, {Kind: "acc", Acc: "b"}}}}, Dst: acc("x")}}, nil))
		for _, second := range []string{"sendall", "send"} {
			g = &varGen{}
			st2 := &Stmt{Kind: second, Asset: "USD/2", Srcs: []*Source{{Kind: "seq", Subs: []*Source{{Kind: "acc", Acc: "a"}, {Kind: "acc", Acc: "b"}}}}, Dst: acc("y")}
			if second == "send" {
				st2.AmtVar = "n"
			} else {
				st2.Srcs = []*Source{{Kind: "acc", Acc: "a"}}
			}
			add(newShape("", []*Stmt{
				{Kind: "send", AmtVar: "m", Asset: "USD/2", SrcAllot: true, SrcPortions: []Portion{P(1, 2), P(1, 2)}, Srcs: []*Source{{Kind: "world"}, {Kind: "acc", Acc: "a"}}, Dst: keptTail(g)},
				st2,
			}, nil))
			g = &varGen{}
			st3 := *st2
			add(newShape("", []*Stmt{
				{Kind: "send", AmtVar: "m", Asset: "USD/2", SrcAllot: true, SrcPortions: []Portion{P(1, 2), P(1, 2)}, Srcs: []*Source{{Kind: "acc", Acc: "a"}, {Kind: "world"}}, Dst: keptTail(g)},
				&st3,
			}, nil))
		}
	}
	return shapes
}
