// Package sym defines the SMT term language used by the symbolic interpreter.
package sym

import (
	"fmt"
	"math/big"
	"sort"
	"strings"
	"sync/atomic"
)

type Sort uint8

const (
	SBool Sort = iota
	SInt
	SBV8
	SBV16
	SBV32
	SBV64
)

func (s Sort) String() string {
	switch s {
	case SBool:
		return "Bool"
	case SInt:
		return "Int"
	case SBV8:
		return "(_ BitVec 8)"
	case SBV16:
		return "(_ BitVec 16)"
	case SBV32:
		return "(_ BitVec 32)"
	case SBV64:
		return "(_ BitVec 64)"
	}
	return "?"
}

func (s Sort) Width() int {
	switch s {
	case SBV8:
		return 8
	case SBV16:
		return 16
	case SBV32:
		return 32
	case SBV64:
		return 64
	}
	return 0
}

func BVSort(w int) Sort {
	switch w {
	case 8:
		return SBV8
	case 16:
		return SBV16
	case 32:
		return SBV32
	case 64:
		return SBV64
	}
	panic(fmt.Sprintf("no BV sort of width %d", w))
}

// Term is an immutable SMT term. Constants carry Val (Int and BV) or B (Bool).
type Term struct {
	Op   string
	Sort Sort
	Args []*Term
	Name string   // Op=="var"
	Val  *big.Int // Op=="const" (Int: value; BV: unsigned value)
	B    bool     // Op=="const", Bool
	P    [2]int   // extract hi,lo / extend amount in P[0]
	ID   int64
}

var idCounter int64

func mk(op string, s Sort, args ...*Term) *Term {
	return &Term{Op: op, Sort: s, Args: args, ID: atomic.AddInt64(&idCounter, 1)}
}

var (
	True  = &Term{Op: "const", Sort: SBool, B: true, ID: -1}
	False = &Term{Op: "const", Sort: SBool, B: false, ID: -2}
)

func Bool(b bool) *Term {
	if b {
		return True
	}
	return False
}

func Var(name string, s Sort) *Term {
	t := mk("var", s)
	t.Name = name
	return t
}

func IntConst(v *big.Int) *Term {
	t := mk("const", SInt)
	t.Val = new(big.Int).Set(v)
	return t
}

func Int64Const(v int64) *Term { return IntConst(big.NewInt(v)) }

// BVConst makes a bit-vector constant of width w from the low w bits of v.
func BVConst(v uint64, w int) *Term {
	t := mk("const", BVSort(w))
	if w < 64 {
		v &= (uint64(1) << uint(w)) - 1
	}
	t.Val = new(big.Int).SetUint64(v)
	return t
}

func (t *Term) IsConst() bool { return t.Op == "const" }
func (t *Term) IsTrue() bool  { return t.Op == "const" && t.Sort == SBool && t.B }
func (t *Term) IsFalse() bool { return t.Op == "const" && t.Sort == SBool && !t.B }

// Uint returns the constant value of a BV const.
func (t *Term) Uint() uint64 { return t.Val.Uint64() }

// structural equality (cheap, conservative): same pointer, or equal constants, or same var name.
func Same(a, b *Term) bool {
	if a == b {
		return true
	}
	if a.Sort != b.Sort || a.Op != b.Op {
		return false
	}
	switch a.Op {
	case "const":
		if a.Sort == SBool {
			return a.B == b.B
		}
		return a.Val.Cmp(b.Val) == 0
	case "var":
		return a.Name == b.Name
	}
	if len(a.Args) != len(b.Args) || a.P != b.P {
		return false
	}
	for i := range a.Args {
		if !Same(a.Args[i], b.Args[i]) {
			return false
		}
	}
	return true
}

// ---------- Bool ----------

func Not(a *Term) *Term {
	if a.IsConst() {
		return Bool(!a.B)
	}
	if a.Op == "not" {
		return a.Args[0]
	}
	return mk("not", SBool, a)
}

func And(as ...*Term) *Term {
	var out []*Term
	for _, a := range as {
		if a.IsFalse() {
			return False
		}
		if a.IsTrue() {
			continue
		}
		out = append(out, a)
	}
	switch len(out) {
	case 0:
		return True
	case 1:
		return out[0]
	}
	return mk("and", SBool, out...)
}

func Or(as ...*Term) *Term {
	var out []*Term
	for _, a := range as {
		if a.IsTrue() {
			return True
		}
		if a.IsFalse() {
			continue
		}
		out = append(out, a)
	}
	switch len(out) {
	case 0:
		return False
	case 1:
		return out[0]
	}
	return mk("or", SBool, out...)
}

func Implies(a, b *Term) *Term { return Or(Not(a), b) }

func Ite(c, a, b *Term) *Term {
	if c.IsConst() {
		if c.B {
			return a
		}
		return b
	}
	if Same(a, b) {
		return a
	}
	if a.Sort == SBool {
		if a.IsTrue() && b.IsFalse() {
			return c
		}
		if a.IsFalse() && b.IsTrue() {
			return Not(c)
		}
		if a.IsTrue() {
			return Or(c, b)
		}
		if a.IsFalse() {
			return And(Not(c), b)
		}
		if b.IsTrue() {
			return Or(Not(c), a)
		}
		if b.IsFalse() {
			return And(c, a)
		}
	}
	return mk("ite", a.Sort, c, a, b)
}

func Eq(a, b *Term) *Term {
	if a.Sort != b.Sort {
		panic(fmt.Sprintf("Eq: sort mismatch %v %v", a.Sort, b.Sort))
	}
	if a.IsConst() && b.IsConst() {
		if a.Sort == SBool {
			return Bool(a.B == b.B)
		}
		return Bool(a.Val.Cmp(b.Val) == 0)
	}
	if Same(a, b) {
		return True
	}
	if a.Sort != SBool {
		if r := pushIte(a, b, Eq); r != nil {
			return r
		}
	}
	if a.Sort == SBool {
		if a.IsConst() {
			if a.B {
				return b
			}
			return Not(b)
		}
		if b.IsConst() {
			if b.B {
				return a
			}
			return Not(a)
		}
	}
	return mk("=", SBool, a, b)
}

// constLeavesIte reports whether t is an ite tree whose leaves are all constants.
func constLeavesIte(t *Term, depth int) bool {
	if t.IsConst() {
		return true
	}
	if t.Op != "ite" || depth > 6 {
		return false
	}
	return constLeavesIte(t.Args[1], depth+1) && constLeavesIte(t.Args[2], depth+1)
}

// pushIte distributes a comparison over an ite tree with constant leaves when the
// other side is constant, so that results of Cmp/Sign fold back to plain conditions.
func pushIte(a, b *Term, f func(x, y *Term) *Term) *Term {
	if a.Op == "ite" && b.IsConst() && constLeavesIte(a, 0) {
		return Ite(a.Args[0], f(a.Args[1], b), f(a.Args[2], b))
	}
	if b.Op == "ite" && a.IsConst() && constLeavesIte(b, 0) {
		return Ite(b.Args[0], f(a, b.Args[1]), f(a, b.Args[2]))
	}
	return nil
}

// ---------- Int ----------

func IAdd(a, b *Term) *Term {
	if a.IsConst() && b.IsConst() {
		return IntConst(new(big.Int).Add(a.Val, b.Val))
	}
	if a.IsConst() && a.Val.Sign() == 0 {
		return b
	}
	if b.IsConst() && b.Val.Sign() == 0 {
		return a
	}
	return mk("+", SInt, a, b)
}

func ISub(a, b *Term) *Term {
	if a.IsConst() && b.IsConst() {
		return IntConst(new(big.Int).Sub(a.Val, b.Val))
	}
	if b.IsConst() && b.Val.Sign() == 0 {
		return a
	}
	if Same(a, b) {
		return Int64Const(0)
	}
	return mk("-", SInt, a, b)
}

func INeg(a *Term) *Term {
	if a.IsConst() {
		return IntConst(new(big.Int).Neg(a.Val))
	}
	return mk("-", SInt, a)
}

func IMul(a, b *Term) *Term {
	if a.IsConst() && b.IsConst() {
		return IntConst(new(big.Int).Mul(a.Val, b.Val))
	}
	if a.IsConst() {
		if a.Val.Sign() == 0 {
			return a
		}
		if a.Val.Cmp(big.NewInt(1)) == 0 {
			return b
		}
	}
	if b.IsConst() {
		if b.Val.Sign() == 0 {
			return b
		}
		if b.Val.Cmp(big.NewInt(1)) == 0 {
			return a
		}
	}
	return mk("*", SInt, a, b)
}

// IDiv is Euclidean division (SMT-LIB div; big.Int.Div). Divisor must be non-zero.
func IDiv(a, b *Term) *Term {
	if a.IsConst() && b.IsConst() && b.Val.Sign() != 0 {
		return IntConst(new(big.Int).Div(a.Val, b.Val))
	}
	if b.IsConst() && b.Val.Cmp(big.NewInt(1)) == 0 {
		return a
	}
	return mk("div", SInt, a, b)
}

func IMod(a, b *Term) *Term {
	if a.IsConst() && b.IsConst() && b.Val.Sign() != 0 {
		return IntConst(new(big.Int).Mod(a.Val, b.Val))
	}
	return mk("mod", SInt, a, b)
}

func ILt(a, b *Term) *Term {
	if a.IsConst() && b.IsConst() {
		return Bool(a.Val.Cmp(b.Val) < 0)
	}
	if Same(a, b) {
		return False
	}
	return mk("<", SBool, a, b)
}

func ILe(a, b *Term) *Term {
	if a.IsConst() && b.IsConst() {
		return Bool(a.Val.Cmp(b.Val) <= 0)
	}
	if Same(a, b) {
		return True
	}
	return mk("<=", SBool, a, b)
}

func IGt(a, b *Term) *Term { return ILt(b, a) }
func IGe(a, b *Term) *Term { return ILe(b, a) }

// ---------- BV ----------

func mask(w int) uint64 {
	if w >= 64 {
		return ^uint64(0)
	}
	return (uint64(1) << uint(w)) - 1
}

func sext(v uint64, w int) int64 {
	if w >= 64 {
		return int64(v)
	}
	sh := uint(64 - w)
	return int64(v<<sh) >> sh
}

// BVBin builds a binary bit-vector operation; op is the SMT-LIB name.
func BVBin(op string, a, b *Term) *Term {
	if a.Sort != b.Sort {
		panic(fmt.Sprintf("BVBin %s: sort mismatch %v %v", op, a.Sort, b.Sort))
	}
	w := a.Sort.Width()
	if a.IsConst() && b.IsConst() {
		x, y := a.Uint(), b.Uint()
		var r uint64
		ok := true
		switch op {
		case "bvadd":
			r = x + y
		case "bvsub":
			r = x - y
		case "bvmul":
			r = x * y
		case "bvand":
			r = x & y
		case "bvor":
			r = x | y
		case "bvxor":
			r = x ^ y
		case "bvudiv":
			if y == 0 {
				r = mask(w)
			} else {
				r = x / y
			}
		case "bvurem":
			if y == 0 {
				r = x
			} else {
				r = x % y
			}
		case "bvsdiv":
			if y == 0 {
				ok = false
			} else {
				r = uint64(sext(x, w) / sext(y, w))
			}
		case "bvsrem":
			if y == 0 {
				ok = false
			} else {
				r = uint64(sext(x, w) % sext(y, w))
			}
		case "bvshl":
			if y >= uint64(w) {
				r = 0
			} else {
				r = x << y
			}
		case "bvlshr":
			if y >= uint64(w) {
				r = 0
			} else {
				r = x >> y
			}
		case "bvashr":
			if y >= uint64(w) {
				y = uint64(w - 1)
			}
			r = uint64(sext(x, w) >> y)
		default:
			ok = false
		}
		if ok {
			return BVConst(r, w)
		}
	}
	if b.IsConst() && b.Uint() == 0 {
		switch op {
		case "bvadd", "bvsub", "bvor", "bvxor", "bvshl", "bvlshr", "bvashr":
			return a
		}
	}
	if a.IsConst() && a.Uint() == 0 {
		switch op {
		case "bvadd", "bvor", "bvxor":
			return b
		}
	}
	return mk(op, a.Sort, a, b)
}

// BVCmp builds a comparison; op in bvult bvule bvslt bvsle.
func BVCmp(op string, a, b *Term) *Term {
	w := a.Sort.Width()
	if r := pushIte(a, b, func(x, y *Term) *Term { return BVCmp(op, x, y) }); r != nil {
		return r
	}
	if a.IsConst() && b.IsConst() {
		x, y := a.Uint(), b.Uint()
		switch op {
		case "bvult":
			return Bool(x < y)
		case "bvule":
			return Bool(x <= y)
		case "bvslt":
			return Bool(sext(x, w) < sext(y, w))
		case "bvsle":
			return Bool(sext(x, w) <= sext(y, w))
		}
	}
	return mk(op, SBool, a, b)
}

func BVNot(a *Term) *Term {
	if a.IsConst() {
		return BVConst(^a.Uint(), a.Sort.Width())
	}
	return mk("bvnot", a.Sort, a)
}

func BVNeg(a *Term) *Term {
	if a.IsConst() {
		return BVConst(-a.Uint(), a.Sort.Width())
	}
	return mk("bvneg", a.Sort, a)
}

// BVResize converts a to width w, sign- or zero-extending, or truncating.
func BVResize(a *Term, w int, signed bool) *Term {
	aw := a.Sort.Width()
	if aw == w {
		return a
	}
	if a.IsConst() {
		if w < aw {
			return BVConst(a.Uint(), w)
		}
		if signed {
			return BVConst(uint64(sext(a.Uint(), aw)), w)
		}
		return BVConst(a.Uint(), w)
	}
	if w < aw {
		t := mk("extract", BVSort(w), a)
		t.P = [2]int{w - 1, 0}
		return t
	}
	op := "zero_extend"
	if signed {
		op = "sign_extend"
	}
	t := mk(op, BVSort(w), a)
	t.P = [2]int{w - aw, 0}
	return t
}

// BV2Int interprets a as unsigned (or signed) integer.
func BV2Int(a *Term, signed bool) *Term {
	w := a.Sort.Width()
	if a.IsConst() {
		if signed {
			return Int64Const(sext(a.Uint(), w))
		}
		return IntConst(new(big.Int).SetUint64(a.Uint()))
	}
	u := mk("bv2nat", SInt, a)
	if !signed {
		return u
	}
	// signed: ite(msb set, u - 2^w, u)
	half := IntConst(new(big.Int).Lsh(big.NewInt(1), uint(w-1)))
	full := IntConst(new(big.Int).Lsh(big.NewInt(1), uint(w)))
	return Ite(ILt(u, half), u, ISub(u, full))
}

// Int2BV takes an Int term modulo 2^w.
func Int2BV(a *Term, w int) *Term {
	if a.IsConst() {
		m := new(big.Int).Lsh(big.NewInt(1), uint(w))
		v := new(big.Int).Mod(a.Val, m)
		return BVConst(v.Uint64(), w)
	}
	t := mk("int2bv", BVSort(w), a)
	t.P = [2]int{w, 0}
	return t
}

// ---------- printing ----------

func bvLit(v *big.Int, w int) string {
	s := v.Text(2)
	if len(s) < w {
		s = strings.Repeat("0", w-len(s)) + s
	}
	return "#b" + s
}

// Head returns the SMT-LIB operator text for a non-leaf term.
func (t *Term) head() string {
	switch t.Op {
	case "extract":
		return fmt.Sprintf("(_ extract %d %d)", t.P[0], t.P[1])
	case "zero_extend", "sign_extend":
		return fmt.Sprintf("(_ %s %d)", t.Op, t.P[0])
	case "int2bv":
		return fmt.Sprintf("(_ int2bv %d)", t.P[0])
	}
	return t.Op
}

// Leaf returns the SMT text of a leaf (const/var) or "" if t is not a leaf.
func (t *Term) Leaf() string {
	switch t.Op {
	case "const":
		switch t.Sort {
		case SBool:
			if t.B {
				return "true"
			}
			return "false"
		case SInt:
			if t.Val.Sign() < 0 {
				return "(- " + new(big.Int).Neg(t.Val).String() + ")"
			}
			return t.Val.String()
		default:
			return bvLit(t.Val, t.Sort.Width())
		}
	case "var":
		return QuoteName(t.Name)
	}
	return ""
}

func QuoteName(n string) string {
	return "|" + n + "|"
}

// String renders t as a (tree) SMT-LIB expression; for diagnostics and small terms.
func (t *Term) String() string {
	if l := t.Leaf(); l != "" {
		return l
	}
	var sb strings.Builder
	sb.WriteString("(")
	sb.WriteString(t.head())
	for _, a := range t.Args {
		sb.WriteString(" ")
		sb.WriteString(a.String())
	}
	sb.WriteString(")")
	return sb.String()
}

// Printer emits terms as DAGs: each non-leaf subterm is defined once by define-fun.
type Printer struct {
	defined  map[int64]string
	declared map[string]Sort
	Out      func(string)
}

func NewPrinter(out func(string)) *Printer {
	return &Printer{defined: map[int64]string{}, declared: map[string]Sort{}, Out: out}
}

func (p *Printer) Reset() {
	p.defined = map[int64]string{}
	p.declared = map[string]Sort{}
}

// Declared returns the variables declared so far (sorted by name).
func (p *Printer) Declared() []string {
	var ns []string
	for n := range p.declared {
		ns = append(ns, n)
	}
	sort.Strings(ns)
	return ns
}

func (p *Printer) SortOf(name string) Sort { return p.declared[name] }

// Ref makes sure t is defined in the solver and returns the text referring to it.
func (p *Printer) Ref(t *Term) string {
	if t.Op == "var" {
		if _, ok := p.declared[t.Name]; !ok {
			p.declared[t.Name] = t.Sort
			p.Out(fmt.Sprintf("(declare-const %s %s)", QuoteName(t.Name), t.Sort))
		}
		return QuoteName(t.Name)
	}
	if l := t.Leaf(); l != "" {
		return l
	}
	if r, ok := p.defined[t.ID]; ok {
		return r
	}
	var sb strings.Builder
	sb.WriteString("(")
	sb.WriteString(t.head())
	for _, a := range t.Args {
		sb.WriteString(" ")
		sb.WriteString(p.Ref(a))
	}
	sb.WriteString(")")
	name := fmt.Sprintf("t%d", t.ID)
	p.Out(fmt.Sprintf("(define-fun %s () %s %s)", name, t.Sort, sb.String()))
	p.defined[t.ID] = name
	return name
}

// Vars collects the variable names occurring in t.
func Vars(t *Term, into map[string]Sort) {
	seen := map[int64]bool{}
	var rec func(*Term)
	rec = func(t *Term) {
		if t.Op == "var" {
			into[t.Name] = t.Sort
			return
		}
		if len(t.Args) == 0 || seen[t.ID] {
			return
		}
		seen[t.ID] = true
		for _, a := range t.Args {
			rec(a)
		}
	}
	rec(t)
}

// Eval evaluates t under a model (var name -> value). Bool values are 0/1.
func Eval(t *Term, model map[string]*big.Int) (*big.Int, bool) {
	memo := map[int64]*big.Int{}
	var rec func(*Term) *big.Int
	b2i := func(b bool) *big.Int {
		if b {
			return big.NewInt(1)
		}
		return big.NewInt(0)
	}
	ok := true
	rec = func(t *Term) *big.Int {
		switch t.Op {
		case "const":
			if t.Sort == SBool {
				return b2i(t.B)
			}
			return t.Val
		case "var":
			v, have := model[t.Name]
			if !have {
				return big.NewInt(0)
			}
			return v
		}
		if v, have := memo[t.ID]; have {
			return v
		}
		as := make([]*big.Int, len(t.Args))
		for i, a := range t.Args {
			as[i] = rec(a)
		}
		var r *big.Int
		w := t.Sort.Width()
		aw := 0
		if len(t.Args) > 0 {
			aw = t.Args[0].Sort.Width()
		}
		bv := func(op string) *Term {
			return BVBin(op, BVConst(as[0].Uint64(), aw), BVConst(as[1].Uint64(), aw))
		}
		switch t.Op {
		case "not":
			r = b2i(as[0].Sign() == 0)
		case "and":
			r = big.NewInt(1)
			for _, a := range as {
				if a.Sign() == 0 {
					r = big.NewInt(0)
				}
			}
		case "or":
			r = big.NewInt(0)
			for _, a := range as {
				if a.Sign() != 0 {
					r = big.NewInt(1)
				}
			}
		case "ite":
			if as[0].Sign() != 0 {
				r = as[1]
			} else {
				r = as[2]
			}
		case "=":
			r = b2i(as[0].Cmp(as[1]) == 0)
		case "+":
			r = new(big.Int).Add(as[0], as[1])
		case "-":
			if len(as) == 1 {
				r = new(big.Int).Neg(as[0])
			} else {
				r = new(big.Int).Sub(as[0], as[1])
			}
		case "*":
			r = new(big.Int).Mul(as[0], as[1])
		case "div":
			if as[1].Sign() == 0 {
				ok = false
				r = big.NewInt(0)
			} else {
				r = new(big.Int).Div(as[0], as[1])
			}
		case "mod":
			if as[1].Sign() == 0 {
				ok = false
				r = big.NewInt(0)
			} else {
				r = new(big.Int).Mod(as[0], as[1])
			}
		case "<":
			r = b2i(as[0].Cmp(as[1]) < 0)
		case "<=":
			r = b2i(as[0].Cmp(as[1]) <= 0)
		case "bvult", "bvule", "bvslt", "bvsle":
			c := BVCmp(t.Op, BVConst(as[0].Uint64(), aw), BVConst(as[1].Uint64(), aw))
			r = b2i(c.B)
		case "bvnot":
			r = BVNot(BVConst(as[0].Uint64(), aw)).Val
		case "bvneg":
			r = BVNeg(BVConst(as[0].Uint64(), aw)).Val
		case "extract":
			r = BVConst(as[0].Uint64()>>uint(t.P[1]), w).Val
		case "zero_extend":
			r = as[0]
		case "sign_extend":
			r = BVConst(uint64(sext(as[0].Uint64(), aw)), w).Val
		case "bv2nat":
			r = as[0]
		case "int2bv":
			r = Int2BV(IntConst(as[0]), t.P[0]).Val
		default:
			if strings.HasPrefix(t.Op, "bv") {
				c := bv(t.Op)
				if c.IsConst() {
					r = c.Val
				} else {
					ok = false
					r = big.NewInt(0)
				}
			} else {
				ok = false
				r = big.NewInt(0)
			}
		}
		memo[t.ID] = r
		return r
	}
	v := rec(t)
	return v, ok
}
