package main

import (
	"bufio"
	"encoding/json"
	"flag"
	"fmt"
	"os"
	"os/exec"
	"path/filepath"
	"regexp"
	"sort"
	"strconv"
	"strings"
	"time"

	"symgo/helper"
	"symgo/interp"
)

// HarnessRun is one harness function explored over a list of shapes.
type HarnessRun struct {
	Pkg    string // import path
	Dir    string // directory relative to its module root, for go test
	Mod    string // "ledger" or "libs"
	Fn     string
	Shapes func(s *Session, tier string) []int
	Cfg    func(tier string) interp.Config
	Desc   func(s *Session, shape int) string // human description of a shape
	Tag    string                             // distinguishes two runs of one harness function
	Canary int                                // number of leading shapes to run the canary twin on
	CanaryShapes []int                        // explicit canary shapes (overrides Canary)
}

type CheckSpec struct {
	ID          string
	Patterns    []string
	NeedShapes  bool
	NeedHelper  bool
	Runs        []HarnessRun
	Bounds      func(tier string) map[string]any
	Assumptions []string
	Encoded     []string // principal functions encoded (the measured list is added)
	MaxPaths    func(tier string) int
	TimeoutMs   int
	Rule        string
	Extra       func(s *Session, tier string) (map[string]any, []string) // additional concrete sub-checks: (evidence, violations)
	Workers     int
	Instrument  bool // concurrency files get a Yield before every statement
}

type KnownFinding struct {
	Property string `json:"property"`
	Harness  string `json:"harness"`
	Label    string `json:"label"`
	Match    string `json:"match"`
	What     string `json:"what"`
}

type knownFile struct {
	Findings []KnownFinding `json:"findings"`
	Fixed    []string       `json:"fixed"`
}

func loadKnown() knownFile {
	var k knownFile
	b, err := os.ReadFile("/verif/known_findings.json")
	if err == nil {
		json.Unmarshal(b, &k)
	}
	return k
}

type replayCase struct {
	ID      string             `json:"id"`
	Harness string             `json:"harness"`
	Shape   int                `json:"shape"`
	Model   map[string]string  `json:"model"`
	Sched   []interp.SchedStep `json:"sched,omitempty"`
}

type replayResult struct {
	ID      string   `json:"id"`
	Failed  []string `json:"failed"`
	Reached []string `json:"reached"`
	Missing []string `json:"missing"`
	Notes   []string `json:"notes"`
	Panic   string   `json:"panic"`
	Assume  bool     `json:"assume_failed"`
}

// testOverlay = session overlay + harness _test.go files.
func (s *Session) testOverlayJSON(tag string, extraBlank []string) (string, error) {
	ov := map[string][]byte{}
	for k, v := range s.Overlay {
		ov[k] = v
	}
	filepath.Walk(harnessDir, func(p string, info os.FileInfo, err error) error {
		if err == nil && !info.IsDir() && strings.HasSuffix(p, "_test.go") {
			rel, _ := filepath.Rel(harnessDir, p)
			b, _ := os.ReadFile(p)
			ov[filepath.Join(repoDir, rel)] = b
		}
		return nil
	})
	dir := filepath.Join(s.OutDir, "overlay_test_"+tag)
	p, err := helper.WriteOverlayJSON(dir, ov)
	if err != nil {
		return "", err
	}
	if len(extraBlank) > 0 {
		// map the package's own test files to nothing
		b, _ := os.ReadFile(p)
		var m struct{ Replace map[string]string }
		json.Unmarshal(b, &m)
		if m.Replace == nil {
			m.Replace = map[string]string{}
		}
		for _, f := range extraBlank {
			m.Replace[f] = ""
		}
		nb, _ := json.MarshalIndent(m, "", " ")
		os.WriteFile(p, nb, 0o644)
	}
	return p, nil
}

type replayer struct {
	bin string
	err error
	dir string
}

// buildReplayer compiles the native replay test binary of one harness package.
func (s *Session) buildReplayer(run HarnessRun) *replayer {
	r := &replayer{}
	modDir := repoDir
	if run.Mod == "libs" {
		modDir = filepath.Join(repoDir, "libs")
	}
	pkgDir := filepath.Join(modDir, run.Dir)
	// blank out the package's own tests (they may need Docker or clash with the harness)
	var blank []string
	ents, _ := os.ReadDir(pkgDir)
	for _, e := range ents {
		if strings.HasSuffix(e.Name(), "_test.go") && !strings.HasPrefix(e.Name(), "zz_") {
			blank = append(blank, filepath.Join(pkgDir, e.Name()))
		}
	}
	ovj, err := s.testOverlayJSON(strings.ReplaceAll(run.Mod+"_"+run.Dir, "/", "_"), blank)
	if err != nil {
		r.err = err
		return r
	}
	r.bin = filepath.Join(s.OutDir, "replay_"+strings.ReplaceAll(run.Dir, "/", "_")+".test")
	cmd := exec.Command("go", "test", "-c", "-vet=off", "-overlay", ovj, "-o", r.bin, "./"+run.Dir)
	cmd.Dir = modDir
	cmd.Env = append(os.Environ(), "GOFLAGS=-mod=mod", "GOPROXY=off", "GOSUMDB=off", "GOTOOLCHAIN=local")
	out, err := cmd.CombinedOutput()
	if err != nil {
		r.err = fmt.Errorf("building replay binary for %s: %v\n%s", run.Dir, err, out)
	}
	r.dir = pkgDir
	return r
}

// runIsolated replays every case in its own process (concurrent harnesses leave
// goroutines behind that must not leak into the next case).
func (r *replayer) runIsolated(outDir, tag string, cases []replayCase) (map[string]replayResult, error) {
	res := map[string]replayResult{}
	if len(cases) == 0 {
		return res, nil
	}
	if r.err != nil {
		return nil, r.err
	}
	type out struct {
		m   map[string]replayResult
		err error
	}
	sem := make(chan struct{}, 8)
	ch := make(chan out, len(cases))
	for i, c := range cases {
		sem <- struct{}{}
		go func(i int, c replayCase) {
			defer func() { <-sem }()
			m, err := r.run(outDir, fmt.Sprintf("%s_%d", tag, i), []replayCase{c})
			ch <- out{m, err}
		}(i, c)
	}
	var firstErr error
	for range cases {
		o := <-ch
		if o.err != nil && firstErr == nil {
			firstErr = o.err
		}
		for k, v := range o.m {
			res[k] = v
		}
	}
	if len(res) == 0 && firstErr != nil {
		return nil, firstErr
	}
	return res, nil
}

func (r *replayer) run(outDir, tag string, cases []replayCase) (map[string]replayResult, error) {
	res := map[string]replayResult{}
	if len(cases) == 0 {
		return res, nil
	}
	if r.err != nil {
		return nil, r.err
	}
	cf := filepath.Join(outDir, tag+"_cases.jsonl")
	rf := filepath.Join(outDir, tag+"_results.jsonl")
	f, err := os.Create(cf)
	if err != nil {
		return nil, err
	}
	w := bufio.NewWriter(f)
	for _, c := range cases {
		b, _ := json.Marshal(c)
		w.Write(b)
		w.WriteByte('\n')
	}
	w.Flush()
	f.Close()
	cmd := exec.Command(r.bin, "-test.run", "^TestZZReplay$", "-test.count=1", "-test.timeout=5m")
	cmd.Dir = r.dir
	cmd.Env = append(os.Environ(), "VERIF_CASES="+cf, "VERIF_RESULTS="+rf)
	out, err := cmd.CombinedOutput()
	if err != nil {
		return nil, fmt.Errorf("replay run failed: %v\n%s", err, tail(string(out), 2000))
	}
	rfh, err := os.Open(rf)
	if err != nil {
		return nil, err
	}
	defer rfh.Close()
	sc := bufio.NewScanner(rfh)
	sc.Buffer(make([]byte, 1<<20), 1<<26)
	for sc.Scan() {
		var rr replayResult
		if err := json.Unmarshal(sc.Bytes(), &rr); err == nil {
			res[rr.ID] = rr
		}
	}
	return res, nil
}

func replayRun(spec *CheckSpec, r *replayer, outDir, tag string, cases []replayCase) (map[string]replayResult, error) {
	if spec.Instrument {
		return r.runIsolated(outDir, tag, cases)
	}
	return r.run(outDir, tag, cases)
}

func tail(s string, n int) string {
	if len(s) > n {
		return s[len(s)-n:]
	}
	return s
}

func contains(ss []string, x string) bool {
	for _, s := range ss {
		if s == x {
			return true
		}
	}
	return false
}

type confirmedViolation struct {
	V         *interp.Violation
	Desc      string
	Dir       string
	Confirmed bool
	Known     *KnownFinding
	Native    replayResult
}

func cmdCheck(args []string) int {
	fs := flag.NewFlagSet("check", flag.ExitOnError)
	tier := fs.String("tier", "", "quick|thorough")
	workers := fs.Int("workers", 16, "workers")
	fs.Parse(args)
	if fs.NArg() < 1 {
		fmt.Fprintln(os.Stderr, "usage: symgo check [-tier quick|thorough] <property id>")
		return 2
	}
	id := fs.Arg(0)
	if *tier == "" {
		*tier = os.Getenv("VERIF_TIER")
	}
	if *tier == "" {
		*tier = "quick"
	}
	seed, _ := strconv.Atoi(os.Getenv("VERIF_SEED"))
	spec, ok := specs[id]
	if !ok {
		fmt.Fprintln(os.Stderr, "no check for", id)
		return 2
	}
	if spec.Workers > 0 && spec.Workers < *workers {
		*workers = spec.Workers
	}
	return runCheck(spec, *tier, seed, *workers)
}

func runCheck(spec *CheckSpec, tier string, seed, workers int) int {
	t0 := time.Now()
	evPath := filepath.Join("/verif/evidence", spec.ID+".json")
	os.MkdirAll("/verif/evidence", 0o755)
	os.Remove(evPath)
	fail := func(msg string) int {
		fmt.Println("CHECK-ERROR:", msg)
		return 2
	}
	var instr []string
	if spec.Instrument {
		instr = concFiles
	}
	sess, err := NewSession(SessionOpts{Tier: tier, Patterns: spec.Patterns, NeedShapes: spec.NeedShapes, NeedHelper: spec.NeedHelper, OutName: spec.ID, Instrument: instr})
	if err != nil {
		return fail(err.Error())
	}
	defer sess.Close()
	fmt.Printf("%s %s: setup %.1fs (load+SSA %.1fs)\n", spec.ID, tier, sess.SetupS, sess.P.LoadS)

	// replay binaries are built concurrently with the exploration
	type rb struct {
		key string
		r   *replayer
	}
	replayers := map[string]*replayer{}
	rch := make(chan rb, len(spec.Runs))
	seenDir := map[string]bool{}
	nBuild := 0
	for _, run := range spec.Runs {
		k := run.Mod + "/" + run.Dir
		if seenDir[k] {
			continue
		}
		seenDir[k] = true
		nBuild++
		go func(run HarnessRun, k string) { rch <- rb{k, sess.buildReplayer(run)} }(run, k)
	}

	maxPaths := 20000
	if spec.MaxPaths != nil {
		maxPaths = spec.MaxPaths(tier)
	}
	timeout := spec.TimeoutMs
	if timeout == 0 {
		timeout = 10000
	}
	var jobs, canaryJobs []*interp.Job
	jobRun := map[*interp.Job]HarnessRun{}
	for _, run := range spec.Runs {
		f := sess.P.Func(run.Pkg, run.Fn)
		if f == nil {
			return fail("harness function not found: " + run.Pkg + "." + run.Fn)
		}
		cfg := interp.Config{PanicIsViolation: true}
		if run.Cfg != nil {
			cfg = run.Cfg(tier)
		}
		shapes := run.Shapes(sess, tier)
		for i, sh := range shapes {
			j := &interp.Job{Harness: run.Fn, Fn: f, Args: []interp.Value{int64(sh)}, Shape: sh, Cfg: cfg}
			jobs = append(jobs, j)
			jobRun[j] = run
			isCanary := i < run.Canary
			if run.CanaryShapes != nil {
				isCanary = false
				for _, cs := range run.CanaryShapes {
					if cs == sh {
						isCanary = true
					}
				}
			}
			if isCanary {
				cj := &interp.Job{Harness: run.Fn, Fn: f, Args: []interp.Value{int64(sh)}, Shape: sh, Cfg: cfg, Canary: true}
				canaryJobs = append(canaryJobs, cj)
				jobRun[cj] = run
			}
		}
	}
	ex := &interp.Explorer{In: sess.In, Workers: workers, SolverKind: "z3", TimeoutMs: timeout, MaxPaths: maxPaths, MaxWitnesses: 2, Fallbacks: []string{"z3-new", "cvc5"}}
	tEx := time.Now()
	results := ex.Run(jobs)
	canaryRes := ex.Run(canaryJobs)
	exploreS := time.Since(tEx).Seconds()

	for i := 0; i < nBuild; i++ {
		x := <-rch
		replayers[x.key] = x.r
	}

	// ---- aggregate
	var paths, decisions, asserts, assertsSym int
	var steps int64
	outcomes := map[string]int{}
	unsupported := map[string]int{}
	msgs := map[string]int{}
	stubs := map[string]int{}
	assumes := map[string]int{}
	reached := map[string]int{}
	var inconcl []string
	truncated := 0
	var viols []*confirmedViolation
	var witnessCases []replayCase
	witnessExpect := map[string]interp.Witness{}
	witnessRun := map[string]HarnessRun{}
	var samples []any
	for _, r := range results {
		paths += r.Paths
		decisions += r.Decisions
		asserts += r.Asserts
		assertsSym += r.AssertsSym
		steps += r.Steps
		if r.Truncated {
			truncated++
		}
		for k, n := range r.Outcomes {
			outcomes[k] += n
		}
		for k, n := range r.Unsupported {
			unsupported[k] += n
		}
		for k, n := range r.Msgs {
			msgs[k] += n
		}
		for k, n := range r.Stubs {
			stubs[k] += n
		}
		for k, n := range r.Assumes {
			assumes[k] += n
		}
		for k, n := range r.Reached {
			reached[k] += n
		}
		inconcl = append(inconcl, r.Inconcl...)
		run := jobRun[r.Job]
		desc := ""
		if run.Desc != nil {
			desc = run.Desc(sess, r.Job.Shape)
		}
		for _, v := range r.Violations {
			viols = append(viols, &confirmedViolation{V: v, Desc: desc})
		}
		for wi, w := range r.Witnesses {
			id := fmt.Sprintf("w-%s%s-%d-%d", r.Job.Harness, run.Tag, r.Job.Shape, wi)
			wc := replayCase{ID: id, Harness: r.Job.Harness, Shape: r.Job.Shape, Model: w.Model}
			if spec.Instrument {
				wc.Sched = w.Sched
			}
			witnessCases = append(witnessCases, wc)
			witnessExpect[id] = w
			witnessRun[id] = run
			if len(samples) < 3 {
				samples = append(samples, map[string]any{"harness": r.Job.Harness, "shape": r.Job.Shape, "shape_desc": desc, "paths": r.Paths, "witness_inputs": w.Model, "reached": w.Reached})
			}
		}
	}

	// ---- native replay of counterexamples (dedupe per harness/shape/label: first 3)
	perKey := map[string]int{}
	var cexCases []replayCase
	cexIdx := map[string]*confirmedViolation{}
	for i, cv := range viols {
		k := fmt.Sprintf("%s|%d|%s", cv.V.Harness, cv.V.Shape, cv.V.Label)
		perKey[k]++
		if perKey[k] > 2 {
			continue
		}
		id := fmt.Sprintf("cex-%d", i)
		cc := replayCase{ID: id, Harness: cv.V.Harness, Shape: cv.V.Shape, Model: cv.V.Model}
		if spec.Instrument {
			cc.Sched = cv.V.Sched
		}
		cexCases = append(cexCases, cc)
		cexIdx[id] = cv
	}
	byRun := func(cases []replayCase, runOf func(c replayCase) HarnessRun) map[string][]replayCase {
		m := map[string][]replayCase{}
		for _, c := range cases {
			run := runOf(c)
			k := run.Mod + "/" + run.Dir
			m[k] = append(m[k], c)
		}
		return m
	}
	runOfHarness := func(h string) HarnessRun {
		for _, r := range spec.Runs {
			if r.Fn == h {
				return r
			}
		}
		return spec.Runs[0]
	}
	var replayErrs []string
	// Native confirmation. Goroutines the code under test starts with a plain `go`
	// statement are not under the schedule controller, so a concurrent counterexample
	// may need more than one native attempt; up to three are made.
	attempts := 1
	if spec.Instrument {
		attempts = 3
	}
	pending := cexCases
	for a := 0; a < attempts && len(pending) > 0; a++ {
		for k, cs := range byRun(pending, func(c replayCase) HarnessRun { return runOfHarness(c.Harness) }) {
			res, err := replayRun(spec, replayers[k], sess.OutDir, "cex_"+strings.ReplaceAll(k, "/", "_"), cs)
			if err != nil {
				replayErrs = append(replayErrs, err.Error())
				continue
			}
			for id, rr := range res {
				cv := cexIdx[id]
				cv.Native = rr
				switch cv.V.Kind {
				case "assert":
					cv.Confirmed = contains(rr.Failed, cv.V.Label)
				case "panic":
					cv.Confirmed = rr.Panic != ""
				case "deadlock":
					cv.Confirmed = contains(rr.Failed, "deadlock")
				}
			}
		}
		var next []replayCase
		for _, c := range pending {
			if cv := cexIdx[c.ID]; cv != nil && !cv.Confirmed {
				next = append(next, c)
			}
		}
		pending = next
	}
	// propagate confirmation to un-replayed duplicates of a confirmed key
	confirmedKeys := map[string]bool{}
	for _, cv := range viols {
		if cv.Confirmed {
			confirmedKeys[fmt.Sprintf("%s|%d|%s", cv.V.Harness, cv.V.Shape, cv.V.Label)] = true
		}
	}

	// ---- translator validation: witness models replayed natively
	validated, mismatched := 0, 0
	var mismatchNotes []string
	for k, cs := range byRun(witnessCases, func(c replayCase) HarnessRun { return witnessRun[c.ID] }) {
		res, err := replayRun(spec, replayers[k], sess.OutDir, "wit_"+strings.ReplaceAll(k, "/", "_"), cs)
		if err != nil {
			replayErrs = append(replayErrs, err.Error())
			continue
		}
		for id, rr := range res {
			w := witnessExpect[id]
			okm := rr.Panic == "" && !rr.Assume && len(rr.Failed) == 0 &&
				strings.Join(rr.Reached, ",") == strings.Join(w.Reached, ",") &&
				strings.Join(rr.Notes, "\x00") == strings.Join(w.Notes, "\x00")
			if okm {
				validated++
			} else {
				mismatched++
				if len(mismatchNotes) < 5 {
					mismatchNotes = append(mismatchNotes, fmt.Sprintf("%s: native failed=%v reached=%v panic=%q assume=%v notes=%v; engine reached=%v notes=%v", id, rr.Failed, rr.Reached, firstLine(rr.Panic), rr.Assume, rr.Notes, w.Reached, w.Notes))
				}
			}
		}
	}

	// ---- canary
	canaryExpected, canaryCaught, canaryReplayed := len(canaryJobs), 0, 0
	var canaryCases []replayCase
	for i, r := range canaryRes {
		for _, v := range r.Violations {
			if v.Label == "canary" {
				canaryCaught++
				m := map[string]string{"canary": "1"}
				for k, x := range v.Model {
					m[k] = x
				}
				canaryCases = append(canaryCases, replayCase{ID: fmt.Sprintf("canary-%d", i), Harness: r.Job.Harness, Shape: r.Job.Shape, Model: m, Sched: v.Sched})
				break
			}
		}
	}
	for k, cs := range byRun(canaryCases, func(c replayCase) HarnessRun { return runOfHarness(c.Harness) }) {
		res, err := replayRun(spec, replayers[k], sess.OutDir, "canary_"+strings.ReplaceAll(k, "/", "_"), cs)
		if err != nil {
			replayErrs = append(replayErrs, err.Error())
			continue
		}
		for _, rr := range res {
			if contains(rr.Failed, "canary") {
				canaryReplayed++
			}
		}
	}

	// ---- additional concrete sub-checks
	var extraEv map[string]any
	var extraViol []string
	if spec.Extra != nil {
		extraEv, extraViol = spec.Extra(sess, tier)
	}

	// ---- classify violations: known finding / VIOLATION / unconfirmed
	known := loadKnown()
	exit := 0
	var cexSamples []any
	printedKnown := map[string]bool{}
	nViol, nKnown, nUnconf := 0, 0, 0
	reported := map[string]bool{}
	for i, cv := range viols {
		key := fmt.Sprintf("%s|%d|%s", cv.V.Harness, cv.V.Shape, cv.V.Label)
		if _, replayed := cexIdxHas(cexIdx, cv); !replayed {
			if !confirmedKeys[key] {
				continue
			}
			continue // duplicate of an already reported key
		}
		sig := cv.V.Label + "|" + cv.V.Msg + "|" + cv.Desc
		if !cv.Confirmed {
			nUnconf++
			fmt.Printf("UNCONFIRMED: property=%s harness=%s shape=%d label=%q (solver counterexample did not reproduce natively: native failed=%v panic=%q)\n",
				spec.ID, cv.V.Harness, cv.V.Shape, cv.V.Label, cv.Native.Failed, firstLine(cv.Native.Panic))
			continue
		}
		var kf *KnownFinding
		for fi := range known.Findings {
			f := &known.Findings[fi]
			if f.Property != spec.ID || (f.Harness != "" && f.Harness != cv.V.Harness) || (f.Label != "" && f.Label != cv.V.Label) {
				continue
			}
			if f.Match != "" {
				re, err := regexp.Compile(f.Match)
				if err != nil || !re.MatchString(sig) {
					continue
				}
			}
			kf = f
			break
		}
		dir := filepath.Join(sess.OutDir, fmt.Sprintf("cex-%d", i))
		os.MkdirAll(dir, 0o755)
		writeJSON(filepath.Join(dir, "model.json"), map[string]any{"property": spec.ID, "harness": cv.V.Harness, "shape": cv.V.Shape, "shape_desc": cv.Desc,
			"kind": cv.V.Kind, "label": cv.V.Label, "msg": cv.V.Msg, "model": cv.V.Model, "sched": cv.V.Sched, "decisions": cv.V.Trace, "native": cv.Native})
		writeReplayScript(dir, spec, runOfHarness(cv.V.Harness), cv)
		cv.Dir = dir
		if kf != nil {
			nKnown++
			if !printedKnown[kf.What] {
				printedKnown[kf.What] = true
				fmt.Printf("KNOWN-FINDING: property=%s %s\n", spec.ID, kf.What)
			}
			cv.Known = kf
		} else {
			nViol++
			if !reported[key] {
				reported[key] = true
				fmt.Printf("VIOLATION property=%s replay=%s\n", spec.ID, dir)
				fmt.Printf("  harness=%s shape=%d label=%q %s\n  inputs=%s\n  shape: %s\n", cv.V.Harness, cv.V.Shape, cv.V.Label, cv.V.Msg, compactModel(cv.V.Model), oneLine(cv.Desc))
			}
			exit = 1
		}
		if len(cexSamples) < 5 {
			cexSamples = append(cexSamples, map[string]any{"kind": cv.V.Kind, "label": cv.V.Label, "msg": cv.V.Msg, "harness": cv.V.Harness, "shape": cv.V.Shape, "shape_desc": cv.Desc, "inputs": cv.V.Model, "known_finding": kf != nil, "replay": dir})
		}
	}
	for _, ev := range extraViol {
		fmt.Printf("VIOLATION property=%s replay=%s\n  %s\n", spec.ID, sess.OutDir, ev)
		exit = 1
		nViol++
	}

	clean := len(unsupported) == 0 && len(inconcl) == 0 && truncated == 0 && mismatched == 0 && len(replayErrs) == 0 &&
		outcomes["engine-error"] == 0 && outcomes["budget"] == 0 && canaryCaught == canaryExpected && canaryReplayed == canaryExpected
	for k, n := range unsupported {
		fmt.Printf("INCONCLUSIVE: %d path(s) left the encodable fragment: %s\n", n, oneLine(k))
	}
	for k, n := range msgs {
		fmt.Printf("NOTE: %d path(s): %s\n", n, oneLine(k))
	}
	for _, s := range inconcl {
		fmt.Println("INCONCLUSIVE:", s)
	}
	if truncated > 0 {
		fmt.Printf("INCONCLUSIVE: %d job(s) truncated at the path budget\n", truncated)
	}
	for _, s := range mismatchNotes {
		fmt.Println("TRANSLATOR-MISMATCH:", s)
	}
	for _, s := range replayErrs {
		fmt.Println("REPLAY-ERROR:", tail(s, 1500))
	}
	if canaryCaught != canaryExpected || canaryReplayed != canaryExpected {
		fmt.Printf("CANARY-FAILURE: expected %d, caught %d, replayed natively %d\n", canaryExpected, canaryCaught, canaryReplayed)
	}

	// ---- evidence
	var fnStats []string
	fnStats = append(fnStats, spec.Encoded...)
	bounds := map[string]any{}
	if spec.Bounds != nil {
		bounds = spec.Bounds(tier)
	}
	measured := sess.In.EncodedFunctions([]string{ledgerMod, libsMod}, func(name string) bool {
		return strings.Contains(name, "verifhook") || strings.Contains(name, ".zz") || strings.Contains(name, ".ZZ_") || strings.Contains(name, "$bound")
	})
	totalFns := len(measured)
	if len(measured) > 80 {
		measured = measured[:80]
	}
	samples = append(samples, cexSamples...)
	if len(samples) == 0 {
		samples = append(samples, map[string]any{"note": "no completed path produced a witness model"})
	}
	cov := map[string]any{
		"states":                        paths,
		"transitions":                   max(decisions, 1),
		"traces_validated_against_impl": validated,
		"samples":                       samples,
		"exhaustive":                    truncated == 0 && len(unsupported) == 0 && len(inconcl) == 0,
		"jobs":                          len(jobs),
		"path_outcomes":                 outcomes,
		"assertions_evaluated":          asserts,
		"assertions_decided_by_solver":  assertsSym,
		"ssa_instructions_interpreted":  steps,
		"functions_encoded":             fnStats,
		"functions_interpreted_measured": map[string]any{"repository_functions_entered": totalFns, "most_entered": measured},
		"bounds":                        bounds,
		"queries":                       map[string]any{"total": ex.Stats.Queries, "sat": ex.Stats.Sat, "unsat": ex.Stats.Unsat, "unknown": ex.Stats.Unknown, "solver_errors": ex.Stats.Errors, "redecided_by_fallback_solver": ex.FallbackStats},
		"solver":                        "z3 4.8.12 (-in, incremental; no set-logic); queries it answers unknown are re-decided one-shot by z3 5.1.0 (z3-new), then cvc5 1.0",
		"solver_s":                      float64(ex.Stats.SolverNs) / 1e9,
		"explore_wall_s":                exploreS,
		"stubs_hit":                     stubs,
		"assumptions_cut_paths":         assumes,
		"reach_marks":                   reached,
		"unsupported_paths":             unsupported,
		"inconclusive":                  inconcl,
		"jobs_truncated":                truncated,
		"canary":                        map[string]int{"expected": canaryExpected, "caught_by_solver": canaryCaught, "replayed_natively": canaryReplayed},
		"translator_validation":         map[string]any{"witness_models_replayed": validated + mismatched, "matched": validated, "mismatched": mismatched, "what": "solver model of a completed path re-run natively: same Reach marks, same Notes, no assertion failure"},
		"counterexamples":               map[string]int{"solver_sat": len(viols), "confirmed_new": nViol, "known_findings": nKnown, "unconfirmed": nUnconf},
		"clean":                         clean,
		"rule":                          spec.Rule,
	}
	for k, v := range extraEv {
		cov[k] = v
	}
	if paths == 0 {
		cov["states"] = 1
	}
	ev := map[string]any{
		"property_id": spec.ID,
		"tier":        tier,
		"seed":        seed,
		"level":       "model_checking",
		"coverage":    cov,
		"assumptions": spec.Assumptions,
		"wall_s":      time.Since(t0).Seconds(),
		"violations":  nViol,
	}
	writeJSON(evPath, ev)
	fmt.Printf("%s %s: jobs=%d paths=%d decisions=%d outcomes=%v queries=%d (unknown %d) solver=%.1fs validated=%d/%d canary=%d/%d/%d viol=%d known=%d unconfirmed=%d clean=%v wall=%.1fs\n",
		spec.ID, tier, len(jobs), paths, decisions, outcomes, ex.Stats.Queries, ex.Stats.Unknown, float64(ex.Stats.SolverNs)/1e9,
		validated, validated+mismatched, canaryExpected, canaryCaught, canaryReplayed, nViol, nKnown, nUnconf, clean, time.Since(t0).Seconds())
	// remove bulky scratch output (binaries), keep counterexamples
	cleanupOut(sess.OutDir)
	return exit
}

func cexIdxHas(m map[string]*confirmedViolation, cv *confirmedViolation) (string, bool) {
	for k, v := range m {
		if v == cv {
			return k, true
		}
	}
	return "", false
}

func firstLine(s string) string {
	if i := strings.IndexByte(s, '\n'); i >= 0 {
		return s[:i]
	}
	return s
}

func oneLine(s string) string {
	s = strings.ReplaceAll(s, "\n", " | ")
	if len(s) > 600 {
		s = s[:600] + "…"
	}
	return s
}

func compactModel(m map[string]string) string {
	var ks []string
	for k := range m {
		ks = append(ks, k)
	}
	sort.Strings(ks)
	var parts []string
	for _, k := range ks {
		parts = append(parts, k+"="+m[k])
	}
	s := strings.Join(parts, " ")
	if len(s) > 800 {
		s = s[:800] + "…"
	}
	return s
}

func writeJSON(path string, v any) {
	b, _ := json.MarshalIndent(v, "", " ")
	os.WriteFile(path, b, 0o644)
}

func writeReplayScript(dir string, spec *CheckSpec, run HarnessRun, cv *confirmedViolation) {
	c := replayCase{ID: "replay", Harness: cv.V.Harness, Shape: cv.V.Shape, Model: cv.V.Model, Sched: cv.V.Sched}
	b, _ := json.Marshal(c)
	os.WriteFile(filepath.Join(dir, "case.jsonl"), append(b, '\n'), 0o644)
	sh := fmt.Sprintf("#!/bin/sh\n# replays this counterexample against /repo's current tree\nexec /verif/bin/symgo replay %s %s\n", spec.ID, dir)
	os.WriteFile(filepath.Join(dir, "replay.sh"), []byte(sh), 0o755)
}

func cleanupOut(dir string) {
	if os.Getenv("SYMGO_KEEP") != "" {
		return
	}
	ents, _ := os.ReadDir(dir)
	for _, e := range ents {
		n := e.Name()
		if strings.HasSuffix(n, ".test") || n == "verifhelper" || strings.HasPrefix(n, "overlay") || strings.HasPrefix(n, "wit_") || strings.HasPrefix(n, "canary_") || (strings.HasPrefix(n, "cex_") && strings.HasSuffix(n, ".jsonl")) {
			os.RemoveAll(filepath.Join(dir, n))
		}
	}
}
