package main

import (
	"go/types"
	"fmt"
	"sort"
	"strings"

	"golang.org/x/tools/go/ssa"
)

var writeMethods = map[string]bool{"CreateTransaction": true, "RevertTransaction": true, "SaveMeta": true, "DeleteMetadata": true}

// funcsOf collects the function values an SSA value may denote (syntactically).
func funcsOf(v ssa.Value, seen map[ssa.Value]bool, out map[*ssa.Function]bool) {
	if v == nil || seen[v] {
		return
	}
	seen[v] = true
	switch v := v.(type) {
	case *ssa.Function:
		out[v] = true
	case *ssa.MakeClosure:
		if f, ok := v.Fn.(*ssa.Function); ok {
			out[f] = true
		}
	case *ssa.ChangeType:
		funcsOf(v.X, seen, out)
	case *ssa.Convert:
		funcsOf(v.X, seen, out)
	case *ssa.MakeInterface:
		funcsOf(v.X, seen, out)
	case *ssa.ChangeInterface:
		funcsOf(v.X, seen, out)
	case *ssa.Phi:
		for _, e := range v.Edges {
			funcsOf(e, seen, out)
		}
	case *ssa.Call:
		// a handler factory: the handler is (among) what the callee builds
		if callee := v.Call.StaticCallee(); callee != nil {
			out[callee] = true
		}
		for _, a := range v.Call.Args {
			funcsOf(a, seen, out)
		}
	}
}

func withAnon(f *ssa.Function, out map[*ssa.Function]bool) {
	if out[f] {
		return
	}
	out[f] = true
	for _, a := range f.AnonFuncs {
		withAnon(a, out)
	}
}

// reachWrites reports a call chain from root to an invocation of a write method, or "".
func reachWrites(root *ssa.Function) string {
	type item struct {
		f    *ssa.Function
		path string
	}
	seen := map[*ssa.Function]bool{}
	queue := []item{{root, root.Name()}}
	for len(queue) > 0 {
		it := queue[0]
		queue = queue[1:]
		if seen[it.f] {
			continue
		}
		seen[it.f] = true
		add := func(g *ssa.Function) {
			if g != nil && !seen[g] && g.Blocks != nil {
				// stay inside the repository's own packages
				if p := g.Package(); p != nil && !strings.HasPrefix(p.Pkg.Path(), ledgerMod) && !strings.HasPrefix(p.Pkg.Path(), libsMod) {
					return
				}
				queue = append(queue, item{g, it.path + " -> " + g.Name()})
			}
		}
		for _, a := range it.f.AnonFuncs {
			add(a)
		}
		for _, b := range it.f.Blocks {
			for _, ins := range b.Instrs {
				var cc *ssa.CallCommon
				switch x := ins.(type) {
				case *ssa.Call:
					cc = &x.Call
				case *ssa.Go:
					cc = &x.Call
				case *ssa.Defer:
					cc = &x.Call
				}
				if cc != nil {
					if cc.IsInvoke() {
						if writeMethods[cc.Method.Name()] {
							return it.path + " -> (interface)." + cc.Method.Name()
						}
					} else if g := cc.StaticCallee(); g != nil {
						if writeMethods[g.Name()] && g.Signature.Recv() != nil {
							return it.path + " -> " + g.String()
						}
						add(g)
					}
				}
				for _, op := range ins.Operands(nil) {
					if op == nil || *op == nil {
						continue
					}
					fs := map[*ssa.Function]bool{}
					switch v := (*op).(type) {
					case *ssa.Function:
						fs[v] = true
					case *ssa.MakeClosure:
						if f, ok := v.Fn.(*ssa.Function); ok {
							fs[f] = true
						}
					}
					for g := range fs {
						add(g)
					}
				}
			}
		}
	}
	return ""
}

// c19Extra: structural checks on the SSA of the routers (not solver verdicts).
func c19Extra(s *Session, tier string) (map[string]any, []string) {
	var viol []string
	ev := map[string]any{}
	apiPkg := ledgerMod + "/internal/api"
	// (1) api.NewRouter installs ReadOnly on the root mux, under `readOnly`, before any route
	nr := s.P.Func(apiPkg, "NewRouter")
	ro := s.P.Func(apiPkg, "ReadOnly")
	if nr == nil || ro == nil {
		return ev, []string{"C19: api.NewRouter or api.ReadOnly not found"}
	}
	type site struct{ block, idx int }
	var useSite *site
	var firstRoute *site
	guarded := false
	var rootMux ssa.Value
	for _, b := range nr.Blocks {
		for i, ins := range b.Instrs {
			c, ok := ins.(*ssa.Call)
			if !ok {
				continue
			}
			if callee := c.Call.StaticCallee(); callee != nil && (callee.Name() == "NewRouter" || callee.Name() == "NewMux") && callee.Package() != nil && strings.Contains(callee.Package().Pkg.Path(), "go-chi/chi") && rootMux == nil {
				rootMux = c
			}
			name := ""
			if c.Call.IsInvoke() {
				name = c.Call.Method.Name()
			} else if callee := c.Call.StaticCallee(); callee != nil && callee.Signature.Recv() != nil {
				name = callee.Name()
			}
			switch name {
			case "Use":
				fs := map[*ssa.Function]bool{}
				for _, a := range c.Call.Args {
					// variadic: the slice is built from stores; look at all function operands in the block
					funcsOf(a, map[ssa.Value]bool{}, fs)
				}
				// variadic args are stored into a fresh array: scan the block's stores
				for _, ins2 := range b.Instrs {
					if st, ok := ins2.(*ssa.Store); ok {
						funcsOf(st.Val, map[ssa.Value]bool{}, fs)
					}
				}
				if fs[ro] && useSite == nil {
					useSite = &site{b.Index, i}
					// guarded by `if readOnly`?
					for _, p := range b.Preds {
						if iff, ok := p.Instrs[len(p.Instrs)-1].(*ssa.If); ok {
							if prm, ok := iff.Cond.(*ssa.Parameter); ok && prm.Name() == "readOnly" && p.Succs[0] == b {
								guarded = true
							}
						}
					}
					// receiver must be the root mux
					recv := c.Call.Value
					if !c.Call.IsInvoke() && len(c.Call.Args) > 0 {
						recv = c.Call.Args[0]
					}
					if mi, ok := recv.(*ssa.MakeInterface); ok {
						recv = mi.X
					}
					ev["readonly_installed_on_root_mux"] = recv == rootMux
					if recv != rootMux {
						viol = append(viol, "C19: ReadOnly is installed on a router other than the root mux of api.NewRouter")
					}
				}
			case "Route", "Mount", "Get", "Post", "Put", "Delete", "Head", "Options", "Patch", "Handle", "HandleFunc", "Method", "MethodFunc", "Group", "With":
				if firstRoute == nil {
					firstRoute = &site{b.Index, i}
				}
			}
		}
	}
	ev["readonly_use_found"] = useSite != nil
	ev["readonly_guarded_by_flag"] = guarded
	if useSite == nil {
		viol = append(viol, "C19: api.NewRouter never installs the ReadOnly middleware")
	} else {
		if !guarded {
			viol = append(viol, "C19: ReadOnly is not installed under `if readOnly`")
		}
		if firstRoute != nil && (firstRoute.block < useSite.block || (firstRoute.block == useSite.block && firstRoute.idx < useSite.idx)) {
			viol = append(viol, "C19: a route is mounted before the ReadOnly middleware is installed")
		}
	}
	// (2) no handler registered under GET/HEAD/OPTIONS (or an any-method registration) reaches a write
	routes := 0
	var routeList []string
	for _, pkg := range []string{ledgerMod + "/internal/api/v1", ledgerMod + "/internal/api/v2"} {
		root := s.P.Func(pkg, "NewRouter")
		if root == nil {
			viol = append(viol, "C19: "+pkg+".NewRouter not found")
			continue
		}
		fns := map[*ssa.Function]bool{}
		withAnon(root, fns)
		for f := range fns {
			for _, b := range f.Blocks {
				for _, ins := range b.Instrs {
					c, ok := ins.(*ssa.Call)
					if !ok {
						continue
					}
					name := ""
					args := c.Call.Args
					if c.Call.IsInvoke() {
						name = c.Call.Method.Name()
					} else if callee := c.Call.StaticCallee(); callee != nil && callee.Signature.Recv() != nil {
						name = callee.Name()
						if len(args) > 0 {
							args = args[1:]
						}
					}
					safeMethod := name == "Get" || name == "Head" || name == "Options" || name == "Connect" || name == "Trace"
					anyMethod := name == "Handle" || name == "HandleFunc" || name == "Method" || name == "MethodFunc" || name == "NotFound" || name == "MethodNotAllowed"
					if !safeMethod && !anyMethod {
						continue
					}
					if len(args) < 1 {
						continue
					}
					routes++
					pattern := "?"
					if k, ok := args[0].(*ssa.Const); ok {
						pattern = k.Value.ExactString()
					}
					hs := map[*ssa.Function]bool{}
					for _, a := range args[len(args)-1:] {
						funcsOf(a, map[ssa.Value]bool{}, hs)
					}
					routeList = append(routeList, fmt.Sprintf("%s %s %s", pkg[strings.LastIndex(pkg, "/")+1:], name, pattern))
					for h := range hs {
						if chain := reachWrites(h); chain != "" {
							viol = append(viol, fmt.Sprintf("C19: handler registered with %s %s in %s reaches a write: %s", name, pattern, pkg, chain))
						}
					}
				}
			}
		}
	}
	// The middleware judges the method the request arrived with and chi routes on its own
	// copy of it: nothing in the API packages may rewrite either after the check.
	rewrites := 0
	for _, sp := range s.P.Prog.AllPackages() {
		path := sp.Pkg.Path()
		if !strings.HasPrefix(path, ledgerMod+"/internal/api") {
			continue
		}
		seenFn := map[*ssa.Function]bool{}
		for _, m := range sp.Members {
			if f, ok := m.(*ssa.Function); ok {
				withAnon(f, seenFn)
			}
		}
		for f := range seenFn {
			if strings.HasPrefix(f.Name(), "ZZ_") || strings.HasPrefix(f.Name(), "zz") || (f.Parent() != nil && (strings.HasPrefix(f.Parent().Name(), "ZZ_") || strings.HasPrefix(f.Parent().Name(), "zz"))) {
				continue // the harnesses build their own requests
			}
			for _, b := range f.Blocks {
				for _, in := range b.Instrs {
					st, ok := in.(*ssa.Store)
					if !ok {
						continue
					}
					fa, ok := st.Addr.(*ssa.FieldAddr)
					if !ok {
						continue
					}
					pt, ok := fa.X.Type().Underlying().(*types.Pointer)
					if !ok {
						continue
					}
					stt, ok := pt.Elem().Underlying().(*types.Struct)
					if !ok {
						continue
					}
					owner := pt.Elem().String()
					field := stt.Field(fa.Field).Name()
					if (owner == "net/http.Request" && field == "Method") || (strings.HasSuffix(owner, "chi/v5.Context") && (field == "RouteMethod" || field == "methodNotAllowed")) {
						rewrites++
						viol = append(viol, fmt.Sprintf("C19: %s rewrites %s.%s after the read-only check has judged the request", f.String(), owner, field))
					}
				}
			}
		}
	}
	ev["method_rewrites_in_api_packages"] = rewrites
	sort.Strings(routeList)
	ev["read_routes_examined"] = routes
	ev["read_routes"] = routeList
	ev["structural_checks"] = "SSA walk of api.NewRouter (ReadOnly installed on the root mux under the flag, before any route) and call-graph reachability from every GET/HEAD/OPTIONS/any-method handler of v1 and v2 to Ledger.CreateTransaction/RevertTransaction/SaveMeta/DeleteMetadata — a syntactic over-approximation, not a solver verdict"
	return ev, viol
}
