package main

import (
	"fmt"

	"symgo/interp"
	"symgo/numgen"
)

const vmPkg = ledgerMod + "/internal/machine/vm"

func allShapes(s *Session, tier string) []int {
	out := make([]int, len(s.Shapes))
	for i := range out {
		out[i] = i
	}
	return out
}

// sampledShapes: every program of the quick part, and one in `stride` of the three-leaf
// programs the thorough tier adds (the differential and the crash check cost three to
// four times what the floor rule costs per program).
func sampledShapes(stride int) func(s *Session, tier string) []int {
	return func(s *Session, tier string) []int {
		nq := len(numgen.Generate("quick"))
		var out []int
		for i := range s.Shapes {
			if i < nq || (i-nq)%stride == 0 {
				out = append(out, i)
			}
		}
		return out
	}
}

func shapeDesc(s *Session, i int) string {
	if i < len(s.Shapes) {
		return s.Shapes[i].Script
	}
	return fmt.Sprint("shape ", i)
}

func vmCfg(tier string) interp.Config {
	return interp.Config{PanicIsViolation: true, MaxSteps: 3_000_000}
}

var numgenBounds = func(tier string) map[string]any {
	if tier == "thorough" {
		return map[string]any{"numscript_programs": "NumGen thorough: every program of the quick tier, plus sources of exactly 3 leaves (depth<=2; plain/bounded/unbounded overdraft/world; at most one special leaf; set partitions of accounts) met with the 16 destination forms and send-all — one combination in sixteen, a fixed stride (the full product is about 11k programs and does not finish within an hour): about 1200 programs", "integers": "unbounded (SMT Int)", "portions": "concrete"}
	}
	return map[string]any{"numscript_programs": "NumGen quick: sources of depth<=2 with <=2 leaves (plain/bounded/unbounded overdraft/world; at most one special leaf), set partitions of accounts, 4-14 destination forms, send-all, allotment sources over 6 sub-sources, two-statement programs", "integers": "unbounded (SMT Int)", "portions": "concrete"}
}

var vmStubs = []string{
	"compiler.Compile runs natively (ANTLR parser + code generator built from the current tree); the resulting Program is lifted into the engine",
	"math/big.Int modelled as SMT Int; big.Rat concrete",
	"fmt/errors/strings/regexp intrinsics as listed in DESIGN §3.7",
	"map iteration in insertion order",
	"StaticStore supplies the symbolic opening balances",
}

// countShapes evaluates a niladic harness function (e.g. ZZ_C12OddN) to get the number of shapes.
func countShapes(pkg, fn string) func(s *Session, tier string) []int {
	return func(s *Session, tier string) []int {
		f := s.P.Func(pkg, fn)
		if f == nil {
			panic("no function " + fn)
		}
		n, err := s.In.EvalInt(f)
		if err != nil {
			panic(err)
		}
		out := make([]int, n)
		for i := range out {
			out[i] = i
		}
		return out
	}
}

func plainDesc(prefix string) func(s *Session, i int) string {
	return func(s *Session, i int) string { return fmt.Sprintf("%s #%d", prefix, i) }
}

const cmdPkg = ledgerMod + "/internal/engine/command"

// harnessDesc describes a shape by evaluating the harness's own Desc function.
func harnessDesc(pkg, fn, prefix string) func(s *Session, i int) string {
	return func(s *Session, i int) string {
		if f := s.P.Func(pkg, fn); f != nil {
			if d, err := s.In.EvalString(f, i); err == nil {
				return prefix + " " + d
			}
		}
		return fmt.Sprintf("%s #%d", prefix, i)
	}
}

func kindDesc(s *Session, i int) string {
	names := []string{"create(script)", "create(postings)", "revert", "set account metadata", "set transaction metadata", "delete account metadata", "delete transaction metadata"}
	if i < len(names) {
		return "write kind: " + names[i]
	}
	return fmt.Sprint("kind ", i)
}

func kindModeDesc(s *Session, i int) string {
	modes := []string{"real", "preview", "twice through one idempotency key"}
	return kindDesc(s, i/3) + ", mode: " + modes[i%3]
}

func cmdCfg(tier string) interp.Config {
	return interp.Config{PanicIsViolation: true, MaxSteps: 5_000_000}
}

func commandRun(fn string, shapes func(s *Session, tier string) []int, desc func(s *Session, i int) string, canary []int) HarnessRun {
	return HarnessRun{Pkg: cmdPkg, Dir: "internal/engine/command", Mod: "ledger", Fn: fn, Shapes: shapes, Cfg: cmdCfg, Desc: desc, CanaryShapes: canary}
}

func rangeShapes(n int) func(s *Session, tier string) []int {
	return func(s *Session, tier string) []int {
		out := make([]int, n)
		for i := range out {
			out[i] = i
		}
		return out
	}
}

var cmdStubs = []string{
	"storage.InMemoryStore (the repository's own test double) stands for the durable database; each Store call is atomic",
	"symbolic pre-state: one preloaded chained log with arbitrary id L and one committed transaction with arbitrary id N (all that Commander.Init reads)",
	"time.Now is a deterministic counter clock; logging is a no-op; pond.Submit(f) = go f()",
	"sha256 values are opaque tokens compared structurally (injectivity assumed); encoding/json is modelled over ropes (DESIGN §3.7)",
	"compiler.Compile (ANTLR) runs natively in a helper built from the current tree; command.Compiler.Compile and its cache are interpreted (sha256 = injective token, gcache = bounded LFU model)",
	"sequential requests: scheduler is deterministic (no pre-emption) in this check",
}

var cmdEncoded = []string{"command.(*Commander).CreateTransaction/RevertTransaction/SaveMeta/DeleteMetadata/exec/chainLog/nextTXID/Init", "command.(*executionContext).run/AppendLog", "command.(*DefaultLocker).Lock", "command.(*Referencer).take/release", "batching.(*Batcher).Append/nextBatch", "job.(*Runner).Run", "ledger.TxToScriptData", "ledger.(*Log).ChainLog", "ledger.(*ChainedLog).ComputeHash", "storage.(*InMemoryStore).*", "vm.*"}

var cmdBounds = func(tier string) map[string]any {
	return map[string]any{"requests": "sequential, 1-4 per scenario", "pre_state": "symbolic (L, N, opening balances)", "amounts": "unbounded integers (SMT Int)", "preemptions": 0}
}

var vmEncoded = []string{"vm.Run", "vm.(*Machine).Execute/tick/withdrawAll/withdrawAlways/credit/repay", "vm.(*Machine).ResolveResources/ResolveBalances/SetVarsFromJSON", "machine.Funding.Take/TakeMax/Concat/Total/Reverse", "machine.Allotment.Allocate", "machine.NewAllotment", "machine.MonetaryInt.*", "machine.NewValueFromString", "machine.ParseMonetary", "program.(*Program).ParseVariablesJSON"}

func vmRun(fn string, canary int) HarnessRun {
	return HarnessRun{Pkg: vmPkg, Dir: "internal/machine/vm", Mod: "ledger", Fn: fn, Shapes: allShapes, Cfg: vmCfg, Desc: shapeDesc, Canary: canary}
}

const v2Pkg = ledgerMod + "/internal/api/v2"
const compilerPkg = ledgerMod + "/internal/machine/script/compiler"
const batchPkg = ledgerMod + "/internal/engine/utils/batching"
const queryPkg = libsMod + "/query"
const v1Pkg = ledgerMod + "/internal/api/v1"

const apiPkg = ledgerMod + "/internal/api"

const lsPkg = ledgerMod + "/internal/storage/ledgerstore"

func concCfg(quickP, thoroughP int, crash bool) func(tier string) interp.Config {
	return func(tier string) interp.Config {
		p := quickP
		if tier == "thorough" {
			p = thoroughP
		}
		return interp.Config{PanicIsViolation: true, MaxSteps: 5_000_000, Preemptions: p, SchedDecide: true, SelectDecide: true, Crash: crash}
	}
}

var concStubs = []string{
	"scheduling points: a Yield before every statement of commander.go, context.go, lock.go, reference.go, batcher.go, jobs.go, linked_list.go (overlay instrumentation); between two yields a thread runs atomically",
	"all schedules with at most p pre-emptions (CHESS-style bound); switches forced by blocking are free and all explored; select among several ready cases is explored",
	"helper goroutines without scheduling points (the VM's printer) run as soon as they can",
	"sync.Mutex/WaitGroup/Map, atomic.Int64, context and channels are modelled by the engine with Go's blocking semantics",
}

func concRun(fn, nfn, dfn, prefix string, quickP, thoroughP int, crash bool, quickShapes []int, canary []int) HarnessRun {
	return HarnessRun{Pkg: cmdPkg, Dir: "internal/engine/command", Mod: "ledger", Fn: fn,
		Shapes: func(s *Session, tier string) []int {
			all := countShapes(cmdPkg, nfn)(s, tier)
			if tier == "thorough" || quickShapes == nil {
				return all
			}
			return quickShapes
		},
		Cfg: func(tier string) interp.Config {
			c := concCfg(quickP, thoroughP, crash)(tier)
			c.SchedDecide = false // switches forced by blocking go to the lowest thread id
			return c
		},
		Desc: harnessDesc(cmdPkg, dfn, prefix), CanaryShapes: canary}
}

// onlyShapes restricts a run to the given shapes.
func onlyShapes(r HarnessRun, shapes []int) HarnessRun {
	r.Shapes = func(s *Session, tier string) []int { return shapes }
	return r
}

// thoroughOnly makes a run contribute jobs in the thorough tier only.
func thoroughOnly(r HarnessRun, tag string) HarnessRun {
	inner := r.Shapes
	r.Tag = tag
	r.Shapes = func(s *Session, tier string) []int {
		if tier != "thorough" {
			return nil
		}
		return inner(s, tier)
	}
	return r
}

func concBounds(what string, crash bool) func(tier string) map[string]any {
	return func(tier string) map[string]any {
		p := 1
		if tier == "thorough" {
			p = 2
		}
		b := map[string]any{"scenarios": what, "preemption_budget": fmt.Sprintf("1 on every scenario (both tiers); thorough adds budget %d on the two-request base scenarios (without the crash decision where the check has one): budget 2 over every scenario does not finish within 45 min", p), "blocking_switches": "deterministic (lowest thread id = creation order); every pre-emption at a statement boundary of the instrumented files within the budget is explored", "data": "opening balance, amounts, last log id L and last transaction id N symbolic", "threads": "main, one per client request, commander runner, batch worker (and their second generation after a restart)"}
		if crash {
			b["crash"] = "the process may stop at any statement boundary of any non-main thread (spends one unit of the budget); the harness then restarts a commander on the same store"
		}
		return b
	}
}

var concAssume = append(append([]string{}, concStubs...), cmdStubs[0], cmdStubs[1], cmdStubs[2], cmdStubs[3], cmdStubs[4])

const bpPkg = libsMod + "/bun/bunpaginate"

func bpRun(fn, nfn, dfn, prefix string, canary []int) HarnessRun {
	return HarnessRun{Pkg: bpPkg, Dir: "bun/bunpaginate", Mod: "libs", Fn: fn, Shapes: countShapes(bpPkg, nfn), Cfg: cmdCfg, Desc: harnessDesc(bpPkg, dfn, prefix), CanaryShapes: canary}
}

var specs = map[string]*CheckSpec{
	"C17": {
		ID: "C17", Patterns: []string{bpPkg, lsPkg},
		Runs: []HarnessRun{bpRun("ZZ_C17Col", "ZZ_C17ColN", "ZZ_C17ColDesc", "column pagination:", []int{5, 12}), bpRun("ZZ_C17Off", "ZZ_C17OffN", "ZZ_C17OffDesc", "offset pagination:", []int{3}),
			bpRun("ZZ_C17Tok", "ZZ_C17TokN", "ZZ_C17TokDesc", "cursor token:", []int{1}),
			bpRun("ZZ_C17OffWalk", "ZZ_C17OffWalkN", "ZZ_C17OffWalkDesc", "", []int{0}),
			{Pkg: lsPkg, Dir: "internal/storage/ledgerstore", Mod: "ledger", Fn: "ZZ_C17Cursor", Shapes: countShapes(lsPkg, "ZZ_C17CursorN"), Cfg: cmdCfg, Desc: harnessDesc(lsPkg, "ZZ_C17CursorDesc", "cursor round trip:"), CanaryShapes: []int{0}},
			{Pkg: lsPkg, Dir: "internal/storage/ledgerstore", Mod: "ledger", Fn: "ZZ_C17Filter", Shapes: func(s *Session, tier string) []int {
				if tier == "thorough" {
					return []int{0, 1, 2, 3}
				}
				return []int{0, 1, 2}
			}, Cfg: cmdCfg, Desc: harnessDesc(lsPkg, "ZZ_C17FilterDesc", "cursor filter:"), CanaryShapes: []int{1}}},
		Bounds: func(tier string) map[string]any {
			return map[string]any{"column_pagination": "collections of 0..4 rows with arbitrary increasing ids, every page size 1..n+1, both orders: full forward traversal and previous from every page", "offset_pagination": "collections of 0..4 rows; offset (< 2^31: bun keeps OFFSET as int32, larger offsets need a collection of 2^31 rows) and page size (1..1000, the v1 maximum) are arbitrary 64-bit values: one-step law; full walks over 105 and 230 rows with page size arbitrary in 90..1000", "cursor_token": "a filter value of 1..4 arbitrary printable bytes inside the query: the token written by EncodeCursor is read back by UnmarshalCursor (base64 alphabet and padding modelled bit-exactly for byte-determined texts)", "cursor_filter": "every filter tree of depth <= 2 over {$match,$lt,$and,$or,$not}, sets of up to 3 items at depth 1 and up to 2 (thorough 3) at depth 2: the builder decoded from the cursor renders the same clause", "cursor": "every cursor handed out is decoded again through UnmarshalCursor (base64 + JSON model); cursors of the transactions / accounts / logs listings with and without a filter round-trip and build the same WHERE clause", "outside": "bun's SQL generation and PostgreSQL's ordering (the table is an abstract ordered relation; natively a fake database/sql driver)"}
		},
		Assumptions: []string{"*bun.SelectQuery is an abstract ordered table: Where/OrderExpr/Offset/Limit/Scan have their SQL meaning; negative LIMIT/OFFSET is an error", "row ids are distinct (strictly increasing)", "reflect is answered from go/types", "encoding/json and base64 modelled over ropes"},
		Encoded:     []string{"bunpaginate.UsingColumn", "bunpaginate.UsingOffset", "bunpaginate.(*ColumnPaginatedQuery).EncodeAsCursor", "bunpaginate.(*OffsetPaginatedQuery).EncodeAsCursor", "bunpaginate.EncodeCursor", "bunpaginate.UnmarshalCursor", "bunpaginate.Order.Reverse", "bunpaginate.(*BigInt).MarshalJSON/UnmarshalJSON", "ledgerstore.(*PaginatedQueryOptions).UnmarshalJSON", "query.set/keyValue/not.MarshalJSON", "query.ParseJSON"},
		Rule:        "per (collection size, page size, order): ids symbolic; the traversal's page boundaries are decided by the solver from the ordering assumptions; per collection size: offset and page size symbolic",
		MaxPaths: func(tier string) int { return 400000 },
	},
	"C02": {
		ID: "C02", Patterns: []string{cmdPkg}, NeedHelper: true, Instrument: true,
		Runs: []HarnessRun{concRun("ZZ_C02", "ZZ_C02N", "ZZ_C02Desc", "", 1, 1, false, nil, []int{0, 2}),
			thoroughOnly(onlyShapes(concRun("ZZ_C02", "ZZ_C02N", "ZZ_C02Desc", "budget 2:", 2, 2, false, nil, []int{}), []int{0}), "-p2")},
		Bounds:      concBounds("two concurrent sends (a fixed amount or everything: send [ASSET *]) from one account, the source named literally / by an account variable / through meta(); 5 combinations", false),
		Assumptions: concAssume, Encoded: cmdEncoded,
		Rule:        "after quiescence the persisted log is replayed in order from the symbolic opening balance: every posting must be covered at its position; every Lock call must carry the resolved source in its write set",
		MaxPaths:    func(tier string) int { return 2000000 },
	},
	"C05": {
		ID: "C05", Patterns: []string{cmdPkg}, NeedHelper: true, Instrument: true,
		Runs: []HarnessRun{concRun("ZZ_C05", "ZZ_C05N", "ZZ_C05Desc", "", 1, 1, true, []int{0, 1, 2, 3, 4, 5, 7, 9}, []int{0, 3}),

			concRun("ZZ_C05Fresh", "ZZ_C05FreshN", "ZZ_C05FreshDesc", "", 1, 1, true, nil, []int{1})},
		Bounds: func(tier string) map[string]any {
			b := concBounds("2 (thorough: also 3) concurrent writes (create on a locked account, create from world only, create whose client gives up at an arbitrary moment, a dry-run create among the real writes, set/delete metadata, revert), then stop-or-crash, restart on the same store and one more create", true)(tier)
			b["from_empty"] = "6 staged histories on a ledger that starts empty (1-2 concurrent writes per stage, stop-or-crash and restart between stages, including restarts while the log holds no transaction); budget 1 in both tiers"
			return b
		},
		Assumptions: concAssume, Encoded: cmdEncoded,
		Rule:        "at quiescence and again after the restart: log ids L+1.. in insertion order, every hash recomputed from its predecessor, transaction ids N+1.. in log order (from an empty ledger: ids and transaction ids from 0, first entry chained on nothing)",
		MaxPaths:    func(tier string) int { return 2000000 },
	},
	"C06": {
		ID: "C06", Patterns: []string{cmdPkg, batchPkg}, NeedHelper: true, Instrument: true,
		Runs: []HarnessRun{concRun("ZZ_C06", "ZZ_C06N", "ZZ_C06Desc", "", 1, 1, true, []int{0, 1, 2, 3, 6, 7, 10, 11, 14, 16, 18}, []int{0, 6}),

			{Pkg: batchPkg, Dir: "internal/engine/utils/batching", Mod: "ledger", Fn: "ZZ_C06Batch", Shapes: rangeShapes(18), Cfg: cmdCfg, Desc: harnessDesc(batchPkg, "ZZ_C06BatchDesc", "batch composition:"), CanaryShapes: []int{3}}},
		Bounds: func(tier string) map[string]any {
			b := concBounds("2 (thorough: also 3) concurrent writes with distinct markers (one of them possibly abandoned by its client at an arbitrary moment), with and without an injectable InsertLogs failure", true)(tier)
			b["batch_composition"] = "Batcher.nextBatch from 0..5 pending items (arbitrary values), maximum batch size 1..3, two more arrivals between the cuts: the real maximum (4096) is a parameter of the same code"
			return b
		},
		Assumptions: append([]string{"a failing InsertLogs persists nothing (one database transaction per batch)"}, concAssume...), Encoded: cmdEncoded,
		Rule:        "at the instant a write returns success its marker must be in the persisted log; at quiescence acknowledged writes and log entries are in bijection, failed writes left nothing, every entry belongs to a request",
		MaxPaths:    func(tier string) int { return 2000000 },
	},
	"C07": {
		ID: "C07", Patterns: []string{cmdPkg}, NeedHelper: true, Instrument: true,
		Runs: []HarnessRun{concRun("ZZ_C07", "ZZ_C07N", "ZZ_C07Desc", "", 1, 1, true, nil, []int{0, 1}),
			thoroughOnly(onlyShapes(concRun("ZZ_C07", "ZZ_C07N", "ZZ_C07Desc", "no crash, budget 2:", 2, 2, false, nil, []int{}), []int{0, 1, 2, 3}), "-p2")},
		Bounds: func(tier string) map[string]any {
			b := concBounds("two concurrent writes with one idempotency key (create/create, metadata/metadata, create/metadata, revert/revert; and create/create or metadata/metadata plus a third, key-less create whose transaction reference equals the key; keys of 255 and 256 bytes), then stop-or-crash, restart and a retry with the same key", true)(tier)
			b["preemption_budget"] = "1 with the crash decision (both tiers); thorough adds a second pass with budget 2 and no crash over the four two-request scenarios (crash x budget 2 does not finish: > 60 min, > 20 GB)"
			return b
		},
		Assumptions: concAssume, Encoded: cmdEncoded,
		Rule:        "at most one log entry carries the key; all successful responses name the same transaction",
		MaxPaths:    func(tier string) int { return 2000000 },
	},
	"C11": {
		ID: "C11", Patterns: []string{cmdPkg}, NeedHelper: true, Instrument: true,
		Runs: []HarnessRun{concRun("ZZ_C11", "ZZ_C11N", "ZZ_C11Desc", "", 1, 1, false, nil, []int{0}),
			thoroughOnly(onlyShapes(concRun("ZZ_C11", "ZZ_C11N", "ZZ_C11Desc", "budget 2:", 2, 2, false, nil, []int{}), []int{0, 2}), "-p2")},
		Bounds:      concBounds("2-3 concurrent creates sharing one reference (plain, padded with white space, or with URL-ish characters; each may succeed or fail on funds), then a later create with the same reference", false),
		Assumptions: concAssume, Encoded: cmdEncoded,
		Rule:        "at most one committed transaction carries the reference; accepted requests = committed transactions; the later request is rejected with a conflict",
		MaxPaths:    func(tier string) int { return 2000000 },
	},
	"C15": {
		ID: "C15", Patterns: []string{cmdPkg}, Instrument: true,
		Runs: []HarnessRun{{Pkg: cmdPkg, Dir: "internal/engine/command", Mod: "ledger", Fn: "ZZ_C15", Shapes: countShapes(cmdPkg, "ZZ_C15N"),
			Cfg: concCfg(1, 2, false), Desc: harnessDesc(cmdPkg, "ZZ_C15Desc", "lock requests:"), CanaryShapes: []int{0, 5}},
			{Pkg: cmdPkg, Dir: "internal/engine/command", Mod: "ledger", Fn: "ZZ_C15Stage", Shapes: countShapes(cmdPkg, "ZZ_C15StageN"),
				Cfg: concCfg(1, 2, false), Desc: harnessDesc(cmdPkg, "ZZ_C15StageDesc", "staged releases:"), CanaryShapes: []int{0}}},
		Bounds: func(tier string) map[string]any {
			p := 1
			if tier == "thorough" {
				p = 2
			}
			return map[string]any{"requests": "21 populations of 2-3 requests with read/write sets (up to two accounts each, an account possibly in both sets of one request) over accounts {x,y,z}, optionally one request cancelled by a separate thread at an arbitrary moment", "staged_releases": "8 populations of 3 requests whose holders release one at a time in a given order; at every rest point a pending request must conflict with a current holder", "preemptions": p, "threads": "one per request, one per cancellation, main"}
		},
		Assumptions: concStubs,
		Encoded:     []string{"command.(*DefaultLocker).Lock", "command.(*lockIntent).tryLock/unlock", "collectionutils.(*LinkedList).Append/RemoveValue/RemoveFirst/FirstNode", "collectionutils.(*LinkedListNode).Remove/Next/Value"},
		Rule:        "every schedule within the pre-emption bound; the inputs are schedules (decisions), the solver confirms feasibility; exclusion is checked when Lock returns, progress and no-leftover at quiescence; with staged releases, at every rest point no request is pending without a conflicting holder",
		MaxPaths:    func(tier string) int { return 2000000 },
	},
	"C20": {
		ID: "C20", Patterns: []string{lsPkg, queryPkg},
		Runs: []HarnessRun{{Pkg: lsPkg, Dir: "internal/storage/ledgerstore", Mod: "ledger", Fn: "ZZ_C20",
			Shapes: func(s *Session, tier string) []int {
				all := countShapes(lsPkg, "ZZ_C20N")(s, tier)
				maxLen := 3
				if tier == "thorough" {
					maxLen = 4
				}
				var out []int
				for _, i := range all {
					if i%5 <= maxLen {
						out = append(out, i)
					}
				}
				return out
			},
			Cfg: cmdCfg, Desc: harnessDesc(lsPkg, "ZZ_C20Desc", "filter:"), CanaryShapes: []int{1, 46}},
			{Pkg: queryPkg, Dir: "query", Mod: "libs", Fn: "ZZ_C20Op", Shapes: rangeShapes(4), Cfg: cmdCfg, Desc: harnessDesc(queryPkg, "ZZ_C20OpDesc", ""), CanaryShapes: []int{0}}},
		Bounds: func(tier string) map[string]any {
			n := 3
			if tier == "thorough" {
				n = 4
			}
			return map[string]any{"client_text": fmt.Sprintf("every byte string of length 0..%d (symbolic bytes)", n), "filters": "16 (listing, key, operator) cases: address/account/source/destination/reference/timestamp/metadata[k] value and key/balance[asset] value and asset/balance/date over the account, transaction, aggregated-balance and log listings", "operator_keys": "a set operator key of the filter body = $and / $or followed by 0..3 arbitrary bytes: refused, or the clause of the plain operator", "outside": "bun's rendering of bound arguments; the HTTP layer (passes strings through unchanged)"}
		},
		Assumptions: []string{"bun renders `?` arguments as escaped literals (library contract)", "PostgreSQL with standard_conforming_strings (backslash is not an escape in '...' literals)", "the oracle is a scanner of SQL token kinds (and of JSON/jsonpath token kinds inside literals) written in the harness"},
		Encoded:     []string{"ledgerstore.filterAccountAddress", "ledgerstore.filterAccountAddressOnTransactions", "ledgerstore.(*Store).accountQueryContext", "ledgerstore.(*Store).transactionQueryContext", "ledgerstore.(*Store).GetAggregatedBalances (matcher closure, reached through a probing query.Builder)", "ledgerstore.(*Store).logsQueryBuilder", "query.keyValue.Build", "ledgerstore.validateAddressFilter"},
		Rule:        "per filter case and length: the clause built for arbitrary bytes is tokenised and compared with the clause built for the harmless string of the same shape; every byte's class is a solver-constrained decision",
		MaxPaths:    func(tier string) int { return 400000 },
	},
	"C19": {
		ID: "C19", Patterns: []string{apiPkg},
		Runs: []HarnessRun{{Pkg: apiPkg, Dir: "internal/api", Mod: "ledger", Fn: "ZZ_C19", Shapes: countShapes(apiPkg, "ZZ_C19N"), Cfg: cmdCfg,
			Desc: harnessDesc(apiPkg, "ZZ_C19Desc", "request:"), CanaryShapes: []int{3, 5}}},
		Bounds: func(tier string) map[string]any {
			return map[string]any{"method": "every byte string of length 0..8 (symbolic bytes)", "path_and_query": "4 write paths of v1/v2 x 5 query strings (none, preview, dryRun, both, mixed)", "routes": "all routes registered by v1.NewRouter and v2.NewRouter (structural check)", "outside": "chi's matcher, third-party middlewares, request bodies (irrelevant once the method is refused before routing)"}
		},
		Assumptions: []string{"http.ResponseWriter is a recording stub", "layer 2/3 (router structure, handler call graph) are syntactic SSA checks, not solver verdicts"},
		Encoded:     []string{"api.ReadOnly", "libs/api.BadRequest/WriteErrorResponse"},
		Rule:        "one job per method length; the method bytes are solver variables, the wrapped handler sets a flag; plus SSA structure checks of the three routers",
		Extra:       c19Extra,
	},
	"C18": {
		ID: "C18", Patterns: []string{v2Pkg},
		Runs: []HarnessRun{{Pkg: v2Pkg, Dir: "internal/api/v2", Mod: "ledger", Fn: "ZZ_C18", Shapes: func(s *Session, tier string) []int {
			if tier == "thorough" {
				return []int{0, 1, 2, 3, 4, 5}
			}
			return []int{0, 1, 2, 3, 4}
		}, Cfg: cmdCfg,
			Desc: func(s *Session, i int) string {
				via := "ProcessBulk"
				if i >= 3 {
					via = "bulkHandler (JSON body, continueOnFailure parameter, status code, JSON answer)"
				}
				return fmt.Sprintf("bulk of %d element(s) through %s, arbitrary actions/outcomes/continueOnFailure", i%3+1, via)
			}, CanaryShapes: []int{0, 1, 3}},
			{Pkg: v2Pkg, Dir: "internal/api/v2", Mod: "ledger", Fn: "ZZ_C18Args", Shapes: rangeShapes(2), Cfg: cmdCfg, Desc: harnessDesc(v2Pkg, "ZZ_C18ArgsDesc", ""), CanaryShapes: []int{0}},
			{Pkg: v2Pkg, Dir: "internal/api/v2", Mod: "ledger", Fn: "ZZ_C18Two", Shapes: rangeShapes(2), Cfg: cmdCfg, Desc: harnessDesc(v2Pkg, "ZZ_C18TwoDesc", ""), CanaryShapes: []int{0}}},
		Bounds: func(tier string) map[string]any {
			return map[string]any{"elements": "1..3 through ProcessBulk; 1..2 (thorough 3) through bulkHandler with the continueOnFailure parameter absent or an arbitrary alphanumeric string of 1..4 bytes (it asks for the flag exactly when it spells true in any case, or 1)", "actions": "the four known actions, an unknown one, a known action whose payload does not decode and a metadata element on an unknown target type, chosen per element", "outcomes": "success or failure per element (symbolic Bool), three error classes", "continueOnFailure": "symbolic Bool", "element_arguments": "bulks of 2..3 ADD_METADATA / DELETE_METADATA elements (accounts and transactions with arbitrary ids; metadata and key present or absent per element): each reaches the engine with its own arguments", "two_requests": "two bulks of 1..2 elements one after the other through bulkHandler, the second omitting idempotency keys the first supplied", "payloads": "concrete JSON per element kind (decoded by the JSON model)"}
		},
		Assumptions: []string{"backend.Ledger is a recording stub whose four write methods succeed or fail as the symbolic inputs say", "encoding/json modelled over ropes", "the HTTP request is built by the harness (body = JSON model of the Bulk value, recording ResponseWriter); chi routing is not executed"},
		Encoded:     []string{"v2.bulkHandler", "v2.ProcessBulk", "libs/api.QueryParamBool", "ledger.(*TransactionRequest).ToRunScript", "ledger.TxToScriptData", "command.IsSaveMetaError/IsDeleteMetaError", "engine.IsCommandError", "machine.IsInsufficientFundError"},
		Rule:        "per bulk length: action and error class are enumerated decisions, failure flags and continueOnFailure are solver variables; backend calls, result positions/types and the failure signal are compared with the in-order reference",
		Workers:     16,
		MaxPaths:    func(tier string) int { return 1500000 },
	},
	"C09": {
		ID: "C09", Patterns: []string{cmdPkg, v2Pkg, v1Pkg}, NeedHelper: true,
		Runs: []HarnessRun{commandRun("ZZ_C09", countShapes(cmdPkg, "ZZ_C09N"), harnessDesc(cmdPkg, "ZZ_C09Desc", "postings (source destination asset):"), []int{1, 40, 545}),
			{Pkg: v2Pkg, Dir: "internal/api/v2", Mod: "ledger", Fn: "ZZ_C09Bulk", Shapes: rangeShapes(2), Cfg: cmdCfg, Desc: harnessDesc(v2Pkg, "ZZ_C09BulkDesc", ""), CanaryShapes: []int{0}},
			{Pkg: v2Pkg, Dir: "internal/api/v2", Mod: "ledger", Fn: "ZZ_C09Http", Shapes: rangeShapes(2), Cfg: cmdCfg, Desc: harnessDesc(v2Pkg, "ZZ_C09HttpDesc", "v2"), CanaryShapes: []int{0}},
			{Pkg: v1Pkg, Dir: "internal/api/v1", Mod: "ledger", Fn: "ZZ_C09Http", Shapes: rangeShapes(2), Cfg: cmdCfg, Desc: harnessDesc(v1Pkg, "ZZ_C09HttpDesc", "v1"), CanaryShapes: []int{0}}},
		Bounds: func(tier string) map[string]any {
			return map[string]any{"postings": "1 posting: all 32 (source,destination,asset) combinations over {world,a,b,c}x{USD/2,EUR}; 2 postings: all 512 combinations with the first over USD/2; 3 postings: 8 chain/repeat/fan patterns", "amounts_and_balances": "unbounded integers (SMT Int), equal/unequal amounts decided by forking on the de-duplication map", "bulk": "bulks of 2..3 posting-mode elements through v2.ProcessBulk: amounts symbolic (decimal text of an SMT Int in the JSON body), presence of metadata (absent / one entry / empty), reference and timestamp arbitrary per element", "http": "v1 and v2 postTransaction with a posting-mode JSON body of 1..2 postings (amounts arbitrary integers inside the text; presence of metadata/reference/timestamp/Idempotency-Key arbitrary) against a recording backend: one engine call carrying exactly TxToScriptData of the body; v1 refuses negative amounts up front", "outside": "chi routing and middlewares in front of the handlers; script-mode bodies"}
		},
		Assumptions: append([]string{"ZZ_C09Bulk: backend.Ledger is a stub recording the RunScript each CreateTransaction call receives"}, cmdStubs...), Encoded: append([]string{"ledger.Postings.Validate", "v1.postTransaction", "v2.postTransaction", "v2.ProcessBulk", "ledger.(*TransactionRequest).ToRunScript", "ledger.TxToScriptData"}, cmdEncoded...),
		Rule: "one job per posting pattern; amounts and opening balances symbolic; committed transaction and persisted log compared posting by posting with the request; acceptance compared with the in-order coverage reading",
	},
	"C10": {
		ID: "C10", Patterns: []string{cmdPkg, v1Pkg, v2Pkg}, NeedHelper: true,
		Instrument: true,
		Runs: []HarnessRun{commandRun("ZZ_C10", countShapes(cmdPkg, "ZZ_C10N"), harnessDesc(cmdPkg, "ZZ_C10Desc", "revert scenario:"), []int{0, 5}),
			commandRun("ZZ_C10Reverse", rangeShapes(8), func(s *Session, i int) string { return fmt.Sprintf("TransactionData.Reverse on %d postings", i) }, []int{4}),
			{Pkg: v2Pkg, Dir: "internal/api/v2", Mod: "ledger", Fn: "ZZ_C10Bulk", Shapes: rangeShapes(2), Cfg: cmdCfg, Desc: harnessDesc(v2Pkg, "ZZ_C10BulkDesc", ""), CanaryShapes: []int{0}},
			{Pkg: v2Pkg, Dir: "internal/api/v2", Mod: "ledger", Fn: "ZZ_C10Http", Shapes: rangeShapes(5), Cfg: cmdCfg, Desc: harnessDesc(v2Pkg, "ZZ_C10HttpDesc", "v2"), CanaryShapes: []int{0, 4}},
			{Pkg: v1Pkg, Dir: "internal/api/v1", Mod: "ledger", Fn: "ZZ_C10Http", Shapes: rangeShapes(5), Cfg: cmdCfg, Desc: harnessDesc(v1Pkg, "ZZ_C10HttpDesc", "v1"), CanaryShapes: []int{0, 4}},
			concRun("ZZ_C10Race", "ZZ_C10RaceN", "ZZ_C10RaceDesc", "", 1, 2, false, nil, []int{0})},
		Bounds: func(tier string) map[string]any {
			return map[string]any{"reverse": "TransactionData.Reverse on 0..7 postings, arbitrary amounts", "bulk": "bulks of 2..3 REVERT_TRANSACTION elements through v2.ProcessBulk, ids arbitrary, force absent/true/false per element", "http": "v1/v2 revertTransaction with an arbitrary id in the URL and the force (v1: disableChecks) parameter absent or an arbitrary alphanumeric string of 1..4 bytes, against a recording backend", "original_transactions": "11 posting patterns (1-5 postings) x forced/unforced x with/without an intermediate spend of the delivered funds", "amounts_and_balances": "unbounded non-negative integers", "racing_reverts": "2-3 concurrent reverts of one transaction, forced and unforced, pre-emption budget 1 (thorough 2), blocking switches deterministic"}
		},
		Assumptions: cmdStubs, Encoded: append([]string{"ledger.(*TransactionData).Reverse", "ledger.Postings.Reverse", "ledger.MarkReverts", "v1.revertTransaction", "v2.revertTransaction", "libs/api.QueryParamBool"}, cmdEncoded...),
		Rule: "create the original, optionally move the funds on, revert (forced or not), revert again; postings, reverted flag, balances and log count compared symbolically",
		MaxPaths: func(tier string) int { return 2000000 },
	},
	"C13": {
		ID: "C13", Patterns: []string{cmdPkg}, NeedHelper: true,
		Runs:   []HarnessRun{commandRun("ZZ_C13", countShapes(cmdPkg, "ZZ_C13N"), harnessDesc(cmdPkg, "ZZ_C13Desc", ""), []int{0, 3})},
		Bounds: func(tier string) map[string]any {
			return map[string]any{"log_kinds": "every write kind x target type the commander can emit (7)", "ids_amounts": "symbolic (transaction ids < 2^62), plus three concrete ids above 2^53 (not representable as float64)", "metadata": "one entry, nil, empty, two entries with an empty value (arbitrary Unicode keys/values are outside the claim)", "after_preview": "each write kind also right after a preview of the same request", "timestamps": "the engine clock, plus six client-supplied timestamps at the edges (zone offsets at the year limits, sub-microsecond fractions that round across a year, 1969, year 1) on both create kinds; formatting of arbitrary instants is outside the claim"}
		},
		Assumptions: cmdStubs, Encoded: append([]string{"ledger.HydrateLog", "ledger.(*ChainedLog).UnmarshalJSON", "ledger.(*SetMetadataLogPayload).UnmarshalJSON", "ledger.LogType.MarshalJSON/UnmarshalJSON", "ledger.LogTypeFromString", "ledger.Time.MarshalJSON/UnmarshalJSON"}, cmdEncoded...),
		Rule: "each log the write path persists is encoded, decoded, re-encoded (text equality as ropes) and its hash recomputed from the round-tripped entry and the predecessor",
	},
	"C14": {
		ID: "C14", Patterns: []string{cmdPkg, v1Pkg, v2Pkg}, NeedHelper: true,
		Runs: []HarnessRun{commandRun("ZZ_C14", rangeShapes(14), func(s *Session, i int) string {
			if i >= 7 {
				return kindDesc(s, i-7) + ", preview of a request whose idempotency key was already used"
			}
			return kindDesc(s, i)
		}, []int{0, 3, 7}),
			{Pkg: v2Pkg, Dir: "internal/api/v2", Mod: "ledger", Fn: "ZZ_C14Flag", Shapes: rangeShapes(12), Cfg: cmdCfg, Desc: harnessDesc(v2Pkg, "ZZ_C14FlagDesc", "v2"), CanaryShapes: []int{0, 3}},
			{Pkg: v1Pkg, Dir: "internal/api/v1", Mod: "ledger", Fn: "ZZ_C14Flag", Shapes: rangeShapes(12), Cfg: cmdCfg, Desc: harnessDesc(v1Pkg, "ZZ_C14FlagDesc", "v1"), CanaryShapes: []int{0, 3}}},
		Bounds: func(tier string) map[string]any {
			m := cmdBounds(tier)
			m["flag_value"] = "v1 preview= and v2 dryRun=: every alphanumeric byte string of length 1..4 (symbolic bytes), alone, after another parameter, with an Idempotency-Key header; escaped or longer values are outside"
			return m
		},
		Assumptions: append([]string{"the spellings that put a request in dry-run mode are the documented boolean (true in any letter case, 1) and the legacy yes (any case) both API versions accept at the pinned commit"}, cmdStubs...),
		Encoded:     append([]string{"v1.getCommandParameters", "v2.getCommandParameters", "net/url.ParseQuery (interpreted)"}, cmdEncoded...),
		Rule: "two-world differential per write kind: [preview, real, later real] against [real, later real] from the same symbolic pre-state; responses, ids, log sequence and published events compared; the same with an idempotency key that was already used ([real w(K), preview w(K)] against [real w(K), real w(K)]); plus, per flag length, Parameters.DryRun compared with the spelling predicate for arbitrary bytes",
	},
	"C16": {
		ID: "C16", Patterns: []string{cmdPkg}, NeedHelper: true, Instrument: true,
		Runs: []HarnessRun{commandRun("ZZ_C16", rangeShapes(27), func(s *Session, i int) string {
			if i >= 21 {
				return []string{"revert", "set transaction metadata", "delete transaction metadata"}[(i-21)/2] + " of a transaction that does not exist" + []string{"", ", with an idempotency key"}[(i-21)%2]
			}
			return kindModeDesc(s, i)
		}, []int{0, 9}),
			concRun("ZZ_C16Conc", "ZZ_C16ConcN", "ZZ_C16ConcDesc", "", 1, 1, false, nil, []int{0}),
			thoroughOnly(onlyShapes(concRun("ZZ_C16Conc", "ZZ_C16ConcN", "ZZ_C16ConcDesc", "budget 2:", 2, 2, false, nil, []int{}), []int{0, 2}), "-p2")},
		Bounds: func(tier string) map[string]any {
			b := cmdBounds(tier)
			p := 1
			if tier == "thorough" {
				p = 2
			}
			b["abandoned_clients"] = fmt.Sprintf("4 scenarios of 1-2 concurrent writes whose client may give up (context cancelled) at an arbitrary moment; every schedule with at most 1 pre-emption (thorough: %d on the single-request scenarios); at rest persisted entries and published events are in bijection", p)
			return b
		}, Assumptions: append([]string{"the commander publishes through the real bus.ledgerMonitor into a recording message.Publisher; publish.NewMessage is modelled (payload = JSON model of the real EventMessage; uuid and otel context constant)"}, cmdStubs...), Encoded: append([]string{"bus.(*ledgerMonitor).CommittedTransactions/SavedMetadata/RevertedTransaction/DeletedMetadata/publish", "bus.NewEventCommittedTransactions/NewEventSavedMetadata/NewEventRevertedTransaction/NewEventDeletedMetadata"}, cmdEncoded...),
		Rule: "per write kind x {real, preview, repeated through an idempotency key}: every published message is decoded from its JSON payload and matched against a persisted log (ids symbolic), every persisted log has an event",
		MaxPaths: func(tier string) int { return 2000000 },
	},
	"C03": {
		ID: "C03", Patterns: []string{vmPkg}, NeedShapes: true, NeedHelper: true,
		Runs: []HarnessRun{
			vmRun("ZZ_C03", 5),
			{Pkg: vmPkg, Dir: "internal/machine/vm", Mod: "ledger", Fn: "ZZ_C03Alloc", Shapes: countShapes(vmPkg, "ZZ_C03AllotN"), Cfg: vmCfg, Desc: plainDesc("portion vector"), Canary: 2},
		},
		Bounds: numgenBounds, Assumptions: vmStubs, Encoded: vmEncoded,
		Rule:   "single-send programs of NumGen: sum law, non-negativity, balance bookkeeping (kept parts returned), destination and source caps, ordered-source exhaustion; plus Allocate's unit law over a symbolic total for 9 portion vectors",
	},
	"C08": {
		ID: "C08", Patterns: []string{vmPkg, cmdPkg}, NeedShapes: true, NeedHelper: true, Instrument: true,
		Runs: []HarnessRun{func() HarnessRun { r := vmRun("ZZ_C08", 5); r.Shapes = sampledShapes(6); return r }(),
			{Pkg: vmPkg, Dir: "internal/machine/vm", Mod: "ledger", Fn: "ZZ_C08X", Shapes: countShapes(vmPkg, "ZZ_C08XN"), Cfg: vmCfg, Desc: harnessDesc(vmPkg, "ZZ_C08XDesc", "rest of the grammar:"), CanaryShapes: []int{0, 8}},
			concRun("ZZ_C08Cache", "ZZ_C08CacheN", "ZZ_C08CacheDesc", "compilation cache:", 1, 1, false, nil, []int{0}),
			thoroughOnly(onlyShapes(concRun("ZZ_C08Cache", "ZZ_C08CacheN", "ZZ_C08CacheDesc", "compilation cache, budget 2:", 2, 2, false, nil, []int{}), []int{0}), "-p2")},
		Bounds: func(tier string) map[string]any {
			b := numgenBounds(tier)
			if tier == "thorough" {
				b["numscript_programs"] = fmt.Sprint(b["numscript_programs"]) + "; of the three-leaf programs the differential takes one in six (about 670 programs in all): with all of them it does not finish in 50 min; the cache race runs at budget 1 on every cache scenario and at budget 2 on the first"
			}
			return b
		},
		Assumptions: append([]string{"RefSem (harness zz_ast.go) is the trusted reading of the source text", "command.Compiler.Compile is interpreted (sha256 as injective token); gcache is modelled as a bounded LFU map; two concurrent requests with different texts, cache sizes 1/2/1024, pre-emption budget 1"}, vmStubs...), Encoded: vmEncoded,
		Rule:   "differential: real compiler (native) + real VM (symbolic) against the reference semantics; per (source,destination,asset) sums compared by the solver on every path; compile acceptance compared with the language's static rules",
		MaxPaths: func(tier string) int { return 400000 },
	},
	"C12": {
		ID: "C12", Patterns: []string{vmPkg, compilerPkg}, NeedShapes: true, NeedHelper: true,
		Runs: []HarnessRun{
			vmRun("ZZ_C12", 3),
			{Pkg: compilerPkg, Dir: "internal/machine/script/compiler", Mod: "ledger", Fn: "ZZ_C12Alloc", Shapes: countShapes(compilerPkg, "ZZ_C12AllocN"), Cfg: vmCfg, Desc: harnessDesc(compilerPkg, "ZZ_C12AllocDesc", "resource table step:"), CanaryShapes: []int{0, 3}},
			{Pkg: compilerPkg, Dir: "internal/machine/script/compiler", Mod: "ledger", Fn: "ZZ_C12Err", Shapes: rangeShapes(5), Cfg: vmCfg, Desc: harnessDesc(compilerPkg, "ZZ_C12ErrDesc", "error rendering:"), CanaryShapes: []int{2}},
			{Pkg: vmPkg, Dir: "internal/machine/vm", Mod: "ledger", Fn: "ZZ_C12Odd", Shapes: countShapes(vmPkg, "ZZ_C12OddN"), Cfg: vmCfg, Desc: plainDesc("odd-but-valid program"), CanaryShapes: []int{2, 13}},
		},
		Bounds: numgenBounds, Assumptions: append([]string{"arbitrary byte strings into the ANTLR lexer/parser are outside the claim (DESIGN §6); the rendering of a compile error (CompileErrorList.Error) is checked for script texts of 0..4 arbitrary bytes out of {LF, CR, TAB, space, letter} with the error at the end of input or at a one-letter token, positions computed as ANTLR reports them"}, vmStubs...), Encoded: vmEncoded,
		Rule:   "every path of every generated and every odd-but-valid program: a Go panic or an exhausted instruction budget is a violation; the same Program is executed twice and must behave the same",
	},
	"C01": {
		ID: "C01", Patterns: []string{vmPkg}, NeedShapes: true, NeedHelper: true,
		Runs: []HarnessRun{{Pkg: vmPkg, Dir: "internal/machine/vm", Mod: "ledger", Fn: "ZZ_C01", Shapes: allShapes, Cfg: func(tier string) interp.Config { c := vmCfg(tier); c.PanicIsViolation = false; return c }, Desc: shapeDesc, Canary: 5},
			{Pkg: vmPkg, Dir: "internal/machine/vm", Mod: "ledger", Fn: "ZZ_C01Save", Shapes: countShapes(vmPkg, "ZZ_C01SaveN"), Cfg: vmCfg, Desc: harnessDesc(vmPkg, "ZZ_C01SaveDesc", "save:"), CanaryShapes: []int{3}}},
		Bounds:      numgenBounds,
		Assumptions: vmStubs,
		Encoded:     []string{"vm.Run", "vm.(*Machine).Execute/tick/withdrawAll/withdrawAlways/credit/repay", "vm.(*Machine).ResolveResources/ResolveBalances/SetVarsFromJSON", "machine.Funding.Take/TakeMax/Concat/Total/Reverse", "machine.Allotment.Allocate", "machine.NewAllotment", "machine.MonetaryInt.*", "machine.NewValueFromString", "machine.ParseMonetary", "program.(*Program).ParseVariablesJSON"},
		Rule:        "one job per generated Numscript program; every path of the real VM over symbolic balances and amounts; the floor rule is asserted per posting and decided by the solver",
		MaxPaths:    func(tier string) int { return 20000 },
	},
}
