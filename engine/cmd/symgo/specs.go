package main

import (
	"fmt"

	"symgo/interp"
)

const vmPkg = ledgerMod + "/internal/machine/vm"

func allShapes(s *Session, tier string) []int {
	out := make([]int, len(s.Shapes))
	for i := range out {
		out[i] = i
	}
	return out
}

func shapeDesc(s *Session, i int) string {
	if i < len(s.Shapes) {
		return s.Shapes[i].Script
	}
	return fmt.Sprint("shape ", i)
}

func vmCfg(tier string) interp.Config {
	return interp.Config{PanicIsViolation: true, MaxSteps: 3_000_000}
}

var numgenBounds = func(tier string) map[string]any {
	if tier == "thorough" {
		return map[string]any{"numscript_programs": "NumGen thorough: sources of depth<=2 with <=3 leaves (plain/bounded/unbounded overdraft/world; at most one special leaf), set partitions of accounts, 14 destination forms, send-all, allotment sources, two-statement programs", "integers": "unbounded (SMT Int)", "portions": "concrete"}
	}
	return map[string]any{"numscript_programs": "NumGen quick: sources of depth<=2 with <=2 leaves (plain/bounded/unbounded overdraft/world; at most one special leaf), set partitions of accounts, 4-14 destination forms, send-all, allotment sources over 6 sub-sources, two-statement programs", "integers": "unbounded (SMT Int)", "portions": "concrete"}
}

var vmStubs = []string{
	"compiler.Compile runs natively (ANTLR parser + code generator built from the current tree); the resulting Program is lifted into the engine",
	"math/big.Int modelled as SMT Int; big.Rat concrete",
	"fmt/errors/strings/regexp intrinsics as listed in DESIGN §3.7",
	"map iteration in insertion order",
	"StaticStore supplies the symbolic opening balances",
}

// countShapes evaluates a niladic harness function (e.g. ZZ_C12OddN) to get the number of shapes.
func countShapes(pkg, fn string) func(s *Session, tier string) []int {
	return func(s *Session, tier string) []int {
		f := s.P.Func(pkg, fn)
		if f == nil {
			panic("no function " + fn)
		}
		n, err := s.In.EvalInt(f)
		if err != nil {
			panic(err)
		}
		out := make([]int, n)
		for i := range out {
			out[i] = i
		}
		return out
	}
}

func plainDesc(prefix string) func(s *Session, i int) string {
	return func(s *Session, i int) string { return fmt.Sprintf("%s #%d", prefix, i) }
}

var vmEncoded = []string{"vm.Run", "vm.(*Machine).Execute/tick/withdrawAll/withdrawAlways/credit/repay", "vm.(*Machine).ResolveResources/ResolveBalances/SetVarsFromJSON", "machine.Funding.Take/TakeMax/Concat/Total/Reverse", "machine.Allotment.Allocate", "machine.NewAllotment", "machine.MonetaryInt.*", "machine.NewValueFromString", "machine.ParseMonetary", "program.(*Program).ParseVariablesJSON"}

func vmRun(fn string, canary int) HarnessRun {
	return HarnessRun{Pkg: vmPkg, Dir: "internal/machine/vm", Mod: "ledger", Fn: fn, Shapes: allShapes, Cfg: vmCfg, Desc: shapeDesc, Canary: canary}
}

var specs = map[string]*CheckSpec{
	"C03": {
		ID: "C03", Patterns: []string{vmPkg}, NeedShapes: true, NeedHelper: true,
		Runs: []HarnessRun{
			vmRun("ZZ_C03", 5),
			{Pkg: vmPkg, Dir: "internal/machine/vm", Mod: "ledger", Fn: "ZZ_C03Alloc", Shapes: countShapes(vmPkg, "ZZ_C03AllotN"), Cfg: vmCfg, Desc: plainDesc("portion vector"), Canary: 2},
		},
		Bounds: numgenBounds, Assumptions: vmStubs, Encoded: vmEncoded,
		Rule:   "single-send programs of NumGen: sum law, non-negativity, balance bookkeeping (kept parts returned), destination and source caps, ordered-source exhaustion; plus Allocate's unit law over a symbolic total for 9 portion vectors",
	},
	"C08": {
		ID: "C08", Patterns: []string{vmPkg}, NeedShapes: true, NeedHelper: true,
		Runs:   []HarnessRun{vmRun("ZZ_C08", 5)},
		Bounds: numgenBounds, Assumptions: append([]string{"RefSem (harness zz_ast.go) is the trusted reading of the source text", "compilation cache (gcache) is bypassed"}, vmStubs...), Encoded: vmEncoded,
		Rule:   "differential: real compiler (native) + real VM (symbolic) against the reference semantics; per (source,destination,asset) sums compared by the solver on every path; compile acceptance compared with the language's static rules",
	},
	"C12": {
		ID: "C12", Patterns: []string{vmPkg}, NeedShapes: true, NeedHelper: true,
		Runs: []HarnessRun{
			vmRun("ZZ_C12", 3),
			{Pkg: vmPkg, Dir: "internal/machine/vm", Mod: "ledger", Fn: "ZZ_C12Odd", Shapes: countShapes(vmPkg, "ZZ_C12OddN"), Cfg: vmCfg, Desc: plainDesc("odd-but-valid program"), CanaryShapes: []int{2, 13}},
		},
		Bounds: numgenBounds, Assumptions: append([]string{"arbitrary byte strings into the ANTLR lexer/parser are outside the claim (DESIGN §6)"}, vmStubs...), Encoded: vmEncoded,
		Rule:   "every path of every generated and every odd-but-valid program: a Go panic or an exhausted instruction budget is a violation; the same Program is executed twice and must behave the same",
	},
	"C01": {
		ID: "C01", Patterns: []string{vmPkg}, NeedShapes: true, NeedHelper: true,
		Runs: []HarnessRun{{Pkg: vmPkg, Dir: "internal/machine/vm", Mod: "ledger", Fn: "ZZ_C01", Shapes: allShapes, Cfg: func(tier string) interp.Config { c := vmCfg(tier); c.PanicIsViolation = false; return c }, Desc: shapeDesc, Canary: 5}},
		Bounds:      numgenBounds,
		Assumptions: vmStubs,
		Encoded:     []string{"vm.Run", "vm.(*Machine).Execute/tick/withdrawAll/withdrawAlways/credit/repay", "vm.(*Machine).ResolveResources/ResolveBalances/SetVarsFromJSON", "machine.Funding.Take/TakeMax/Concat/Total/Reverse", "machine.Allotment.Allocate", "machine.NewAllotment", "machine.MonetaryInt.*", "machine.NewValueFromString", "machine.ParseMonetary", "program.(*Program).ParseVariablesJSON"},
		Rule:        "one job per generated Numscript program; every path of the real VM over symbolic balances and amounts; the floor rule is asserted per posting and decided by the solver",
		MaxPaths:    func(tier string) int { return 20000 },
	},
}
