package main

import (
	"fmt"
	"os"
	"path/filepath"
	"time"

	"symgo/helper"
	"symgo/instrument"
	"symgo/interp"
	"symgo/load"
	"symgo/numgen"
)

// Session holds everything derived from /repo's current tree for one symgo invocation.
type Session struct {
	Tier     string
	OutDir   string
	Overlay  map[string][]byte
	P        *load.Program
	In       *interp.Interp
	Helper   *helper.Helper
	Shapes   []*numgen.Shape
	SetupS   float64
	OverlayJ string
	Yields   int
}

type SessionOpts struct {
	Tier       string
	Patterns   []string
	NeedShapes bool
	NeedHelper bool
	Extra      map[string][]byte
	OutName    string
	Instrument []string // files (relative to /repo) that get a Yield before every statement
}

func NewSession(o SessionOpts) (*Session, error) {
	t0 := time.Now()
	s := &Session{Tier: o.Tier}
	s.OutDir = filepath.Join("/verif/out", o.OutName)
	if o.Tier == "thorough" {
		// a thorough run may be under way while the quick check of the same property runs
		s.OutDir += "-thorough"
	}
	os.RemoveAll(s.OutDir)
	if err := os.MkdirAll(s.OutDir, 0o755); err != nil {
		return nil, err
	}
	extra := map[string][]byte{}
	for k, v := range o.Extra {
		extra[k] = v
	}
	if o.NeedShapes {
		s.Shapes = numgen.Generate(o.Tier)
		extra[filepath.Join(repoDir, "internal/machine/vm/zz_shapes_gen.go")] = []byte(numgen.GoFile("vm", "zzShapes", s.Shapes))
	} else {
		extra[filepath.Join(repoDir, "internal/machine/vm/zz_shapes_gen.go")] = []byte("package vm\n\nvar zzShapes = []zzShape{}\n")
	}
	var single map[string]bool
	if len(o.Instrument) > 0 {
		var abs []string
		for _, rel := range o.Instrument {
			abs = append(abs, filepath.Join(repoDir, rel))
		}
		var err error
		if single, err = instrument.SingleValued(repoDir, abs); err != nil {
			return nil, fmt.Errorf("instrument: %v", err)
		}
	}
	for _, rel := range o.Instrument {
		p := filepath.Join(repoDir, rel)
		src, err := os.ReadFile(p)
		if err != nil {
			return nil, err
		}
		out, n, err := instrument.File(p, src, single)
		if err != nil {
			return nil, fmt.Errorf("instrumenting %s: %v", rel, err)
		}
		extra[p] = out
		s.Yields += n
	}
	ov, err := load.OverlayFromDir(harnessDir, repoDir, extra)
	if err != nil {
		return nil, err
	}
	s.Overlay = ov
	s.OverlayJ, err = helper.WriteOverlayJSON(filepath.Join(s.OutDir, "overlay"), ov)
	if err != nil {
		return nil, err
	}
	type hres struct {
		h   *helper.Helper
		err error
	}
	hc := make(chan hres, 1)
	if o.NeedHelper {
		go func() {
			bin := filepath.Join(s.OutDir, "verifhelper")
			if err := helper.Build(repoDir, s.OverlayJ, bin); err != nil {
				hc <- hres{nil, err}
				return
			}
			h, err := helper.Start(bin)
			hc <- hres{h, err}
		}()
	}
	pats := append([]string{libsMod + "/verifhook"}, o.Patterns...)
	s.P, err = load.Load(repoDir, ov, pats)
	if err != nil {
		return nil, err
	}
	s.In = interp.New(s.P.Prog)
	s.In.InitPkgPrefixes = []string{ledgerMod, libsMod}
	if o.NeedHelper {
		r := <-hc
		if r.err != nil {
			return nil, r.err
		}
		s.Helper = r.h
		s.In.RegisterCompiler(s.Helper.Compile)
	}
	if err := s.In.RunInit(s.P.SSAPkgs); err != nil {
		fmt.Fprintln(os.Stderr, "warning: init:", err)
	}
	s.SetupS = time.Since(t0).Seconds()
	return s, nil
}

func (s *Session) Close() {
	if s.Helper != nil {
		s.Helper.Close()
	}
}
