package main

import (
	"encoding/json"
	"flag"
	"fmt"
	"os"
	"sort"
	"strconv"
	"strings"
	"time"

	"symgo/interp"
	"symgo/smt"
)

// concFiles are instrumented with a Yield before every statement for the concurrent checks.
var concFiles = []string{
	"internal/engine/command/commander.go",
	"internal/engine/command/compiler.go",
	"internal/engine/command/context.go",
	"internal/engine/command/lock.go",
	"internal/engine/command/reference.go",
	"internal/engine/utils/batching/batcher.go",
	"internal/engine/utils/job/jobs.go",
	"libs/collectionutils/linked_list.go",
}

const (
	repoDir    = "/repo"
	harnessDir = "/verif/harness"
	ledgerMod  = "github.com/formancehq/ledger"
	libsMod    = "github.com/formancehq/stack/libs/go-libs"
)

func main() {
	if len(os.Args) < 2 {
		fmt.Fprintln(os.Stderr, "usage: symgo run|check ...")
		os.Exit(2)
	}
	switch os.Args[1] {
	case "run":
		cmdRun(os.Args[2:])
	case "check":
		os.Exit(cmdCheck(os.Args[2:]))
	default:
		fmt.Fprintln(os.Stderr, "unknown command", os.Args[1])
		os.Exit(2)
	}
}

func parseShapes(s string) []int {
	var out []int
	for _, part := range strings.Split(s, ",") {
		if part == "" {
			continue
		}
		if i := strings.Index(part, ".."); i >= 0 {
			a, _ := strconv.Atoi(part[:i])
			b, _ := strconv.Atoi(part[i+2:])
			for x := a; x <= b; x++ {
				out = append(out, x)
			}
			continue
		}
		a, _ := strconv.Atoi(part)
		out = append(out, a)
	}
	return out
}

// cmdRun is the development entry: explore one harness function.
func cmdRun(args []string) {
	fs := flag.NewFlagSet("run", flag.ExitOnError)
	pkg := fs.String("pkg", ledgerMod+"/internal/machine/vm", "package import path")
	fn := fs.String("fn", "ZZ_Smoke", "harness function")
	shapes := fs.String("shapes", "0", "shape list, e.g. 0,1,5..9")
	workers := fs.Int("workers", 8, "workers")
	preempt := fs.Int("preempt", 0, "pre-emption bound")
	sched := fs.Bool("sched", false, "scheduler decisions at blocking points")
	maxPaths := fs.Int("maxpaths", 100000, "max paths per job")
	verbose := fs.Bool("v", false, "verbose")
	solver := fs.String("solver", "z3", "z3|z3-new|cvc5")
	tier := fs.String("tier", "quick", "quick|thorough")
	gen := fs.Bool("gen", false, "generate Numscript shapes (and build the compiler helper)")
	needHelper := fs.Bool("helper", false, "build the compiler helper")
	quiet := fs.Bool("q", false, "only print jobs with findings")
	summary := fs.Bool("s", false, "print an aggregated summary only")
	instrumentFlag := fs.Bool("instrument", false, "instrument the concurrency files with yields")
	crash := fs.Bool("crash", false, "offer a crash at every yield")
	tmo := fs.Int("timeout", 10000, "solver timeout per query, ms")
	fallbacks := fs.String("fallbacks", "z3-new cvc5", "fallback solvers for unknown answers")
	fs.Parse(args)

	t0 := time.Now()
	var instr []string
	if *instrumentFlag {
		instr = concFiles
	}
	sess, err := NewSession(SessionOpts{Tier: *tier, Patterns: []string{*pkg}, NeedShapes: *gen, NeedHelper: *gen || *needHelper, OutName: "run", Instrument: instr})
	if err != nil {
		fmt.Fprintln(os.Stderr, err)
		os.Exit(2)
	}
	defer sess.Close()
	p, in := sess.P, sess.In
	fmt.Printf("setup in %.1fs (load %.1fs), %d shapes\n", sess.SetupS, p.LoadS, len(sess.Shapes))
	f := p.Func(*pkg, *fn)
	if f == nil {
		fmt.Fprintln(os.Stderr, "no such function")
		os.Exit(2)
	}
	if *shapes == "all" {
		*shapes = fmt.Sprintf("0..%d", len(sess.Shapes)-1)
	}
	var jobs []*interp.Job
	for _, s := range parseShapes(*shapes) {
		jobs = append(jobs, &interp.Job{Harness: *fn, Fn: f, Args: []interp.Value{int64(s)}, Shape: s,
			Cfg: interp.Config{Preemptions: *preempt, SchedDecide: *sched, SelectDecide: *sched, PanicIsViolation: true, Crash: *crash, MaxSteps: 5_000_000}})
	}
	if d := os.Getenv("SYMGO_DUMP"); d != "" {
		smt.DumpDir = d
	}
	ex := &interp.Explorer{In: in, Workers: *workers, SolverKind: *solver, TimeoutMs: *tmo, MaxPaths: *maxPaths, Fallbacks: strings.Fields(*fallbacks)}
	res := ex.Run(jobs)
	if *summary {
		agg := map[string]int{}
		paths := 0
		for _, r := range res {
			paths += r.Paths
			for k, n := range r.Outcomes {
				agg["outcome "+k] += n
			}
			for k, n := range r.Unsupported {
				agg["unsupported: "+k] += n
			}
			for k, n := range r.Msgs {
				agg["msg: "+k] += n
			}
			for _, v := range r.Violations {
				agg[fmt.Sprintf("VIOL %s %q shapes:", v.Kind, v.Label)]++
				if agg[fmt.Sprintf("VIOL %s %q shapes:", v.Kind, v.Label)] <= 2 {
					agg[fmt.Sprintf("VIOL %s %q shape=%d e.g. %s", v.Kind, v.Label, r.Job.Shape, compactModel(v.Model))] = 1
				}
			}
			for _, s := range r.Inconcl {
				agg["inconclusive: "+s]++
			}
		}
		var ks []string
		for k := range agg {
			ks = append(ks, k)
		}
		sort.Strings(ks)
		for _, k := range ks {
			x := k
			if len(x) > 500 {
				x = x[:500]
			}
			fmt.Printf("%6d  %s\n", agg[k], x)
		}
		fmt.Printf("jobs=%d paths=%d\n", len(res), paths)
		res = nil
	}
	for _, r := range res {
		if *quiet && len(r.Violations) == 0 && len(r.Unsupported) == 0 && len(r.Msgs) == 0 && len(r.Inconcl) == 0 {
			continue
		}
		fmt.Println(r.Summary())
		if *gen && r.Job.Shape < len(sess.Shapes) {
			fmt.Println("   script:", strings.ReplaceAll(sess.Shapes[r.Job.Shape].Script, "\n", " | "), "valid:", sess.Shapes[r.Job.Shape].Valid)
		}
		if *verbose || len(r.Unsupported) > 0 || len(r.Msgs) > 0 {
			for k, n := range r.Unsupported {
				fmt.Printf("   unsupported x%d: %s\n", n, k)
			}
			for k, n := range r.Msgs {
				fmt.Printf("   x%d: %s\n", n, k)
			}
		}
		if *verbose {
			var ks []string
			for k := range r.Reached {
				ks = append(ks, fmt.Sprintf("%s=%d", k, r.Reached[k]))
			}
			sort.Strings(ks)
			fmt.Println("   reached:", ks, "asserts:", r.Asserts, "sym:", r.AssertsSym, "steps:", r.Steps)
			for k, n := range r.Assumes {
				fmt.Printf("   assume %s x%d\n", k, n)
			}
		}
		for i, v := range r.Violations {
			if i >= 3 && !*verbose {
				fmt.Printf("   ... %d more\n", len(r.Violations)-i)
				break
			}
			b, _ := json.Marshal(v.Model)
			fmt.Printf("   VIOL %s %s %s %s\n", v.Kind, v.Label, v.Msg, b)
		}
		for _, s := range r.Inconcl {
			fmt.Println("   inconclusive:", s)
		}
	}
	fmt.Printf("solver: %+v fallbacks %v wall %.1fs\n", ex.Stats, ex.FallbackStats, time.Since(t0).Seconds())
}
