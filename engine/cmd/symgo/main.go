package main

import (
	"encoding/json"
	"flag"
	"fmt"
	"os"
	"sort"
	"strconv"
	"strings"
	"time"

	"symgo/interp"
	"symgo/load"
)

const (
	repoDir    = "/repo"
	harnessDir = "/verif/harness"
	ledgerMod  = "github.com/formancehq/ledger"
	libsMod    = "github.com/formancehq/stack/libs/go-libs"
)

func main() {
	if len(os.Args) < 2 {
		fmt.Fprintln(os.Stderr, "usage: symgo run|check ...")
		os.Exit(2)
	}
	switch os.Args[1] {
	case "run":
		cmdRun(os.Args[2:])
	case "check":
		os.Exit(cmdCheck(os.Args[2:]))
	default:
		fmt.Fprintln(os.Stderr, "unknown command", os.Args[1])
		os.Exit(2)
	}
}

func parseShapes(s string) []int {
	var out []int
	for _, part := range strings.Split(s, ",") {
		if part == "" {
			continue
		}
		if i := strings.Index(part, ".."); i >= 0 {
			a, _ := strconv.Atoi(part[:i])
			b, _ := strconv.Atoi(part[i+2:])
			for x := a; x <= b; x++ {
				out = append(out, x)
			}
			continue
		}
		a, _ := strconv.Atoi(part)
		out = append(out, a)
	}
	return out
}

// cmdRun is the development entry: explore one harness function.
func cmdRun(args []string) {
	fs := flag.NewFlagSet("run", flag.ExitOnError)
	pkg := fs.String("pkg", ledgerMod+"/internal/machine/vm", "package import path")
	fn := fs.String("fn", "ZZ_Smoke", "harness function")
	shapes := fs.String("shapes", "0", "shape list, e.g. 0,1,5..9")
	workers := fs.Int("workers", 8, "workers")
	preempt := fs.Int("preempt", 0, "pre-emption bound")
	sched := fs.Bool("sched", false, "scheduler decisions at blocking points")
	maxPaths := fs.Int("maxpaths", 100000, "max paths per job")
	verbose := fs.Bool("v", false, "verbose")
	solver := fs.String("solver", "z3", "z3|z3-new|cvc5")
	fs.Parse(args)

	t0 := time.Now()
	ov, err := load.OverlayFromDir(harnessDir, repoDir, nil)
	if err != nil {
		panic(err)
	}
	p, err := load.Load(repoDir, ov, []string{*pkg, libsMod + "/verifhook"})
	if err != nil {
		fmt.Fprintln(os.Stderr, err)
		os.Exit(2)
	}
	fmt.Printf("loaded in %.1fs\n", p.LoadS)
	in := interp.New(p.Prog)
	in.InitPkgPrefixes = []string{ledgerMod, libsMod}
	if err := in.RunInit(p.SSAPkgs); err != nil {
		fmt.Println("init:", err)
	}
	f := p.Func(*pkg, *fn)
	if f == nil {
		fmt.Fprintln(os.Stderr, "no such function")
		os.Exit(2)
	}
	var jobs []*interp.Job
	for _, s := range parseShapes(*shapes) {
		jobs = append(jobs, &interp.Job{Harness: *fn, Fn: f, Args: []interp.Value{int64(s)}, Shape: s,
			Cfg: interp.Config{Preemptions: *preempt, SchedDecide: *sched, SelectDecide: *sched, PanicIsViolation: true}})
	}
	ex := &interp.Explorer{In: in, Workers: *workers, SolverKind: *solver, TimeoutMs: 10000, MaxPaths: *maxPaths}
	res := ex.Run(jobs)
	for _, r := range res {
		fmt.Println(r.Summary())
		if *verbose || len(r.Unsupported) > 0 || len(r.Msgs) > 0 {
			for k, n := range r.Unsupported {
				fmt.Printf("   unsupported x%d: %s\n", n, k)
			}
			for k, n := range r.Msgs {
				fmt.Printf("   x%d: %s\n", n, k)
			}
		}
		if *verbose {
			var ks []string
			for k := range r.Reached {
				ks = append(ks, fmt.Sprintf("%s=%d", k, r.Reached[k]))
			}
			sort.Strings(ks)
			fmt.Println("   reached:", ks, "asserts:", r.Asserts, "sym:", r.AssertsSym, "steps:", r.Steps)
			for k, n := range r.Assumes {
				fmt.Printf("   assume %s x%d\n", k, n)
			}
		}
		for i, v := range r.Violations {
			if i >= 3 && !*verbose {
				fmt.Printf("   ... %d more\n", len(r.Violations)-i)
				break
			}
			b, _ := json.Marshal(v.Model)
			fmt.Printf("   VIOL %s %s %s %s\n", v.Kind, v.Label, v.Msg, b)
		}
		for _, s := range r.Inconcl {
			fmt.Println("   inconclusive:", s)
		}
	}
	fmt.Printf("solver: %+v  wall %.1fs\n", ex.Stats, time.Since(t0).Seconds())
}
