// Package smt drives a long-lived SMT solver process over SMT-LIB2 text.
package smt

import (
	"bufio"
	"fmt"
	"io"
	"math/big"
	"os"
	"os/exec"
	"strings"
	"sync/atomic"
	"time"

	"symgo/sym"
)

type Result int

const (
	Unsat Result = iota
	Sat
	Unknown
)

func (r Result) String() string { return [...]string{"unsat", "sat", "unknown"}[r] }

type Stats struct {
	Queries  int
	Sat      int
	Unsat    int
	Unknown  int
	Errors   int
	SolverNs int64
}

// DumpDir, when set, receives the transcript of every query answered "unknown".
var DumpDir string
var dumpSeq int64

type Solver struct {
	Kind    string // z3, z3-new, cvc5
	cmd     *exec.Cmd
	in      io.WriteCloser
	out     *bufio.Reader
	P       *sym.Printer
	Stats   Stats
	Log     *strings.Builder // when non-nil, everything sent since last Reset is recorded
	Fallbacks []string        // solver kinds tried (one-shot) when the primary answers unknown
	FallbackStats map[string]int
	timeout int
	dead    bool
	lastModel map[string]*big.Int
}

// transcript returns everything sent since the last Reset without earlier queries.
func (s *Solver) transcript() string {
	var sb strings.Builder
	for _, l := range strings.Split(s.Log.String(), "\n") {
		if strings.HasPrefix(l, "(check-sat") || strings.HasPrefix(l, "(get-value") || strings.HasPrefix(l, "(reset") {
			continue
		}
		sb.WriteString(l)
		sb.WriteString("\n")
	}
	return sb.String()
}

// fallback re-decides the current query one-shot with the other solvers.
func (s *Solver) fallback() Result {
	if len(s.Fallbacks) == 0 && DumpDir == "" {
		return Unknown
	}
	text := s.transcript()
	names := s.P.Declared()
	var gv strings.Builder
	if len(names) > 0 {
		gv.WriteString("(get-value (")
		for _, n := range names {
			gv.WriteString(sym.QuoteName(n) + " ")
		}
		gv.WriteString("))\n")
	}
	n := atomic.AddInt64(&dumpSeq, 1)
	dir := DumpDir
	if dir == "" {
		dir = os.TempDir()
	}
	path := fmt.Sprintf("%s/unknown-%d-%d.smt2", dir, os.Getpid(), n)
	if err := os.WriteFile(path, []byte(text+"(check-sat)\n"+gv.String()), 0o644); err != nil {
		return Unknown
	}
	if DumpDir == "" {
		defer os.Remove(path)
	}
	for _, kind := range s.Fallbacks {
		var cmd *exec.Cmd
		switch kind {
		case "cvc5":
			// cvc5 wants a logic; prepend one in a copy
			p2 := path + ".cvc5"
			os.WriteFile(p2, []byte("(set-logic ALL)\n"+text+"(check-sat)\n"+gv.String()), 0o644)
			defer os.Remove(p2)
			cmd = exec.Command("cvc5", "--lang=smt2", "--produce-models", fmt.Sprintf("--tlimit=%d", s.timeout*3), p2)
		default:
			cmd = exec.Command(kind, fmt.Sprintf("-T:%d", (s.timeout*3+999)/1000), path)
		}
		t0 := time.Now()
		out, _ := cmd.Output()
		s.Stats.SolverNs += time.Since(t0).Nanoseconds()
		lines := strings.SplitN(strings.TrimSpace(string(out)), "\n", 2)
		if len(lines) == 0 {
			continue
		}
		switch strings.TrimSpace(lines[0]) {
		case "unsat":
			s.FallbackStats[kind+":unsat"]++
			return Unsat
		case "sat":
			s.FallbackStats[kind+":sat"]++
			if len(lines) > 1 && !strings.Contains(lines[1], "(error") {
				if m, err := parseModel(lines[1], map[string]*big.Int{}); err == nil {
					s.lastModel = m
				}
			}
			if s.lastModel == nil {
				s.lastModel = map[string]*big.Int{}
			}
			return Sat
		}
		s.FallbackStats[kind+":unknown"]++
	}
	return Unknown
}

func argsFor(kind string, timeoutMs int) (string, []string) {
	switch kind {
	case "z3":
		return "z3", []string{"-in", fmt.Sprintf("-t:%d", timeoutMs)}
	case "z3-new":
		return "z3-new", []string{"-in", fmt.Sprintf("-t:%d", timeoutMs)}
	case "cvc5":
		return "cvc5", []string{"--incremental", "--lang=smt2", "--produce-models", fmt.Sprintf("--tlimit-per=%d", timeoutMs)}
	}
	panic("unknown solver " + kind)
}

func New(kind string, timeoutMs int) (*Solver, error) {
	s := &Solver{Kind: kind, timeout: timeoutMs}
	if err := s.start(); err != nil {
		return nil, err
	}
	return s, nil
}

func (s *Solver) start() error {
	bin, args := argsFor(s.Kind, s.timeout)
	s.cmd = exec.Command(bin, args...)
	in, err := s.cmd.StdinPipe()
	if err != nil {
		return err
	}
	out, err := s.cmd.StdoutPipe()
	if err != nil {
		return err
	}
	s.cmd.Stderr = nil
	if err := s.cmd.Start(); err != nil {
		return err
	}
	s.in = in
	s.out = bufio.NewReaderSize(out, 1<<16)
	s.P = sym.NewPrinter(s.send)
	s.dead = false
	if s.Log == nil {
		s.Log = &strings.Builder{}
	}
	s.Log.Reset()
	if s.FallbackStats == nil {
		s.FallbackStats = map[string]int{}
	}
	s.preamble()
	return nil
}

func (s *Solver) preamble() {
	if s.Kind == "cvc5" {
		s.send("(set-logic ALL)")
	}
	s.send("(set-option :produce-models true)")
}

func (s *Solver) send(line string) {
	if s.dead {
		return
	}
	if s.Log != nil {
		s.Log.WriteString(line)
		s.Log.WriteString("\n")
	}
	if _, err := io.WriteString(s.in, line+"\n"); err != nil {
		s.dead = true
	}
}

func (s *Solver) Close() {
	if s.cmd != nil && s.cmd.Process != nil {
		s.in.Close()
		s.cmd.Process.Kill()
		s.cmd.Wait()
	}
}

func (s *Solver) restart() {
	s.Close()
	s.start()
}

// Reset clears all assertions and definitions (start of a new execution).
func (s *Solver) Reset() {
	if s.dead {
		s.restart()
		return
	}
	s.send("(reset)")
	s.P.Reset()
	s.Log.Reset()
	s.preamble()
}

func (s *Solver) Push() { s.send("(push 1)") }
func (s *Solver) Pop()  { s.send("(pop 1)") }

func (s *Solver) Assert(t *sym.Term) {
	r := s.P.Ref(t)
	s.send("(assert " + r + ")")
}

// readLine reads one line of solver output.
func (s *Solver) readLine() (string, error) {
	l, err := s.out.ReadString('\n')
	return strings.TrimSpace(l), err
}

// Check runs check-sat on the current assertion stack.
func (s *Solver) Check() Result {
	s.Stats.Queries++
	if s.dead {
		s.Stats.Unknown++
		return Unknown
	}
	t0 := time.Now()
	s.send("(check-sat)")
	res := Unknown
	sawErr := false
	for {
		l, err := s.readLine()
		if err != nil {
			s.dead = true
			sawErr = true
			break
		}
		if l == "" {
			continue
		}
		if strings.HasPrefix(l, "(error") {
			sawErr = true
			// consume possibly multi-line error
			for strings.Count(l, "(") > strings.Count(l, ")") {
				m, err := s.readLine()
				if err != nil {
					s.dead = true
					break
				}
				l += m
			}
			continue
		}
		switch l {
		case "sat":
			res = Sat
		case "unsat":
			res = Unsat
		case "unknown", "timeout":
			res = Unknown
		default:
			continue
		}
		break
	}
	s.Stats.SolverNs += time.Since(t0).Nanoseconds()
	if sawErr {
		s.Stats.Errors++
		res = Unknown
	}
	s.lastModel = nil
	if res == Unknown && !s.dead {
		res = s.fallback()
	}
	switch res {
	case Sat:
		s.Stats.Sat++
	case Unsat:
		s.Stats.Unsat++
	default:
		s.Stats.Unknown++
	}
	return res
}

// CheckWith checks the current stack plus extra assertions, leaving the stack unchanged.
func (s *Solver) CheckWith(extra ...*sym.Term) Result {
	refs := make([]string, len(extra))
	for i, t := range extra {
		refs[i] = s.P.Ref(t) // definitions go to the outer level
	}
	s.Push()
	for _, r := range refs {
		s.send("(assert " + r + ")")
	}
	r := s.Check()
	s.Pop()
	return r
}

// Model returns values of all declared variables. Must follow a Sat answer of Check
// (not CheckWith, which pops). Bool: 0/1; BV: unsigned value.
func (s *Solver) Model() (map[string]*big.Int, error) {
	if s.lastModel != nil {
		return s.lastModel, nil
	}
	names := s.P.Declared()
	m := map[string]*big.Int{}
	if len(names) == 0 {
		return m, nil
	}
	var sb strings.Builder
	sb.WriteString("(get-value (")
	for _, n := range names {
		sb.WriteString(sym.QuoteName(n))
		sb.WriteString(" ")
	}
	sb.WriteString("))")
	s.send(sb.String())
	text := ""
	for {
		l, err := s.readLine()
		if err != nil {
			s.dead = true
			return nil, err
		}
		if strings.HasPrefix(l, "(error") {
			return nil, fmt.Errorf("solver: %s", l)
		}
		text += " " + l
		if strings.Count(text, "(") > 0 && strings.Count(text, "(") == strings.Count(text, ")") {
			break
		}
	}
	return parseModel(text, m)
}

func parseModel(text string, m map[string]*big.Int) (map[string]*big.Int, error) {
	toks := tokenize(text)
	pos := 0
	ex, err := parseSexp(toks, &pos)
	if err != nil {
		return nil, err
	}
	for _, pair := range ex.list {
		if len(pair.list) != 2 {
			continue
		}
		name := strings.Trim(pair.list[0].atom, "|")
		v, ok := evalValue(pair.list[1])
		if ok {
			m[name] = v
		}
	}
	return m, nil
}

// CheckModel = Push, assert extra, Check; on Sat fetch the model; Pop.
func (s *Solver) CheckModel(extra ...*sym.Term) (Result, map[string]*big.Int) {
	refs := make([]string, len(extra))
	for i, t := range extra {
		refs[i] = s.P.Ref(t)
	}
	s.Push()
	for _, r := range refs {
		s.send("(assert " + r + ")")
	}
	r := s.Check()
	var m map[string]*big.Int
	if r == Sat {
		var err error
		m, err = s.Model()
		if err != nil {
			r = Unknown
		}
	}
	s.Pop()
	return r, m
}

type sexp struct {
	atom string
	list []*sexp
	isL  bool
}

func tokenize(s string) []string {
	var toks []string
	i := 0
	for i < len(s) {
		c := s[i]
		switch {
		case c == '(' || c == ')':
			toks = append(toks, string(c))
			i++
		case c == ' ' || c == '\t' || c == '\n' || c == '\r':
			i++
		case c == '|':
			j := i + 1
			for j < len(s) && s[j] != '|' {
				j++
			}
			toks = append(toks, s[i:j+1])
			i = j + 1
		default:
			j := i
			for j < len(s) && !strings.ContainsRune("() \t\n\r", rune(s[j])) {
				j++
			}
			toks = append(toks, s[i:j])
			i = j
		}
	}
	return toks
}

func parseSexp(toks []string, pos *int) (*sexp, error) {
	if *pos >= len(toks) {
		return nil, fmt.Errorf("unexpected end of s-expression")
	}
	t := toks[*pos]
	*pos++
	if t == "(" {
		e := &sexp{isL: true}
		for *pos < len(toks) && toks[*pos] != ")" {
			c, err := parseSexp(toks, pos)
			if err != nil {
				return nil, err
			}
			e.list = append(e.list, c)
		}
		*pos++
		return e, nil
	}
	return &sexp{atom: t}, nil
}

func evalValue(e *sexp) (*big.Int, bool) {
	if !e.isL {
		a := e.atom
		switch {
		case a == "true":
			return big.NewInt(1), true
		case a == "false":
			return big.NewInt(0), true
		case strings.HasPrefix(a, "#b"):
			v, ok := new(big.Int).SetString(a[2:], 2)
			return v, ok
		case strings.HasPrefix(a, "#x"):
			v, ok := new(big.Int).SetString(a[2:], 16)
			return v, ok
		default:
			v, ok := new(big.Int).SetString(a, 10)
			return v, ok
		}
	}
	if len(e.list) == 2 && e.list[0].atom == "-" {
		v, ok := evalValue(e.list[1])
		if !ok {
			return nil, false
		}
		return new(big.Int).Neg(v), true
	}
	// (_ bv5 8)
	if len(e.list) == 3 && e.list[0].atom == "_" && strings.HasPrefix(e.list[1].atom, "bv") {
		v, ok := new(big.Int).SetString(e.list[1].atom[2:], 10)
		return v, ok
	}
	return nil, false
}
