// Package load builds the SSA program of /repo's current tree plus the harness overlay.
package load

import (
	"fmt"
	"os"
	"path/filepath"
	"strings"
	"time"

	"golang.org/x/tools/go/packages"
	"golang.org/x/tools/go/ssa"
	"golang.org/x/tools/go/ssa/ssautil"
)

type Program struct {
	Prog    *ssa.Program
	Pkgs    []*packages.Package
	SSAPkgs []*ssa.Package
	LoadS   float64
	Overlay map[string][]byte
}

// OverlayFromDir maps every file below harnessDir onto repoDir.
func OverlayFromDir(harnessDir, repoDir string, extra map[string][]byte) (map[string][]byte, error) {
	ov := map[string][]byte{}
	err := filepath.Walk(harnessDir, func(p string, info os.FileInfo, err error) error {
		if err != nil {
			return err
		}
		if info.IsDir() {
			return nil
		}
		if !strings.HasSuffix(p, ".go") {
			return nil
		}
		if strings.HasSuffix(p, "_test.go") {
			return nil
		}
		rel, _ := filepath.Rel(harnessDir, p)
		b, err := os.ReadFile(p)
		if err != nil {
			return err
		}
		ov[filepath.Join(repoDir, rel)] = b
		return nil
	})
	for k, v := range extra {
		ov[k] = v
	}
	return ov, err
}

func Load(repoDir string, overlay map[string][]byte, patterns []string) (*Program, error) {
	t0 := time.Now()
	cfg := &packages.Config{
		Mode:    packages.LoadAllSyntax,
		Dir:     repoDir,
		Env:     append(os.Environ(), "GOFLAGS=-mod=mod", "GOPROXY=off", "GOSUMDB=off", "GOTOOLCHAIN=local"),
		Overlay: overlay,
	}
	pkgs, err := packages.Load(cfg, patterns...)
	if err != nil {
		return nil, err
	}
	var errs []string
	packages.Visit(pkgs, nil, func(p *packages.Package) {
		for _, e := range p.Errors {
			errs = append(errs, e.Error())
		}
	})
	if len(errs) > 0 {
		if len(errs) > 10 {
			errs = errs[:10]
		}
		return nil, fmt.Errorf("package errors:\n%s", strings.Join(errs, "\n"))
	}
	prog, spkgs := ssautil.AllPackages(pkgs, ssa.InstantiateGenerics)
	prog.Build()
	return &Program{Prog: prog, Pkgs: pkgs, SSAPkgs: spkgs, LoadS: time.Since(t0).Seconds(), Overlay: overlay}, nil
}

// Func finds a package-level function by import path and name.
func (p *Program) Func(pkgPath, name string) *ssa.Function {
	for _, sp := range p.Prog.AllPackages() {
		if sp.Pkg.Path() == pkgPath {
			return sp.Func(name)
		}
	}
	return nil
}
