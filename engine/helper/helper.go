// Package helper builds and drives the native compiler helper.
package helper

import (
	"bufio"
	"encoding/json"
	"fmt"
	"io"
	"os"
	"os/exec"
	"path/filepath"
	"sync"
)

type Helper struct {
	mu    sync.Mutex
	cmd   *exec.Cmd
	in    io.WriteCloser
	out   *bufio.Reader
	cache map[string][]byte
	Calls int
}

// WriteOverlayJSON materialises an in-memory overlay as files + a go -overlay JSON.
func WriteOverlayJSON(dir string, overlay map[string][]byte) (string, error) {
	if err := os.MkdirAll(filepath.Join(dir, "files"), 0o755); err != nil {
		return "", err
	}
	repl := map[string]string{}
	i := 0
	for virt, content := range overlay {
		real := filepath.Join(dir, "files", fmt.Sprintf("%04d_%s", i, filepath.Base(virt)))
		i++
		if err := os.WriteFile(real, content, 0o644); err != nil {
			return "", err
		}
		repl[virt] = real
	}
	b, _ := json.MarshalIndent(map[string]any{"Replace": repl}, "", " ")
	p := filepath.Join(dir, "overlay.json")
	return p, os.WriteFile(p, b, 0o644)
}

func goEnv() []string {
	return append(os.Environ(), "GOFLAGS=-mod=mod", "GOPROXY=off", "GOSUMDB=off", "GOTOOLCHAIN=local")
}

// Build compiles the helper from repoDir's current tree with the overlay.
func Build(repoDir, overlayJSON, outBin string) error {
	cmd := exec.Command("go", "build", "-overlay", overlayJSON, "-o", outBin, "./cmd/zz_verifhelper")
	cmd.Dir = repoDir
	cmd.Env = goEnv()
	out, err := cmd.CombinedOutput()
	if err != nil {
		return fmt.Errorf("building compiler helper: %v\n%s", err, out)
	}
	return nil
}

func Start(bin string) (*Helper, error) {
	h := &Helper{cache: map[string][]byte{}}
	h.cmd = exec.Command(bin)
	in, err := h.cmd.StdinPipe()
	if err != nil {
		return nil, err
	}
	out, err := h.cmd.StdoutPipe()
	if err != nil {
		return nil, err
	}
	h.cmd.Stderr = os.Stderr
	if err := h.cmd.Start(); err != nil {
		return nil, err
	}
	h.in = in
	h.out = bufio.NewReaderSize(out, 1<<20)
	return h, nil
}

func (h *Helper) Compile(script string) ([]byte, error) {
	h.mu.Lock()
	defer h.mu.Unlock()
	if b, ok := h.cache[script]; ok {
		return b, nil
	}
	req, _ := json.Marshal(map[string]string{"script": script})
	if _, err := h.in.Write(append(req, '\n')); err != nil {
		return nil, err
	}
	line, err := h.out.ReadBytes('\n')
	if err != nil {
		return nil, err
	}
	h.cache[script] = line
	h.Calls++
	return line, nil
}

func (h *Helper) Close() {
	h.in.Close()
	h.cmd.Wait()
}
