package interp

import (
	"fmt"
	"go/types"
	"math/big"
	"sort"
	"strings"
	"time"

	"golang.org/x/tools/go/ssa"

	"symgo/sym"
)

// Value is an interpreter value:
//
//	bool | *sym.Term(Bool)        booleans
//	int64 | *sym.Term(BV)         all integer kinds (bits normalised to the static type)
//	float64                        floats
//	string | *Rope                 strings
//	BigVal, RatVal                 math/big.Int, math/big.Rat struct values (immutable)
//	Struct, Array, Tuple           aggregates
//	*Value                         pointers
//	[]Value                        slices (host len/cap = Go len/cap)
//	*Map, *Chan                    maps, channels
//	Iface                          interfaces
//	*ssa.Function, *ssa.Builtin, *Closure   functions
//	time.Time, Native              opaque host values
type Value = interface{}

type Struct []Value
type Array []Value
type Tuple []Value

type Iface struct {
	T types.Type
	V Value
}

type Closure struct {
	Fn  *ssa.Function
	Env []Value
}

// Native wraps an opaque host object (regexp, context, logger, ...).
type Native struct{ X interface{} }

// BigVal is the value of a math/big.Int: concrete C or symbolic T (sort Int).
type BigVal struct {
	C *big.Int
	T *sym.Term
}

var bigZero = big.NewInt(0)

func (b BigVal) Term() *sym.Term {
	if b.T != nil {
		return b.T
	}
	if b.C == nil {
		return sym.Int64Const(0)
	}
	return sym.IntConst(b.C)
}

func (b BigVal) Conc() (*big.Int, bool) {
	if b.T != nil {
		if b.T.IsConst() {
			return b.T.Val, true
		}
		return nil, false
	}
	if b.C == nil {
		return bigZero, true
	}
	return b.C, true
}

func bigOf(t *sym.Term) BigVal {
	if t.IsConst() {
		return BigVal{C: t.Val}
	}
	return BigVal{T: t}
}

// RatVal is the value of a math/big.Rat; concrete only.
type RatVal struct{ R *big.Rat }

func (r RatVal) Get() *big.Rat {
	if r.R == nil {
		return new(big.Rat)
	}
	return r.R
}

// ---------- ropes ----------

// Rope is a string with symbolic parts. Seg kinds: S (concrete bytes), B (one
// symbolic byte, BV8), D (decimal rendering of an Int term).
type Seg struct {
	S string
	B *sym.Term
	D *sym.Term
	H *HashToken // opaque rendering (base64) of a hash value
}

func (s Seg) conc() bool { return s.B == nil && s.D == nil && s.H == nil }

type Rope struct{ Segs []Seg }

func ropeOf(v Value) *Rope {
	switch v := v.(type) {
	case string:
		if v == "" {
			return &Rope{}
		}
		return &Rope{Segs: []Seg{{S: v}}}
	case *Rope:
		return v
	}
	panic(unsupported("ropeOf %T", v))
}

// normRope merges adjacent concrete segments; returns a Go string if fully concrete.
func normRope(r *Rope) Value {
	var out []Seg
	for _, s := range r.Segs {
		if s.B != nil && s.B.IsConst() {
			s = Seg{S: string([]byte{byte(s.B.Uint())})}
		}
		if s.D != nil && s.D.IsConst() {
			s = Seg{S: s.D.Val.String()}
		}
		if s.conc() {
			if s.S == "" {
				continue
			}
			if n := len(out); n > 0 && out[n-1].conc() {
				out[n-1].S += s.S
				continue
			}
		}
		out = append(out, s)
	}
	if len(out) == 0 {
		return ""
	}
	if len(out) == 1 && out[0].conc() {
		return out[0].S
	}
	return &Rope{Segs: out}
}

func concatStr(a, b Value) Value {
	if x, ok := a.(string); ok {
		if y, ok := b.(string); ok {
			return x + y
		}
	}
	ra, rb := ropeOf(a), ropeOf(b)
	segs := make([]Seg, 0, len(ra.Segs)+len(rb.Segs))
	segs = append(segs, ra.Segs...)
	segs = append(segs, rb.Segs...)
	return normRope(&Rope{Segs: segs})
}

func (r *Rope) hasDec() bool {
	for _, s := range r.Segs {
		if s.D != nil || s.H != nil {
			return true
		}
	}
	return false
}

// byteLen returns the length if it is determined (no dec segments).
func (r *Rope) byteLen() (int, bool) {
	n := 0
	for _, s := range r.Segs {
		switch {
		case s.D != nil, s.H != nil:
			return 0, false
		case s.B != nil:
			n++
		default:
			n += len(s.S)
		}
	}
	return n, true
}

// bytes returns the rope as a sequence of byte values (int64 or BV8 terms).
func (r *Rope) bytes() ([]Value, bool) {
	var out []Value
	for _, s := range r.Segs {
		switch {
		case s.D != nil, s.H != nil:
			return nil, false
		case s.B != nil:
			out = append(out, s.B)
		default:
			for i := 0; i < len(s.S); i++ {
				out = append(out, int64(s.S[i]))
			}
		}
	}
	return out, true
}

func ropeFromBytes(bs []Value) Value {
	r := &Rope{}
	var sb []byte
	flush := func() {
		if len(sb) > 0 {
			r.Segs = append(r.Segs, Seg{S: string(sb)})
			sb = nil
		}
	}
	for _, b := range bs {
		switch b := b.(type) {
		case int64:
			sb = append(sb, byte(b))
		case *sym.Term:
			flush()
			r.Segs = append(r.Segs, Seg{B: b})
		case *Rope:
			flush()
			r.Segs = append(r.Segs, b.Segs...)
		case *HashToken:
			flush()
			r.Segs = append(r.Segs, Seg{H: b})
		default:
			panic(unsupported("ropeFromBytes %T", b))
		}
	}
	flush()
	return normRope(r)
}

func (r *Rope) String() string {
	var sb strings.Builder
	for _, s := range r.Segs {
		switch {
		case s.H != nil:
			sb.WriteString("‹hash›")
		case s.D != nil:
			sb.WriteString("‹dec " + s.D.String() + "›")
		case s.B != nil:
			sb.WriteString("‹byte " + s.B.String() + "›")
		default:
			sb.WriteString(s.S)
		}
	}
	return sb.String()
}

// ---------- maps ----------

type mapEntry struct {
	k, v    Value
	deleted bool
}

type Map struct {
	entries []*mapEntry
	idx     map[interface{}]*mapEntry
	live    int
}

func newMap() *Map { return &Map{idx: map[interface{}]*mapEntry{}} }

func (m *Map) Len() int { return m.live }

// hashKey returns a host-comparable canonical key for concrete values.
func hashKey(v Value) (interface{}, bool) {
	switch v := v.(type) {
	case bool, int64, float64, string:
		return v, true
	case *Value, *Map, *Chan, *ssa.Function, *Closure:
		return v, true
	case time.Time:
		return v, true
	case Iface:
		if v.T == nil {
			return "nil-iface", true
		}
		k, ok := hashKey(v.V)
		if !ok {
			return nil, false
		}
		return [2]interface{}{v.T.String(), k}, true
	case Struct:
		var sb strings.Builder
		sb.WriteString("S{")
		for _, f := range v {
			k, ok := hashKey(f)
			if !ok {
				return nil, false
			}
			fmt.Fprintf(&sb, "%T:%v|", k, k)
		}
		return sb.String(), true
	case Array:
		var sb strings.Builder
		sb.WriteString("A{")
		for _, f := range v {
			k, ok := hashKey(f)
			if !ok {
				return nil, false
			}
			fmt.Fprintf(&sb, "%T:%v|", k, k)
		}
		return sb.String(), true
	case BigVal:
		if c, ok := v.Conc(); ok {
			return "big:" + c.String(), true
		}
		return nil, false
	case Native:
		return v.X, true
	}
	return nil, false
}

// ---------- channels ----------

type waiter struct {
	th      *Thread
	ch      *Chan
	send    bool
	val     Value // value to send / received value
	ok      bool  // recv: channel open
	sel     *selState
	caseIdx int
	fired   bool
	closedP bool // sender woken by close
}

type selState struct {
	waiters []*waiter
	fired   *waiter
}

type Chan struct {
	cap    int
	buf    []Value
	closed bool
	recvq  []*waiter
	sendq  []*waiter
	elem   types.Type
}

// ---------- type helpers ----------

type intInfo struct {
	w      int
	signed bool
}

func basicIntInfo(k types.BasicKind) (intInfo, bool) {
	switch k {
	case types.Int, types.Int64, types.UntypedInt, types.UntypedRune:
		return intInfo{64, true}, true
	case types.Int8:
		return intInfo{8, true}, true
	case types.Int16:
		return intInfo{16, true}, true
	case types.Int32:
		return intInfo{32, true}, true
	case types.Uint, types.Uint64, types.Uintptr:
		return intInfo{64, false}, true
	case types.Uint8:
		return intInfo{8, false}, true
	case types.Uint16:
		return intInfo{16, false}, true
	case types.Uint32:
		return intInfo{32, false}, true
	}
	return intInfo{}, false
}

func intInfoOf(t types.Type) (intInfo, bool) {
	if b, ok := t.Underlying().(*types.Basic); ok {
		return basicIntInfo(b.Kind())
	}
	return intInfo{}, false
}

func normInt(v int64, ii intInfo) int64 {
	if ii.w >= 64 {
		return v
	}
	sh := uint(64 - ii.w)
	if ii.signed {
		return (v << sh) >> sh
	}
	return int64((uint64(v) << sh) >> sh)
}

func isString(t types.Type) bool {
	b, ok := t.Underlying().(*types.Basic)
	return ok && b.Info()&types.IsString != 0
}

func isFloat(t types.Type) bool {
	b, ok := t.Underlying().(*types.Basic)
	return ok && b.Info()&types.IsFloat != 0
}

func isBool(t types.Type) bool {
	b, ok := t.Underlying().(*types.Basic)
	return ok && b.Info()&types.IsBoolean != 0
}

type opaqueKind int

const (
	opNone opaqueKind = iota
	opBigInt
	opBigRat
	opMutex
	opRWMutex
	opWaitGroup
	opOnce
	opSyncMap
	opAtomicInt
	opAtomicBool
	opAtomicValue
	opTime
	opBuilder
	opNativeZero
)

func namedPath(t types.Type) string {
	if n, ok := t.(*types.Named); ok {
		if n.Obj().Pkg() != nil {
			return n.Obj().Pkg().Path() + "." + n.Obj().Name()
		}
		return n.Obj().Name()
	}
	return ""
}

var opaqueByName = map[string]opaqueKind{
	"math/big.Int":         opBigInt,
	"math/big.Rat":         opBigRat,
	"sync.Mutex":           opMutex,
	"sync.RWMutex":         opRWMutex,
	"sync.WaitGroup":       opWaitGroup,
	"sync.Once":            opOnce,
	"sync.Map":             opSyncMap,
	"sync/atomic.Int64":    opAtomicInt,
	"sync/atomic.Int32":    opAtomicInt,
	"sync/atomic.Uint64":   opAtomicInt,
	"sync/atomic.Uint32":   opAtomicInt,
	"sync/atomic.Bool":     opAtomicBool,
	"sync/atomic.Value":    opAtomicValue,
	"time.Time":            opTime,
	"strings.Builder":      opBuilder,
	"go.uber.org/atomic.Int64": opAtomicInt,
}

// engine objects for sync primitives
type Mutex struct {
	locked  bool
	readers int
	waitq   []*Thread
}
type WaitGroup struct {
	n     int
	waitq []*Thread
}
type Once struct{ done bool }
type SyncMap struct{ m *Map }
type Builder struct{ v Value }

func (in *Interp) opaqueOf(t types.Type) opaqueKind {
	if k, ok := in.opaqueSync.Load(t); ok {
		return k.(opaqueKind)
	}
	k := opNone
	if n, ok := t.(*types.Named); ok {
		if kk, ok := opaqueByName[namedPath(n)]; ok {
			k = kk
		} else if st, ok := n.Underlying().(*types.Struct); ok && in.bigIntStruct != nil {
			if types.Identical(st, in.bigIntStruct) {
				k = opBigInt
			} else if in.bigRatStruct != nil && types.Identical(st, in.bigRatStruct) {
				k = opBigRat
			}
		}
	}
	in.opaqueSync.Store(t, k)
	return k
}

// zero returns the zero value of type t.
func (in *Interp) zero(t types.Type) Value {
	switch k := in.opaqueOf(t); k {
	case opBigInt:
		return BigVal{}
	case opBigRat:
		return RatVal{}
	case opMutex, opRWMutex:
		return &Mutex{}
	case opWaitGroup:
		return &WaitGroup{}
	case opOnce:
		return &Once{}
	case opSyncMap:
		return &SyncMap{m: newMap()}
	case opAtomicInt:
		return int64(0)
	case opAtomicBool:
		return false
	case opAtomicValue:
		return Iface{}
	case opTime:
		return time.Time{}
	case opBuilder:
		return &Builder{v: ""}
	case opNativeZero:
		return Native{}
	}
	switch t := t.(type) {
	case *types.Basic:
		switch {
		case t.Kind() == types.UnsafePointer:
			return (*Value)(nil)
		case t.Info()&types.IsBoolean != 0:
			return false
		case t.Info()&types.IsInteger != 0:
			return int64(0)
		case t.Info()&types.IsFloat != 0:
			return float64(0)
		case t.Info()&types.IsString != 0:
			return ""
		case t.Kind() == types.UntypedNil:
			return nil
		}
		panic(unsupported("zero of basic %v", t))
	case *types.Pointer:
		return (*Value)(nil)
	case *types.Slice:
		return []Value(nil)
	case *types.Map:
		return (*Map)(nil)
	case *types.Chan:
		return (*Chan)(nil)
	case *types.Signature:
		return (*Closure)(nil)
	case *types.Interface:
		return Iface{}
	case *types.Struct:
		s := make(Struct, t.NumFields())
		for i := range s {
			s[i] = in.zero(t.Field(i).Type())
		}
		return s
	case *types.Array:
		a := make(Array, t.Len())
		for i := range a {
			a[i] = in.zero(t.Elem())
		}
		return a
	case *types.Named:
		return in.zero(t.Underlying())
	case *types.Alias:
		return in.zero(types.Unalias(t))
	case *types.Tuple:
		if t.Len() == 1 {
			return in.zero(t.At(0).Type())
		}
		s := make(Tuple, t.Len())
		for i := range s {
			s[i] = in.zero(t.At(i).Type())
		}
		return s
	case *types.TypeParam:
		panic(unsupported("zero of type parameter %v", t))
	}
	panic(unsupported("zero of %T %v", t, t))
}

// copyVal copies aggregates (value semantics on load/store).
func copyVal(v Value) Value {
	switch v := v.(type) {
	case Struct:
		c := make(Struct, len(v))
		for i, f := range v {
			c[i] = copyVal(f)
		}
		return c
	case Array:
		c := make(Array, len(v))
		for i, f := range v {
			c[i] = copyVal(f)
		}
		return c
	}
	return v
}

func isNilPtrLike(v Value) bool {
	switch v := v.(type) {
	case nil:
		return true
	case *Value:
		return v == nil
	case []Value:
		return v == nil
	case *Map:
		return v == nil
	case *Chan:
		return v == nil
	case *Closure:
		return v == nil
	case *ssa.Function:
		return v == nil
	case Iface:
		return v.T == nil
	}
	return false
}

// toBoolTerm converts a boolean value to a term.
func toBoolTerm(v Value) *sym.Term {
	switch v := v.(type) {
	case bool:
		return sym.Bool(v)
	case *sym.Term:
		return v
	}
	panic(unsupported("toBoolTerm %T", v))
}

// toBV converts an integer value to a BV term of the given width.
func toBV(v Value, w int) *sym.Term {
	switch v := v.(type) {
	case int64:
		return sym.BVConst(uint64(v), w)
	case *sym.Term:
		if v.Sort.Width() != w {
			panic(fmt.Sprintf("toBV: width %d != %d", v.Sort.Width(), w))
		}
		return v
	}
	panic(unsupported("toBV %T", v))
}

// fromBV normalises a BV term into a Value (int64 if constant).
func fromBV(t *sym.Term, ii intInfo) Value {
	if t.IsConst() {
		return normInt(int64(t.Uint()), ii)
	}
	return t
}

func fromBoolTerm(t *sym.Term) Value {
	if t.IsConst() {
		return t.B
	}
	return t
}

// describe renders a value for diagnostics / samples.
func describe(v Value) string {
	switch v := v.(type) {
	case nil:
		return "nil"
	case *sym.Term:
		return v.String()
	case BigVal:
		if c, ok := v.Conc(); ok {
			return c.String()
		}
		return v.T.String()
	case *Rope:
		return v.String()
	case Iface:
		if v.T == nil {
			return "nil"
		}
		return fmt.Sprintf("%s(%s)", v.T, describe(v.V))
	case Struct:
		parts := make([]string, len(v))
		for i, f := range v {
			parts[i] = describe(f)
		}
		return "{" + strings.Join(parts, " ") + "}"
	case []Value:
		parts := make([]string, len(v))
		for i, f := range v {
			parts[i] = describe(f)
		}
		return "[" + strings.Join(parts, " ") + "]"
	case *Value:
		if v == nil {
			return "nil"
		}
		return "&" + describe(*v)
	case *Map:
		if v == nil {
			return "map(nil)"
		}
		var parts []string
		for _, e := range v.entries {
			if !e.deleted {
				parts = append(parts, describe(e.k)+":"+describe(e.v))
			}
		}
		sort.Strings(parts)
		return "map[" + strings.Join(parts, " ") + "]"
	}
	return fmt.Sprintf("%v", v)
}
