package interp

import (
	"go/types"
	"sync"

	"golang.org/x/tools/go/ssa"

	"symgo/sym"
)

// rval is the engine's reflect.Value.
type rval struct {
	t    types.Type
	v    Value
	addr *Value // settable location, if any
}

var (
	rtypeMu    sync.Mutex
	rtypeCache []struct {
		t types.Type
		p *Value
	}
)

func (in *Interp) rtypeOf(t types.Type) Value {
	rtypeMu.Lock()
	defer rtypeMu.Unlock()
	for _, e := range rtypeCache {
		if types.Identical(e.t, t) {
			return in.rtypeIface(e.p)
		}
	}
	p := ptrTo(Native{t})
	rtypeCache = append(rtypeCache, struct {
		t types.Type
		p *Value
	}{t, p})
	return in.rtypeIface(p)
}

func (in *Interp) rtypeIface(p *Value) Value {
	rt := in.Prog.ImportedPackage("reflect").Type("rtype").Type()
	return Iface{T: types.NewPointer(rt), V: p}
}

func (th *Thread) deepEqual(t types.Type, x, y Value) *sym.Term {
	in := th.ex.in
	switch in.opaqueOf(t) {
	case opBigInt:
		return sym.Eq(x.(BigVal).Term(), y.(BigVal).Term())
	case opNone:
	default:
		return toBoolTerm(th.equals(x, y))
	}
	switch u := t.Underlying().(type) {
	case *types.Pointer:
		px, py := x.(*Value), y.(*Value)
		if px == nil || py == nil {
			return sym.Bool(px == py)
		}
		if px == py {
			return sym.True
		}
		return th.deepEqual(u.Elem(), *px, *py)
	case *types.Slice:
		sx, sy := x.([]Value), y.([]Value)
		if (sx == nil) != (sy == nil) || len(sx) != len(sy) {
			return sym.False
		}
		acc := sym.True
		for i := range sx {
			acc = sym.And(acc, th.deepEqual(u.Elem(), sx[i], sy[i]))
			if acc.IsFalse() {
				return acc
			}
		}
		return acc
	case *types.Array:
		ax, ay := x.(Array), y.(Array)
		acc := sym.True
		for i := range ax {
			acc = sym.And(acc, th.deepEqual(u.Elem(), ax[i], ay[i]))
		}
		return acc
	case *types.Struct:
		sx, sy := x.(Struct), y.(Struct)
		acc := sym.True
		for i := range sx {
			acc = sym.And(acc, th.deepEqual(u.Field(i).Type(), sx[i], sy[i]))
			if acc.IsFalse() {
				return acc
			}
		}
		return acc
	case *types.Map:
		mx, my := x.(*Map), y.(*Map)
		if (mx == nil) != (my == nil) {
			return sym.False
		}
		if mx == nil {
			return sym.True
		}
		if mx.Len() != my.Len() {
			return sym.False
		}
		acc := sym.True
		for _, e := range mx.entries {
			if e.deleted {
				continue
			}
			o := th.findEntry(my, e.k)
			if o == nil {
				return sym.False
			}
			acc = sym.And(acc, th.deepEqual(u.Elem(), e.v, o.v))
		}
		return acc
	case *types.Interface:
		ix, iy := x.(Iface), y.(Iface)
		if ix.T == nil || iy.T == nil {
			return sym.Bool(ix.T == nil && iy.T == nil)
		}
		if !types.Identical(ix.T, iy.T) {
			return sym.False
		}
		return th.deepEqual(ix.T, ix.V, iy.V)
	case *types.Signature:
		return sym.Bool(isNilPtrLike(x) && isNilPtrLike(y))
	}
	return toBoolTerm(th.equals(x, y))
}

func init() {
	opaqueByName["reflect.Value"] = opNativeZero
	extraRegs = append(extraRegs, func(in *Interp) {
		in.reg("reflect.DeepEqual", func(th *Thread, fn *ssa.Function, a []Value) Value {
			x, y := a[0].(Iface), a[1].(Iface)
			if x.T == nil || y.T == nil {
				return x.T == nil && y.T == nil
			}
			if !types.Identical(x.T, y.T) {
				return false
			}
			return fromBoolTerm(th.deepEqual(x.T, x.V, y.V))
		})
		in.reg("reflect.TypeOf", func(th *Thread, fn *ssa.Function, a []Value) Value {
			x := a[0].(Iface)
			if x.T == nil {
				return Iface{}
			}
			return in.rtypeOf(x.T)
		})
		in.reg("reflect.ValueOf", func(th *Thread, fn *ssa.Function, a []Value) Value {
			x := a[0].(Iface)
			return Native{&rval{t: x.T, v: x.V}}
		})
		rv := func(v Value) *rval {
			n, ok := v.(Native)
			if !ok || n.X == nil {
				return &rval{}
			}
			return n.X.(*rval)
		}
		in.reg("(reflect.Value).Elem", func(th *Thread, fn *ssa.Function, a []Value) Value {
			r := rv(a[0])
			switch u := r.t.Underlying().(type) {
			case *types.Pointer:
				p := r.v.(*Value)
				if p == nil {
					return Native{&rval{}}
				}
				return Native{&rval{t: u.Elem(), v: *p, addr: p}}
			case *types.Interface:
				it := r.v.(Iface)
				return Native{&rval{t: it.T, v: it.V}}
			}
			panic(unsupported("reflect.Value.Elem on %v", r.t))
		})
		in.reg("(reflect.Value).Interface", func(th *Thread, fn *ssa.Function, a []Value) Value {
			r := rv(a[0])
			if r.t == nil {
				return Iface{}
			}
			if _, ok := r.t.Underlying().(*types.Interface); ok {
				return r.v
			}
			return Iface{T: r.t, V: copyVal(r.v)}
		})
		in.reg("(reflect.Value).IsNil", func(th *Thread, fn *ssa.Function, a []Value) Value {
			r := rv(a[0])
			return isNilPtrLike(r.v)
		})
		in.reg("(reflect.Value).IsValid", func(th *Thread, fn *ssa.Function, a []Value) Value {
			return rv(a[0]).t != nil
		})
		in.reg("(reflect.Value).IsZero", func(th *Thread, fn *ssa.Function, a []Value) Value {
			r := rv(a[0])
			return th.isEmptyJSON(r.t, r.v)
		})
		in.reg("(reflect.Value).Type", func(th *Thread, fn *ssa.Function, a []Value) Value {
			return in.rtypeOf(rv(a[0]).t)
		})
		in.reg("(reflect.Value).Kind", func(th *Thread, fn *ssa.Function, a []Value) Value {
			return int64(kindOf(rv(a[0]).t))
		})
		in.reg("(reflect.Value).Len", func(th *Thread, fn *ssa.Function, a []Value) Value {
			r := rv(a[0])
			switch x := r.v.(type) {
			case []Value:
				return int64(len(x))
			case Array:
				return int64(len(x))
			case *Map:
				if x == nil {
					return int64(0)
				}
				return int64(x.Len())
			case string:
				return int64(len(x))
			}
			panic(unsupported("reflect.Value.Len on %T", r.v))
		})
		in.reg("(reflect.Value).Index", func(th *Thread, fn *ssa.Function, a []Value) Value {
			r := rv(a[0])
			i := int(th.concInt(a[1], "reflect index"))
			switch x := r.v.(type) {
			case []Value:
				return Native{&rval{t: r.t.Underlying().(*types.Slice).Elem(), v: x[i], addr: &x[i]}}
			case Array:
				return Native{&rval{t: r.t.Underlying().(*types.Array).Elem(), v: x[i], addr: &x[i]}}
			}
			panic(unsupported("reflect.Value.Index on %T", r.v))
		})
		in.reg("(reflect.Value).NumField", func(th *Thread, fn *ssa.Function, a []Value) Value {
			return int64(rv(a[0]).t.Underlying().(*types.Struct).NumFields())
		})
		in.reg("(reflect.Value).Field", func(th *Thread, fn *ssa.Function, a []Value) Value {
			r := rv(a[0])
			i := int(th.concInt(a[1], "field index"))
			st := r.t.Underlying().(*types.Struct)
			sv := r.v.(Struct)
			return Native{&rval{t: st.Field(i).Type(), v: sv[i], addr: &sv[i]}}
		})
		in.reg("(reflect.Value).FieldByName", func(th *Thread, fn *ssa.Function, a []Value) Value {
			r := rv(a[0])
			name := th.str(a[1], "field name")
			st := r.t.Underlying().(*types.Struct)
			sv := r.v.(Struct)
			for i := 0; i < st.NumFields(); i++ {
				if st.Field(i).Name() == name {
					return Native{&rval{t: st.Field(i).Type(), v: sv[i], addr: &sv[i]}}
				}
			}
			return Native{&rval{}}
		})
		in.reg("(reflect.Value).Set", func(th *Thread, fn *ssa.Function, a []Value) Value {
			r := rv(a[0])
			if r.addr == nil {
				panic(unsupported("reflect.Value.Set on unaddressable value"))
			}
			*r.addr = copyVal(rv(a[1]).v)
			return nil
		})
		in.reg("(reflect.Value).String", func(th *Thread, fn *ssa.Function, a []Value) Value {
			r := rv(a[0])
			if s, ok := r.v.(string); ok {
				return s
			}
			if s, ok := r.v.(*Rope); ok {
				return s
			}
			return "<" + r.t.String() + " Value>"
		})
		in.reg("(reflect.Value).Int", func(th *Thread, fn *ssa.Function, a []Value) Value { return rv(a[0]).v })
		in.reg("(reflect.Value).Uint", func(th *Thread, fn *ssa.Function, a []Value) Value { return rv(a[0]).v })
		in.reg("(reflect.Value).Bool", func(th *Thread, fn *ssa.Function, a []Value) Value { return rv(a[0]).v })
		in.reg("reflect.New", func(th *Thread, fn *ssa.Function, a []Value) Value {
			t := typeOfRtype(a[0])
			return Native{&rval{t: types.NewPointer(t), v: ptrTo(in.zero(t))}}
		})
		in.reg("reflect.Zero", func(th *Thread, fn *ssa.Function, a []Value) Value {
			t := typeOfRtype(a[0])
			return Native{&rval{t: t, v: in.zero(t)}}
		})
		rt := "(*reflect.rtype)."
		in.reg(rt+"Kind", func(th *Thread, fn *ssa.Function, a []Value) Value {
			return int64(kindOf(typeOfRtype(Iface{T: types.Typ[types.Int], V: a[0]})))
		})
		in.reg(rt+"Elem", func(th *Thread, fn *ssa.Function, a []Value) Value {
			t := typeOfRtype(Iface{T: types.Typ[types.Int], V: a[0]})
			switch u := t.Underlying().(type) {
			case *types.Pointer:
				return in.rtypeOf(u.Elem())
			case *types.Slice:
				return in.rtypeOf(u.Elem())
			case *types.Array:
				return in.rtypeOf(u.Elem())
			case *types.Map:
				return in.rtypeOf(u.Elem())
			}
			panic(unsupported("rtype.Elem of %v", t))
		})
		in.reg(rt+"String", func(th *Thread, fn *ssa.Function, a []Value) Value {
			t := typeOfRtype(Iface{T: types.Typ[types.Int], V: a[0]})
			return types.TypeString(t, func(p *types.Package) string { return p.Name() })
		})
		in.reg(rt+"Name", func(th *Thread, fn *ssa.Function, a []Value) Value {
			t := typeOfRtype(Iface{T: types.Typ[types.Int], V: a[0]})
			if n, ok := t.(*types.Named); ok {
				return n.Obj().Name()
			}
			if b, ok := t.(*types.Basic); ok {
				return b.Name()
			}
			return ""
		})
		in.reg(rt+"NumField", func(th *Thread, fn *ssa.Function, a []Value) Value {
			t := typeOfRtype(Iface{T: types.Typ[types.Int], V: a[0]})
			return int64(t.Underlying().(*types.Struct).NumFields())
		})
	})
}

func typeOfRtype(v Value) types.Type {
	it := v.(Iface)
	p := it.V.(*Value)
	return (*p).(Native).X.(types.Type)
}

// kindOf mirrors reflect.Kind numbering.
func kindOf(t types.Type) int {
	if t == nil {
		return 0
	}
	switch u := t.Underlying().(type) {
	case *types.Basic:
		switch u.Kind() {
		case types.Bool:
			return 1
		case types.Int:
			return 2
		case types.Int8:
			return 3
		case types.Int16:
			return 4
		case types.Int32:
			return 5
		case types.Int64:
			return 6
		case types.Uint:
			return 7
		case types.Uint8:
			return 8
		case types.Uint16:
			return 9
		case types.Uint32:
			return 10
		case types.Uint64:
			return 11
		case types.Uintptr:
			return 12
		case types.Float32:
			return 13
		case types.Float64:
			return 14
		case types.String:
			return 24
		case types.UnsafePointer:
			return 26
		}
	case *types.Array:
		return 17
	case *types.Chan:
		return 18
	case *types.Signature:
		return 19
	case *types.Interface:
		return 20
	case *types.Map:
		return 21
	case *types.Pointer:
		return 22
	case *types.Slice:
		return 23
	case *types.Struct:
		return 25
	}
	return 0
}
