// Package interp is a symbolic interpreter for go/ssa: scalars may be SMT terms,
// heap shape is concrete, paths are explored by re-execution over decision prefixes.
package interp

import (
	"sync/atomic"
	"encoding/base64"
	"fmt"
	"go/constant"
	"go/token"
	"go/types"
	"slices"
	"sort"
	"strings"
	"sync"

	"golang.org/x/tools/go/ssa"

	"symgo/sym"
)

// Interp is the state shared by all executions of one loaded program.
type Interp struct {
	Prog    *ssa.Program
	globals map[*ssa.Global]*Value
	gmu     sync.Mutex
	sizes   types.Sizes

	opaqueCache  map[types.Type]opaqueKind
	opaqueMu     sync.Mutex
	opaqueSync   sync.Map
	bigIntStruct types.Type
	bigRatStruct types.Type

	runtimeErrorString types.Type
	errorStringPtr     types.Type // *errors.errorString

	intrinsics map[string]Intrinsic
	fnIntr     sync.Map // *ssa.Function -> Intrinsic or nil marker

	initDone map[*ssa.Package]bool
	initMu   sync.Mutex

	// InitPkgPrefixes lists import-path prefixes whose init functions are interpreted.
	InitPkgPrefixes []string

	Compile func(script string) (string, error) // native compiler helper (JSON program)

	FuncStats sync.Map // *ssa.Function -> *int64 (instructions executed)
	TraceFn   func(string)
}

func New(prog *ssa.Program) *Interp {
	in := &Interp{
		Prog:        prog,
		globals:     map[*ssa.Global]*Value{},
		sizes:       types.SizesFor("gc", "amd64"),
		opaqueCache: map[types.Type]opaqueKind{},
		intrinsics:  map[string]Intrinsic{},
		initDone:    map[*ssa.Package]bool{},
	}
	if p := prog.ImportedPackage("math/big"); p != nil {
		in.bigIntStruct = p.Type("Int").Type().Underlying()
		in.bigRatStruct = p.Type("Rat").Type().Underlying()
	}
	if p := prog.ImportedPackage("runtime"); p != nil {
		in.runtimeErrorString = p.Type("errorString").Object().Type()
	}
	if p := prog.ImportedPackage("errors"); p != nil {
		in.errorStringPtr = types.NewPointer(p.Type("errorString").Object().Type())
	}
	registerAll(in)
	in.initStdGlobals()
	return in
}

// initStdGlobals gives a few standard-library globals their values (the std package
// initialisers themselves are not interpreted).
func (in *Interp) initStdGlobals() {
	setErr := func(pkg, name, msg string) {
		p := in.Prog.ImportedPackage(pkg)
		if p == nil || in.errorStringPtr == nil {
			return
		}
		if g := p.Var(name); g != nil {
			*in.global(g) = Iface{T: in.errorStringPtr, V: ptrTo(Struct{msg})}
		}
	}
	setErr("context", "Canceled", "context canceled")
	setErr("context", "DeadlineExceeded", "context deadline exceeded")
	setErr("io", "EOF", "EOF")
	setErr("io", "ErrUnexpectedEOF", "unexpected EOF")
	setErr("database/sql", "ErrNoRows", "sql: no rows in result set")
	if p := in.Prog.ImportedPackage("encoding/base64"); p != nil {
		for name, enc := range map[string]*base64.Encoding{"StdEncoding": base64.StdEncoding, "URLEncoding": base64.URLEncoding, "RawStdEncoding": base64.RawStdEncoding, "RawURLEncoding": base64.RawURLEncoding} {
			if g := p.Var(name); g != nil {
				*in.global(g) = ptrTo(Native{enc})
			}
		}
	}
}

// ---------- abort kinds ----------

type Outcome int

const (
	OutOK Outcome = iota
	OutAssumeFalse
	OutUnsupported
	OutBudget
	OutPanic
	OutDeadlock
	OutInfeasible
	OutEngineError
	OutStop // stopped after a violation
)

func (o Outcome) String() string {
	return [...]string{"ok", "assume-false", "unsupported", "budget", "panic", "deadlock", "infeasible", "engine-error", "stop"}[o]
}

// engineAbort unwinds a thread without running interpreted defers.
type engineAbort struct {
	out Outcome
	msg string
}

type killedSentinel struct{}

type Unsupported struct{ Msg string }

func unsupported(format string, args ...interface{}) *Unsupported {
	return &Unsupported{Msg: fmt.Sprintf(format, args...)}
}

// TargetPanic is a Go-level panic of the interpreted program.
type TargetPanic struct{ V Value }

func (in *Interp) runtimeError(msg string) TargetPanic {
	return TargetPanic{V: Iface{T: in.runtimeErrorString, V: msg}}
}

// ---------- frames ----------

type deferred struct {
	fn    Value
	args  []Value
	instr *ssa.Defer
	tail  *deferred
}

type frame struct {
	th               *Thread
	caller           *frame
	fn               *ssa.Function
	block, prevBlock *ssa.BasicBlock
	env              map[ssa.Value]Value
	locals           []Value
	defers           *deferred
	result           Value
	panicking        bool
	panicVal         interface{}
	phitemps         []Value
	pos              token.Pos
}

func (in *Interp) global(g *ssa.Global) *Value {
	in.gmu.Lock()
	defer in.gmu.Unlock()
	if r, ok := in.globals[g]; ok {
		return r
	}
	cell := new(Value)
	*cell = in.zero(deref(g.Type()))
	in.globals[g] = cell
	return cell
}

func deref(t types.Type) types.Type {
	if p, ok := t.Underlying().(*types.Pointer); ok {
		return p.Elem()
	}
	panic(fmt.Sprintf("deref of non-pointer %v", t))
}

func (in *Interp) constValue(c *ssa.Const) Value {
	if c.Value == nil {
		return in.zero(c.Type())
	}
	t := c.Type().Underlying()
	if b, ok := t.(*types.Basic); ok {
		switch {
		case b.Info()&types.IsBoolean != 0:
			return constant.BoolVal(c.Value)
		case b.Info()&types.IsString != 0:
			if c.Value.Kind() == constant.String {
				return constant.StringVal(c.Value)
			}
			// string(int const)
			i, _ := constant.Int64Val(c.Value)
			return string(rune(i))
		case b.Info()&types.IsInteger != 0:
			ii, _ := basicIntInfo(b.Kind())
			v := constant.ToInt(c.Value)
			if i, ok := constant.Int64Val(v); ok {
				return normInt(i, ii)
			}
			if u, ok := constant.Uint64Val(v); ok {
				return normInt(int64(u), ii)
			}
			panic(unsupported("integer constant %v out of range", c))
		case b.Info()&types.IsFloat != 0:
			f, _ := constant.Float64Val(c.Value)
			return f
		case b.Kind() == types.UnsafePointer:
			return (*Value)(nil)
		}
	}
	if _, ok := t.(*types.Interface); ok {
		// typed constant in interface? (generic) – not expected
	}
	panic(unsupported("constant %v of type %v", c, c.Type()))
}

func (fr *frame) get(key ssa.Value) Value {
	switch key := key.(type) {
	case nil:
		return nil
	case *ssa.Function:
		return key
	case *ssa.Builtin:
		return key
	case *ssa.Const:
		return fr.th.ex.in.constValue(key)
	case *ssa.Global:
		ex := fr.th.ex
		ex.in.ensureInit(fr.th, key.Pkg)
		shared := ex.in.global(key)
		if ex.concreteOnly {
			return shared // package initialisation writes the shared cells
		}
		// every execution works on its own copy of a package variable (value types are
		// copied; what it points to is still shared): a path cannot leak state to another
		if c, ok := ex.gcells[key]; ok {
			return c
		}
		if ex.gcells == nil {
			ex.gcells = map[*ssa.Global]*Value{}
		}
		c := new(Value)
		*c = copyVal(*shared)
		ex.gcells[key] = c
		return c
	}
	if r, ok := fr.env[key]; ok {
		return r
	}
	panic(fmt.Sprintf("get: no value for %T: %v in %v", key, key.Name(), fr.fn))
}

func (fr *frame) runDefer(d *deferred) {
	var ok bool
	defer func() {
		if !ok {
			r := recover()
			switch r.(type) {
			case engineAbort, killedSentinel, *Unsupported:
				panic(r)
			}
			fr.panicking = true
			fr.panicVal = r
		}
	}()
	fr.th.call(fr, d.instr.Pos(), d.fn, d.args)
	ok = true
}

func (fr *frame) runDefers() {
	for d := fr.defers; d != nil; d = d.tail {
		fr.runDefer(d)
	}
	fr.defers = nil
	if fr.panicking {
		panic(fr.panicVal)
	}
}

// ---------- instruction dispatch ----------

type continuation int

const (
	kNext continuation = iota
	kReturn
	kJump
)

func (th *Thread) visitInstr(fr *frame, instr ssa.Instruction) continuation {
	in := th.ex.in
	switch instr := instr.(type) {
	case *ssa.DebugRef:

	case *ssa.UnOp:
		fr.env[instr] = th.unop(fr, instr, fr.get(instr.X))

	case *ssa.BinOp:
		fr.env[instr] = th.binop(instr.Op, instr.X.Type(), instr.Y.Type(), fr.get(instr.X), fr.get(instr.Y))

	case *ssa.Call:
		fr.pos = instr.Pos()
		fn, args := th.prepareCall(fr, &instr.Call)
		fr.env[instr] = th.call(fr, instr.Pos(), fn, args)

	case *ssa.ChangeInterface:
		fr.env[instr] = fr.get(instr.X)

	case *ssa.ChangeType:
		fr.env[instr] = fr.get(instr.X)

	case *ssa.Convert:
		fr.env[instr] = th.conv(instr.Type(), instr.X.Type(), fr.get(instr.X))

	case *ssa.MultiConvert:
		fr.env[instr] = th.conv(instr.Type(), instr.X.Type(), fr.get(instr.X))

	case *ssa.SliceToArrayPointer:
		panic(unsupported("SliceToArrayPointer"))

	case *ssa.MakeInterface:
		fr.env[instr] = Iface{T: instr.X.Type(), V: fr.get(instr.X)}

	case *ssa.Extract:
		fr.env[instr] = fr.get(instr.Tuple).(Tuple)[instr.Index]

	case *ssa.Slice:
		fr.env[instr] = th.sliceOp(instr, fr.get(instr.X), fr.get(instr.Low), fr.get(instr.High), fr.get(instr.Max))

	case *ssa.Return:
		switch len(instr.Results) {
		case 0:
		case 1:
			fr.result = fr.get(instr.Results[0])
		default:
			res := make(Tuple, len(instr.Results))
			for i, r := range instr.Results {
				res[i] = fr.get(r)
			}
			fr.result = res
		}
		fr.block = nil
		return kReturn

	case *ssa.RunDefers:
		fr.runDefers()

	case *ssa.Panic:
		panic(TargetPanic{fr.get(instr.X)})

	case *ssa.Send:
		th.chanSend(fr.get(instr.Chan).(*Chan), copyVal(fr.get(instr.X)))

	case *ssa.Store:
		addr := fr.get(instr.Addr).(*Value)
		if addr == nil {
			panic(in.runtimeError("invalid memory address or nil pointer dereference"))
		}
		*addr = copyVal(fr.get(instr.Val))

	case *ssa.If:
		succ := 1
		if th.branch(fr.get(instr.Cond)) {
			succ = 0
		}
		fr.prevBlock, fr.block = fr.block, fr.block.Succs[succ]
		return kJump

	case *ssa.Jump:
		fr.prevBlock, fr.block = fr.block, fr.block.Succs[0]
		return kJump

	case *ssa.Defer:
		fn, args := th.prepareCall(fr, &instr.Call)
		defers := &fr.defers
		if instr.DeferStack != nil {
			panic(unsupported("defer stack (range-over-func)"))
		}
		*defers = &deferred{fn: fn, args: args, instr: instr, tail: *defers}

	case *ssa.Go:
		fn, args := th.prepareCall(fr, &instr.Call)
		th.ex.spawn(fn, args, "")

	case *ssa.MakeChan:
		n := th.concInt(fr.get(instr.Size), "chan size")
		fr.env[instr] = &Chan{cap: int(n), elem: instr.Type().Underlying().(*types.Chan).Elem()}

	case *ssa.Alloc:
		var addr *Value
		if instr.Heap {
			addr = new(Value)
			fr.env[instr] = addr
		} else {
			addr = fr.env[instr].(*Value)
		}
		*addr = in.zero(deref(instr.Type()))

	case *ssa.MakeSlice:
		c := th.concInt(fr.get(instr.Cap), "slice cap")
		l := th.concInt(fr.get(instr.Len), "slice len")
		if l < 0 || c < l || c > 1<<24 {
			panic(in.runtimeError("makeslice: len out of range"))
		}
		s := make([]Value, c)
		tElt := instr.Type().Underlying().(*types.Slice).Elem()
		for i := range s {
			s[i] = in.zero(tElt)
		}
		fr.env[instr] = s[:l]

	case *ssa.MakeMap:
		fr.env[instr] = newMap()

	case *ssa.Range:
		fr.env[instr] = th.rangeIter(fr.get(instr.X), instr.X.Type())

	case *ssa.Next:
		fr.env[instr] = fr.get(instr.Iter).(iter).next(th)

	case *ssa.FieldAddr:
		p := fr.get(instr.X).(*Value)
		if p == nil {
			panic(in.runtimeError("invalid memory address or nil pointer dereference"))
		}
		s, ok := (*p).(Struct)
		if !ok {
			panic(unsupported("FieldAddr on opaque %T (%v) in %v", *p, instr.X.Type(), fr.fn))
		}
		fr.env[instr] = &s[instr.Field]

	case *ssa.Field:
		s, ok := fr.get(instr.X).(Struct)
		if !ok {
			panic(unsupported("Field on opaque %T (%v) in %v", fr.get(instr.X), instr.X.Type(), fr.fn))
		}
		fr.env[instr] = s[instr.Field]

	case *ssa.IndexAddr:
		x := fr.get(instr.X)
		switch x := x.(type) {
		case []Value:
			i := th.index(fr.get(instr.Index), len(x))
			fr.env[instr] = &x[i]
		case *Value:
			if x == nil {
				panic(in.runtimeError("invalid memory address or nil pointer dereference"))
			}
			a := (*x).(Array)
			i := th.index(fr.get(instr.Index), len(a))
			fr.env[instr] = &a[i]
		default:
			panic(fmt.Sprintf("unexpected x type in IndexAddr: %T", x))
		}

	case *ssa.Index:
		x := fr.get(instr.X)
		switch x := x.(type) {
		case Array:
			i := th.index(fr.get(instr.Index), len(x))
			fr.env[instr] = copyVal(x[i])
		case string:
			i := th.index(fr.get(instr.Index), len(x))
			fr.env[instr] = int64(x[i])
		case *Rope:
			bs, ok := x.bytes()
			if !ok {
				panic(unsupported("index into rope with dec segment"))
			}
			i := th.index(fr.get(instr.Index), len(bs))
			fr.env[instr] = bs[i]
		default:
			panic(fmt.Sprintf("unexpected x type in Index: %T", x))
		}

	case *ssa.Lookup:
		fr.env[instr] = th.lookup(instr, fr.get(instr.X), fr.get(instr.Index))

	case *ssa.MapUpdate:
		m := fr.get(instr.Map).(*Map)
		if m == nil {
			panic(in.runtimeError("assignment to entry in nil map"))
		}
		th.mapUpdate(m, fr.get(instr.Key), copyVal(fr.get(instr.Value)))

	case *ssa.TypeAssert:
		fr.env[instr] = th.typeAssert(instr, fr.get(instr.X).(Iface))

	case *ssa.MakeClosure:
		bindings := make([]Value, len(instr.Bindings))
		for i, b := range instr.Bindings {
			bindings[i] = fr.get(b)
		}
		fr.env[instr] = &Closure{instr.Fn.(*ssa.Function), bindings}

	case *ssa.Phi:
		panic("unreachable: phi")

	case *ssa.Select:
		fr.env[instr] = th.selectOp(fr, instr)

	default:
		panic(unsupported("instruction %T", instr))
	}
	return kNext
}

// branch decides a condition, forking when it is symbolic.
func (th *Thread) branch(c Value) bool {
	switch c := c.(type) {
	case bool:
		return c
	case *sym.Term:
		if c.IsConst() {
			return c.B
		}
		return th.ex.decideBool(c)
	}
	panic(fmt.Sprintf("branch on %T", c))
}

// concInt requires a concrete integer.
func (th *Thread) concInt(v Value, what string) int64 {
	switch v := v.(type) {
	case int64:
		return v
	case nil:
		return 0
	case *sym.Term:
		if v.IsConst() {
			return int64(v.Uint())
		}
		panic(unsupported("symbolic %s", what))
	}
	panic(fmt.Sprintf("concInt(%s) on %T", what, v))
}

// index checks bounds of a concrete index.
func (th *Thread) index(v Value, n int) int {
	i := th.concInt(v, "index")
	if i < 0 || int(i) >= n {
		panic(th.ex.in.runtimeError(fmt.Sprintf("index out of range [%d] with length %d", i, n)))
	}
	return int(i)
}

func (th *Thread) prepareCall(fr *frame, call *ssa.CallCommon) (fn Value, args []Value) {
	v := fr.get(call.Value)
	if call.Method == nil {
		fn = v
	} else {
		recv := v.(Iface)
		if recv.T == nil {
			panic(th.ex.in.runtimeError("invalid memory address or nil pointer dereference"))
		}
		f := th.ex.in.Prog.LookupMethod(recv.T, call.Method.Pkg(), call.Method.Name())
		if f == nil {
			panic(fmt.Sprintf("method set for dynamic type %v does not contain %s", recv.T, call.Method))
		}
		fn = f
		args = append(args, recv.V)
	}
	for _, arg := range call.Args {
		args = append(args, fr.get(arg))
	}
	return
}

func (th *Thread) call(caller *frame, pos token.Pos, fn Value, args []Value) Value {
	switch fn := fn.(type) {
	case *ssa.Function:
		if fn == nil {
			panic(th.ex.in.runtimeError("invalid memory address or nil pointer dereference"))
		}
		return th.callSSA(caller, pos, fn, args, nil)
	case *Closure:
		if fn == nil {
			panic(th.ex.in.runtimeError("invalid memory address or nil pointer dereference"))
		}
		return th.callSSA(caller, pos, fn.Fn, args, fn.Env)
	case *ssa.Builtin:
		return th.callBuiltin(caller, pos, fn, args)
	case *HostFunc:
		return fn.F(th, args)
	}
	panic(fmt.Sprintf("cannot call %T", fn))
}

// HostFunc is a function value implemented by the engine.
type HostFunc struct {
	Name string
	F    func(th *Thread, args []Value) Value
}

func (in *Interp) intrinsicFor(fn *ssa.Function) Intrinsic {
	if v, ok := in.fnIntr.Load(fn); ok {
		if v == nil {
			return nil
		}
		i, _ := v.(Intrinsic)
		return i
	}
	var found Intrinsic
	name := fn.String()
	if i, ok := in.intrinsics[name]; ok {
		found = i
	} else if o := fn.Origin(); o != nil {
		if i, ok := in.intrinsics[o.String()]; ok {
			found = i
		}
	}
	if found == nil {
		// wrappers / bound methods of intrinsic methods are interpreted (they call the method).
		if pkg := fn.Package(); pkg != nil {
			if i, ok := in.intrinsics[pkg.Pkg.Path()+".*"]; ok && fn.Parent() == nil {
				found = i
			}
		}
	}
	if found == nil {
		in.fnIntr.Store(fn, (Intrinsic)(nil))
		return nil
	}
	in.fnIntr.Store(fn, found)
	return found
}

func (th *Thread) callSSA(caller *frame, pos token.Pos, fn *ssa.Function, args []Value, env []Value) Value {
	in := th.ex.in
	if intr := in.intrinsicFor(fn); intr != nil {
		th.curCaller = caller
		return intr(th, fn, args)
	}
	if fn.Blocks == nil {
		if fn.Synthetic != "" && fn.Package() == nil {
			// synthetic wrapper not yet built? should not happen after prog.Build
		}
		panic(unsupported("no code for function %s", fn))
	}
	if fn.TypeParams().Len() > 0 && len(fn.TypeArgs()) == 0 {
		panic(unsupported("uninstantiated generic %s", fn))
	}
	if fn.Name() == "init" && fn.Pkg != nil && fn.Parent() == nil && fn.Signature.Recv() == nil {
		if !in.wantInit(fn.Pkg) {
			return nil
		}
	}
	if c, ok := in.FuncStats.Load(fn); ok {
		atomic.AddInt64(c.(*int64), 1)
	} else {
		n := int64(1)
		if prev, loaded := in.FuncStats.LoadOrStore(fn, &n); loaded {
			atomic.AddInt64(prev.(*int64), 1)
		}
	}
	th.depth++
	if th.depth > 2000 {
		panic(engineAbort{OutBudget, "call depth exceeded in " + fn.String()})
	}
	fr := &frame{th: th, caller: caller, fn: fn}
	fr.env = make(map[ssa.Value]Value, 16)
	fr.block = fn.Blocks[0]
	fr.locals = make([]Value, len(fn.Locals))
	for i, l := range fn.Locals {
		fr.locals[i] = in.zero(deref(l.Type()))
		fr.env[l] = &fr.locals[i]
	}
	for i, p := range fn.Params {
		fr.env[p] = args[i]
	}
	for i, fv := range fn.FreeVars {
		fr.env[fv] = env[i]
	}
	prevTop := th.top
	th.top = fr
	for fr.block != nil {
		th.runFrame(fr)
	}
	th.top = prevTop
	th.depth--
	return fr.result
}

func (th *Thread) runFrame(fr *frame) {
	defer func() {
		if fr.block == nil {
			return
		}
		r := recover()
		switch r.(type) {
		case engineAbort, killedSentinel, *Unsupported:
			panic(r)
		case TargetPanic:
		default:
			// host runtime error inside the engine: report as engine error with location
			panic(engineAbort{OutEngineError, fmt.Sprintf("%v in %s at %s", r, fr.fn, th.ex.in.Prog.Fset.Position(fr.pos))})
		}
		fr.panicking = true
		fr.panicVal = r
		th.top = fr
		if th.panicTrace == "" {
			th.panicTrace = th.whereAmI()
		}
		fr.runDefers() // re-panics unless recovered
		th.panicTrace = ""
		fr.block = fr.fn.Recover
		if fr.block == nil {
			// recovered in a function without named results: return zero values
			fr.result = th.ex.in.zeroResult(fr.fn)
		}
	}()

	ex := th.ex
	for {
		nonPhis := th.executePhis(fr)
		for _, instr := range nonPhis {
			ex.steps++
			if ex.steps > ex.cfg.MaxSteps {
				panic(engineAbort{OutBudget, "instruction budget exceeded in " + fr.fn.String()})
			}
			if th.visitInstr(fr, instr) == kReturn {
				return
			}
		}
	}
}

func (in *Interp) zeroResult(fn *ssa.Function) Value {
	res := fn.Signature.Results()
	switch res.Len() {
	case 0:
		return nil
	case 1:
		return in.zero(res.At(0).Type())
	}
	return in.zero(res)
}

func (th *Thread) executePhis(fr *frame) []ssa.Instruction {
	firstNonPhi := -1
	for i, instr := range fr.block.Instrs {
		if _, ok := instr.(*ssa.Phi); !ok {
			firstNonPhi = i
			break
		}
	}
	nonPhis := fr.block.Instrs[firstNonPhi:]
	if firstNonPhi > 0 {
		phis := fr.block.Instrs[:firstNonPhi]
		predIndex := slices.Index(fr.block.Preds, fr.prevBlock)
		fr.phitemps = fr.phitemps[:0]
		for _, phi := range phis {
			fr.phitemps = append(fr.phitemps, fr.get(phi.(*ssa.Phi).Edges[predIndex]))
		}
		for i, phi := range phis {
			fr.env[phi.(*ssa.Phi)] = fr.phitemps[i]
		}
	}
	return nonPhis
}

// doRecover implements recover().
func (th *Thread) doRecover(caller *frame) Value {
	if caller != nil && !caller.panicking && caller.caller != nil && caller.caller.panicking {
		p := caller.caller.panicVal
		if tp, ok := p.(TargetPanic); ok {
			caller.caller.panicking = false
			caller.caller.panicVal = nil
			return tp.V
		}
	}
	return Iface{}
}

// ---------- package initialisation ----------

func (in *Interp) wantInit(pkg *ssa.Package) bool {
	path := pkg.Pkg.Path()
	if strings.Contains(path, "/opentelemetry") {
		return false
	}
	for _, p := range in.InitPkgPrefixes {
		if strings.HasPrefix(path, p) {
			return true
		}
	}
	return false
}

// ensureInit runs the initialiser of pkg (once per Interp) if it is a repository package.
func (in *Interp) ensureInit(th *Thread, pkg *ssa.Package) {
	if pkg == nil {
		return
	}
	in.initMu.Lock()
	done := in.initDone[pkg]
	in.initMu.Unlock()
	if done {
		return
	}
	// initialisation happens once, before exploration (RunInit); reaching here lazily
	// means a global of a non-initialised package is read: its zero value is used.
}

// RunInit interprets the init function of every wanted package, in dependency order,
// on a throw-away concrete execution. Globals persist in the Interp.
func (in *Interp) RunInit(pkgs []*ssa.Package) error {
	ex := newExec(in, Config{MaxSteps: 50_000_000}, nil)
	ex.concreteOnly = true
	var order []*ssa.Package
	seen := map[*types.Package]bool{}
	var visit func(p *types.Package)
	visit = func(p *types.Package) {
		if seen[p] {
			return
		}
		seen[p] = true
		for _, imp := range p.Imports() {
			visit(imp)
		}
		if sp := in.Prog.Package(p); sp != nil && in.wantInit(sp) {
			order = append(order, sp)
		}
	}
	for _, p := range pkgs {
		visit(p.Pkg)
	}
	var firstErr error
	for _, sp := range order {
		in.initMu.Lock()
		if in.initDone[sp] {
			in.initMu.Unlock()
			continue
		}
		in.initDone[sp] = true
		in.initMu.Unlock()
		initFn := sp.Func("init")
		if initFn == nil {
			continue
		}
		res := ex.runInitFn(initFn)
		if res != nil && firstErr == nil {
			firstErr = fmt.Errorf("init %s: %v", sp.Pkg.Path(), res)
		}
	}
	return firstErr
}


// FuncCount is an interpreted function with the number of times it was entered.
type FuncCount struct {
	Fn    string `json:"fn"`
	Calls int64  `json:"calls"`
	Instr int    `json:"ssa_instructions"`
}

// EncodedFunctions lists the interpreted functions whose package path has one of the
// prefixes, most-entered first.
func (in *Interp) EncodedFunctions(prefixes []string, skipName func(string) bool) []FuncCount {
	var out []FuncCount
	in.FuncStats.Range(func(k, v any) bool {
		fn := k.(*ssa.Function)
		pkg := fn.Package()
		if pkg == nil {
			if o := fn.Origin(); o != nil {
				pkg = o.Package()
			}
		}
		if pkg == nil && fn.Parent() != nil {
			pkg = fn.Parent().Package()
		}
		if pkg == nil {
			return true
		}
		path := pkg.Pkg.Path()
		ok := false
		for _, p := range prefixes {
			if strings.HasPrefix(path, p) {
				ok = true
			}
		}
		if !ok || skipName(fn.String()) {
			return true
		}
		n := 0
		for _, b := range fn.Blocks {
			n += len(b.Instrs)
		}
		out = append(out, FuncCount{Fn: fn.String(), Calls: atomic.LoadInt64(v.(*int64)), Instr: n})
		return true
	})
	sort.Slice(out, func(i, j int) bool { return out[i].Calls > out[j].Calls })
	return out
}
