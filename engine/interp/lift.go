package interp

import (
	"encoding/json"
	"fmt"
	"go/types"
	"math/big"
	"strconv"
	"strings"

	"golang.org/x/tools/go/ssa"
)

// resolveTypeName turns "*pkg/path.Name" into a types.Type of the loaded program.
func (in *Interp) resolveTypeName(s string) types.Type {
	if strings.HasPrefix(s, "*") {
		return types.NewPointer(in.resolveTypeName(s[1:]))
	}
	if strings.HasPrefix(s, "[]") {
		return types.NewSlice(in.resolveTypeName(s[2:]))
	}
	i := strings.LastIndex(s, ".")
	if i < 0 {
		for _, b := range types.Typ {
			if b.Name() == s {
				return b
			}
		}
		panic(unsupported("lift: unknown type %q", s))
	}
	p := in.Prog.ImportedPackage(s[:i])
	if p == nil {
		panic(unsupported("lift: package %q not loaded", s[:i]))
	}
	m := p.Type(s[i+1:])
	if m == nil {
		panic(unsupported("lift: type %q not found", s))
	}
	return m.Type()
}

// lift builds an interpreter value of static type t from a helper dump.
func (in *Interp) lift(t types.Type, j map[string]any) Value {
	k, _ := j["k"].(string)
	switch k {
	case "big":
		v, _ := new(big.Int).SetString(j["v"].(string), 10)
		return BigVal{C: v}
	case "rat":
		r, _ := new(big.Rat).SetString(j["v"].(string))
		return RatVal{R: r}
	case "bool":
		return j["v"].(bool)
	case "int":
		ii, _ := intInfoOf(t)
		s := j["v"].(string)
		if i, err := strconv.ParseInt(s, 10, 64); err == nil {
			return normInt(i, ii)
		}
		u, _ := strconv.ParseUint(s, 10, 64)
		return normInt(int64(u), ii)
	case "string":
		return j["v"].(string)
	case "ptr":
		v, ok := j["v"].(map[string]any)
		if !ok {
			return (*Value)(nil)
		}
		return ptrTo(in.lift(deref(t), v))
	case "iface":
		tn, ok := j["t"].(string)
		if !ok {
			return Iface{}
		}
		dt := in.resolveTypeName(tn)
		return Iface{T: dt, V: in.lift(dt, j["v"].(map[string]any))}
	case "slice":
		if n, _ := j["nil"].(bool); n {
			return []Value(nil)
		}
		es, _ := j["e"].([]any)
		et := t.Underlying().(*types.Slice).Elem()
		c := len(es)
		if cf, ok := j["cap"].(float64); ok && int(cf) >= c {
			c = int(cf)
		}
		out := make([]Value, len(es), c)
		for i, e := range es {
			out[i] = in.lift(et, e.(map[string]any))
		}
		full := out[:c]
		for i := len(es); i < c; i++ {
			full[i] = in.zero(et)
		}
		return out
	case "array":
		es, _ := j["e"].([]any)
		et := t.Underlying().(*types.Array).Elem()
		out := make(Array, len(es))
		for i, e := range es {
			out[i] = in.lift(et, e.(map[string]any))
		}
		return out
	case "map":
		if n, _ := j["nil"].(bool); n {
			return (*Map)(nil)
		}
		mt := t.Underlying().(*types.Map)
		m := newMap()
		es, _ := j["e"].([]any)
		for _, e := range es {
			kv := e.([]any)
			kk := in.lift(mt.Key(), kv[0].(map[string]any))
			vv := in.lift(mt.Elem(), kv[1].(map[string]any))
			ent := &mapEntry{k: kk, v: vv}
			m.entries = append(m.entries, ent)
			m.live++
			if hk, ok := hashKey(kk); ok {
				m.idx[hk] = ent
			}
		}
		return m
	case "struct":
		fs, _ := j["f"].([]any)
		st := t.Underlying().(*types.Struct)
		if st.NumFields() != len(fs) {
			panic(unsupported("lift: struct %v field count mismatch", t))
		}
		out := make(Struct, len(fs))
		for i, f := range fs {
			out[i] = in.lift(st.Field(i).Type(), f.(map[string]any))
		}
		return out
	}
	panic(unsupported("lift: unknown kind %q for %v", k, t))
}

const compilerPkg = "github.com/formancehq/ledger/internal/machine/script/compiler"

// registerCompiler installs the native-compiler intrinsic. compile returns the helper's
// JSON answer for a script.
func (in *Interp) RegisterCompiler(compile func(script string) ([]byte, error)) {
	do := func(th *Thread, script string) Value {
		raw, err := compile(script)
		if err != nil {
			panic(unsupported("compiler helper: %v", err))
		}
		var ans struct {
			Err     string         `json:"err"`
			Panic   string         `json:"panic"`
			Program map[string]any `json:"program"`
		}
		if err := json.Unmarshal(raw, &ans); err != nil {
			panic(unsupported("compiler helper answer: %v", err))
		}
		th.stub("compiler.Compile:native")
		pt := in.resolveTypeName("*github.com/formancehq/ledger/internal/machine/vm/program.Program")
		if ans.Panic != "" {
			panic(TargetPanic{Iface{T: types.Typ[types.String], V: "compiler panic: " + ans.Panic}})
		}
		if ans.Err != "" {
			return Tuple{(*Value)(nil), th.newError(ans.Err)}
		}
		return Tuple{in.lift(pt, ans.Program), Iface{}}
	}
	in.reg(compilerPkg+".Compile", func(th *Thread, fn *ssa.Function, a []Value) Value {
		return do(th, th.str(a[0], "script text"))
	})
}

var _ = fmt.Sprint
