package interp

import (
	"encoding/base64"
	"fmt"
	"go/types"
	"math"
	"math/big"
	"regexp"
	"sort"
	"strconv"
	"strings"
	"time"
	"unicode/utf8"

	"golang.org/x/tools/go/ssa"

	"symgo/sym"
)

// ---------- errors ----------

func (th *Thread) unwrapErr(e Iface) []Iface {
	in := th.ex.in
	if e.T == nil {
		return nil
	}
	if m := in.methodOf(e.T, "Unwrap"); m != nil {
		sig := m.Signature
		if sig.Params().Len() == 0 && sig.Results().Len() == 1 {
			r := th.call(nil, 0, m, []Value{e.V})
			switch r := r.(type) {
			case Iface:
				if r.T == nil {
					return nil
				}
				return []Iface{r}
			case []Value:
				var out []Iface
				for _, x := range r {
					if xi := x.(Iface); xi.T != nil {
						out = append(out, xi)
					}
				}
				return out
			}
		}
	}
	return nil
}

func (th *Thread) errorsIs(err, target Iface) bool {
	in := th.ex.in
	if err.T == nil || target.T == nil {
		return err.T == nil && target.T == nil
	}
	comparable := types.Comparable(target.T)
	var rec func(e Iface) bool
	rec = func(e Iface) bool {
		if comparable && types.Identical(e.T, target.T) {
			if th.branch(th.equals(e.V, target.V)) {
				return true
			}
		}
		if m := in.methodOf(e.T, "Is"); m != nil {
			sig := m.Signature
			if sig.Params().Len() == 1 && sig.Results().Len() == 1 && isBool(sig.Results().At(0).Type()) {
				if th.branch(th.call(nil, 0, m, []Value{e.V, target})) {
					return true
				}
			}
		}
		for _, u := range th.unwrapErr(e) {
			if rec(u) {
				return true
			}
		}
		return false
	}
	return rec(err)
}

func (th *Thread) errorsAs(err Iface, target Iface) bool {
	in := th.ex.in
	if err.T == nil {
		return false
	}
	if target.T == nil {
		panic(TargetPanic{th.newError("errors: target cannot be nil")})
	}
	pt, ok := target.T.Underlying().(*types.Pointer)
	if !ok {
		panic(TargetPanic{th.newError("errors: target must be a non-nil pointer")})
	}
	tp := target.V.(*Value)
	targetType := pt.Elem()
	tIface, isIface := targetType.Underlying().(*types.Interface)
	var rec func(e Iface) bool
	rec = func(e Iface) bool {
		if isIface {
			if types.Implements(e.T, tIface) {
				*tp = e
				return true
			}
		} else if types.Identical(e.T, targetType) {
			*tp = copyVal(e.V)
			return true
		}
		if m := in.methodOf(e.T, "As"); m != nil {
			sig := m.Signature
			if sig.Params().Len() == 1 && sig.Results().Len() == 1 && isBool(sig.Results().At(0).Type()) {
				if th.branch(th.call(nil, 0, m, []Value{e.V, target})) {
					return true
				}
			}
		}
		for _, u := range th.unwrapErr(e) {
			if rec(u) {
				return true
			}
		}
		return false
	}
	return rec(err)
}

func registerErrors(in *Interp) {
	in.reg("errors.Is", func(th *Thread, fn *ssa.Function, a []Value) Value {
		return th.errorsIs(a[0].(Iface), a[1].(Iface))
	})
	in.reg("errors.As", func(th *Thread, fn *ssa.Function, a []Value) Value {
		return th.errorsAs(a[0].(Iface), a[1].(Iface))
	})
	in.reg("github.com/pkg/errors.Is", func(th *Thread, fn *ssa.Function, a []Value) Value {
		return th.errorsIs(a[0].(Iface), a[1].(Iface))
	})
	in.reg("github.com/pkg/errors.As", func(th *Thread, fn *ssa.Function, a []Value) Value {
		return th.errorsAs(a[0].(Iface), a[1].(Iface))
	})
	in.reg("github.com/pkg/errors.callers", func(th *Thread, fn *ssa.Function, a []Value) Value {
		return (*Value)(nil)
	})
	in.reg("github.com/pkg/errors.Errorf", func(th *Thread, fn *ssa.Function, a []Value) Value {
		s, _ := th.sprintfV(a[0], a[1].([]Value))
		ft := in.Prog.ImportedPackage("github.com/pkg/errors").Type("fundamental").Object().Type()
		return Iface{T: types.NewPointer(ft), V: ptrTo(Struct{s, (*Value)(nil)})}
	})
	in.reg("github.com/pkg/errors.Wrapf", func(th *Thread, fn *ssa.Function, a []Value) Value {
		e := a[0].(Iface)
		if e.T == nil {
			return Iface{}
		}
		s, _ := th.sprintf(th.str(a[1], "format"), a[2].([]Value))
		p := in.Prog.ImportedPackage("github.com/pkg/errors")
		wm := p.Type("withMessage").Object().Type()
		ws := p.Type("withStack").Object().Type()
		inner := Iface{T: types.NewPointer(wm), V: ptrTo(Struct{e, s})}
		return Iface{T: types.NewPointer(ws), V: ptrTo(Struct{inner, (*Value)(nil)})}
	})
	in.reg("github.com/pkg/errors.WithMessagef", func(th *Thread, fn *ssa.Function, a []Value) Value {
		e := a[0].(Iface)
		if e.T == nil {
			return Iface{}
		}
		s, _ := th.sprintf(th.str(a[1], "format"), a[2].([]Value))
		wm := in.Prog.ImportedPackage("github.com/pkg/errors").Type("withMessage").Object().Type()
		return Iface{T: types.NewPointer(wm), V: ptrTo(Struct{e, s})}
	})
}

// ---------- strings / strconv / regexp / utf8 / base64 ----------

func strSlice(ss []string) Value {
	out := make([]Value, len(ss))
	for i, s := range ss {
		out[i] = s
	}
	return out
}

func (th *Thread) strs(v Value, what string) []string {
	sv, _ := v.([]Value)
	out := make([]string, len(sv))
	for i, s := range sv {
		out[i] = th.str(s, what)
	}
	return out
}

// ropeSplit splits a rope on a concrete separator that cannot occur inside symbolic
// segments' rendering (dec segments contain only [-0-9]; symbolic bytes are compared).
func (th *Thread) ropeSplit(r *Rope, sep string, n int) Value {
	if len(sep) != 1 {
		panic(unsupported("split rope on multi-byte separator"))
	}
	if isDigitOrSign(sep[0]) && r.hasDec() {
		panic(unsupported("split rope with dec on digit separator"))
	}
	var parts []Value
	cur := &Rope{}
	flush := func() {
		parts = append(parts, normRope(cur))
		cur = &Rope{}
	}
	for si, s := range r.Segs {
		switch {
		case s.D != nil:
			cur.Segs = append(cur.Segs, s)
		case s.B != nil:
			if n > 0 && len(parts) == n-1 {
				cur.Segs = append(cur.Segs, s)
				continue
			}
			if th.branch(fromBoolTerm(sym.Eq(s.B, sym.BVConst(uint64(sep[0]), 8)))) {
				flush()
			} else {
				cur.Segs = append(cur.Segs, s)
			}
		default:
			rest := s.S
			for {
				if n > 0 && len(parts) == n-1 {
					cur.Segs = append(cur.Segs, Seg{S: rest})
					break
				}
				i := strings.IndexByte(rest, sep[0])
				if i < 0 {
					cur.Segs = append(cur.Segs, Seg{S: rest})
					break
				}
				cur.Segs = append(cur.Segs, Seg{S: rest[:i]})
				flush()
				rest = rest[i+1:]
			}
		}
		_ = si
	}
	flush()
	return parts
}

func registerStrings(in *Interp) {
	s1 := func(f func(string) string) Intrinsic {
		return func(th *Thread, fn *ssa.Function, a []Value) Value { return f(th.str(a[0], fn.Name())) }
	}
	in.reg("strings.ToLower", func(th *Thread, fn *ssa.Function, a []Value) Value { return th.ropeCase(a[0], false) })
	in.reg("strings.ToUpper", func(th *Thread, fn *ssa.Function, a []Value) Value { return th.ropeCase(a[0], true) })
	in.reg("strings.TrimSpace", s1(strings.TrimSpace))
	in.reg("strings.Title", s1(strings.Title))
	s2b := func(f func(string, string) bool) Intrinsic {
		return func(th *Thread, fn *ssa.Function, a []Value) Value {
			return f(th.str(a[0], fn.Name()), th.str(a[1], fn.Name()))
		}
	}
	in.reg("strings.Contains", func(th *Thread, fn *ssa.Function, a []Value) Value {
		sub := th.str(a[1], "Contains substr")
		if r, ok := a[0].(*Rope); ok {
			return th.ropeContains(r, sub)
		}
		return strings.Contains(th.str(a[0], "Contains"), sub)
	})
	in.reg("strings.ContainsRune", func(th *Thread, fn *ssa.Function, a []Value) Value {
		return strings.ContainsRune(th.str(a[0], "ContainsRune"), rune(th.concInt(a[1], "rune")))
	})
	in.reg("strings.ContainsAny", s2b(strings.ContainsAny))
	in.reg("strings.EqualFold", s2b(strings.EqualFold))
	in.reg("strings.HasPrefix", func(th *Thread, fn *ssa.Function, a []Value) Value {
		p := th.str(a[1], "HasPrefix prefix")
		if r, ok := a[0].(*Rope); ok {
			return th.ropeHasPrefix(r, p)
		}
		return strings.HasPrefix(a[0].(string), p)
	})
	in.reg("strings.HasSuffix", func(th *Thread, fn *ssa.Function, a []Value) Value {
		p := th.str(a[1], "HasSuffix suffix")
		if r, ok := a[0].(*Rope); ok {
			return th.ropeHasSuffix(r, p)
		}
		return strings.HasSuffix(a[0].(string), p)
	})
	s2i := func(f func(string, string) int) Intrinsic {
		return func(th *Thread, fn *ssa.Function, a []Value) Value {
			return int64(f(th.str(a[0], fn.Name()), th.str(a[1], fn.Name())))
		}
	}
	in.reg("strings.Index", func(th *Thread, fn *ssa.Function, a []Value) Value { return th.ropeIndex(a[0], th.str(a[1], "Index separator")) })
	in.reg("strings.LastIndex", s2i(strings.LastIndex))
	in.reg("strings.Count", s2i(strings.Count))
	in.reg("strings.Compare", s2i(strings.Compare))
	in.reg("strings.IndexAny", s2i(strings.IndexAny))
	in.reg("strings.IndexByte", func(th *Thread, fn *ssa.Function, a []Value) Value {
		return th.ropeIndex(a[0], string([]byte{byte(th.concInt(a[1], "byte"))}))
	})
	in.reg("strings.IndexRune", func(th *Thread, fn *ssa.Function, a []Value) Value {
		return int64(strings.IndexRune(th.str(a[0], "IndexRune"), rune(th.concInt(a[1], "rune"))))
	})
	s2s := func(f func(string, string) string) Intrinsic {
		return func(th *Thread, fn *ssa.Function, a []Value) Value {
			return f(th.str(a[0], fn.Name()), th.str(a[1], fn.Name()))
		}
	}
	in.reg("strings.Trim", s2s(strings.Trim))
	in.reg("strings.TrimLeft", s2s(strings.TrimLeft))
	in.reg("strings.TrimRight", s2s(strings.TrimRight))
	in.reg("strings.TrimPrefix", func(th *Thread, fn *ssa.Function, a []Value) Value {
		p := th.str(a[1], "TrimPrefix prefix")
		if r, ok := a[0].(*Rope); ok {
			if th.branch(th.ropeHasPrefix(r, p)) {
				bs, _ := r.bytes()
				return ropeFromBytes(bs[len(p):])
			}
			return r
		}
		return strings.TrimPrefix(a[0].(string), p)
	})
	in.reg("strings.TrimSuffix", s2s(strings.TrimSuffix))
	in.reg("strings.Split", func(th *Thread, fn *ssa.Function, a []Value) Value {
		sep := th.str(a[1], "Split sep")
		if r, ok := a[0].(*Rope); ok {
			return th.ropeSplit(r, sep, -1)
		}
		return strSlice(strings.Split(a[0].(string), sep))
	})
	in.reg("strings.SplitN", func(th *Thread, fn *ssa.Function, a []Value) Value {
		sep := th.str(a[1], "SplitN sep")
		n := int(th.concInt(a[2], "SplitN n"))
		if r, ok := a[0].(*Rope); ok {
			return th.ropeSplit(r, sep, n)
		}
		return strSlice(strings.SplitN(a[0].(string), sep, n))
	})
	in.reg("strings.Fields", func(th *Thread, fn *ssa.Function, a []Value) Value {
		return strSlice(strings.Fields(th.str(a[0], "Fields")))
	})
	in.reg("strings.Join", func(th *Thread, fn *ssa.Function, a []Value) Value {
		elems, _ := a[0].([]Value)
		sep := a[1]
		var out Value = ""
		for i, e := range elems {
			if i > 0 {
				out = concatStr(out, sep)
			}
			out = concatStr(out, e)
		}
		return out
	})
	in.reg("strings.Repeat", func(th *Thread, fn *ssa.Function, a []Value) Value {
		n := int(th.concInt(a[1], "count"))
		if n < 0 {
			panic(TargetPanic{th.newError("strings: negative Repeat count")})
		}
		return strings.Repeat(th.str(a[0], "Repeat"), n)
	})
	in.reg("strings.SplitAfter", func(th *Thread, fn *ssa.Function, a []Value) Value {
		return th.ropeSplitAfter(a[0], th.str(a[1], "SplitAfter sep"))
	})
	in.reg("strings.IndexFunc", func(th *Thread, fn *ssa.Function, a []Value) Value {
		var bs []Value
		switch x := a[0].(type) {
		case string:
			bs = strToBytes(x)
		case *Rope:
			var ok bool
			if bs, ok = x.bytes(); !ok {
				panic(unsupported("IndexFunc on rope with dec"))
			}
		}
		for i, b := range bs {
			var r Value
			switch b := b.(type) {
			case int64:
				if b >= 0x80 {
					panic(unsupported("IndexFunc over non-ASCII text"))
				}
				r = b
			case *sym.Term:
				if !th.branch(fromBoolTerm(sym.BVCmp("bvult", b, sym.BVConst(0x80, 8)))) {
					panic(unsupported("IndexFunc over a non-ASCII symbolic byte"))
				}
				r = sym.BVResize(b, 32, false)
			}
			if th.branch(th.call(nil, 0, a[1], []Value{r})) {
				return int64(i)
			}
		}
		return int64(-1)
	})
	in.reg("math.Log10", func(th *Thread, fn *ssa.Function, a []Value) Value {
		f, ok := a[0].(float64)
		if !ok {
			panic(unsupported("math.Log10 of a symbolic value"))
		}
		return math.Log10(f)
	})
	in.reg("strings.Replace", func(th *Thread, fn *ssa.Function, a []Value) Value {
		return strings.Replace(th.str(a[0], "Replace"), th.str(a[1], "old"), th.str(a[2], "new"), int(th.concInt(a[3], "n")))
	})
	in.reg("strings.ReplaceAll", func(th *Thread, fn *ssa.Function, a []Value) Value {
		old, nw := th.str(a[1], "old"), th.str(a[2], "new")
		if r, ok := a[0].(*Rope); ok {
			return th.ropeReplaceAll(r, old, nw)
		}
		return strings.ReplaceAll(a[0].(string), old, nw)
	})
	// strings.Builder
	sb := "(*strings.Builder)."
	builder := func(th *Thread, v Value) *Builder {
		p := v.(*Value)
		if p == nil {
			panic(th.ex.in.runtimeError("invalid memory address or nil pointer dereference"))
		}
		return (*p).(*Builder)
	}
	in.reg(sb+"WriteString", func(th *Thread, fn *ssa.Function, a []Value) Value {
		b := builder(th, a[0])
		b.v = concatStr(b.v, a[1])
		return Tuple{int64(0), Iface{}}
	})
	in.reg(sb+"WriteByte", func(th *Thread, fn *ssa.Function, a []Value) Value {
		b := builder(th, a[0])
		b.v = concatStr(b.v, ropeFromBytes([]Value{a[1]}))
		return Iface{}
	})
	in.reg(sb+"WriteRune", func(th *Thread, fn *ssa.Function, a []Value) Value {
		b := builder(th, a[0])
		b.v = concatStr(b.v, string(rune(th.concInt(a[1], "rune"))))
		return Tuple{int64(0), Iface{}}
	})
	in.reg(sb+"Write", func(th *Thread, fn *ssa.Function, a []Value) Value {
		b := builder(th, a[0])
		b.v = concatStr(b.v, bytesToStr(a[1]))
		return Tuple{int64(len(a[1].([]Value))), Iface{}}
	})
	in.reg(sb+"String", func(th *Thread, fn *ssa.Function, a []Value) Value { return builder(th, a[0]).v })
	in.reg(sb+"Len", func(th *Thread, fn *ssa.Function, a []Value) Value {
		switch v := builder(th, a[0]).v.(type) {
		case string:
			return int64(len(v))
		case *Rope:
			n, ok := v.byteLen()
			if !ok {
				panic(unsupported("Builder.Len with dec"))
			}
			return int64(n)
		}
		return int64(0)
	})
	in.reg(sb+"Reset", func(th *Thread, fn *ssa.Function, a []Value) Value { builder(th, a[0]).v = ""; return nil })
	in.reg(sb+"Grow", func(th *Thread, fn *ssa.Function, a []Value) Value { return nil })

	// strconv
	in.reg("strconv.Itoa", func(th *Thread, fn *ssa.Function, a []Value) Value {
		switch v := a[0].(type) {
		case int64:
			return strconv.Itoa(int(v))
		case *sym.Term:
			return &Rope{Segs: []Seg{{D: sym.BV2Int(v, true)}}}
		}
		panic("Itoa")
	})
	in.reg("strconv.FormatInt", func(th *Thread, fn *ssa.Function, a []Value) Value {
		return strconv.FormatInt(th.concInt(a[0], "FormatInt"), int(th.concInt(a[1], "base")))
	})
	in.reg("strconv.FormatUint", func(th *Thread, fn *ssa.Function, a []Value) Value {
		return strconv.FormatUint(uint64(th.concInt(a[0], "FormatUint")), int(th.concInt(a[1], "base")))
	})
	in.reg("strconv.FormatBool", func(th *Thread, fn *ssa.Function, a []Value) Value {
		return strconv.FormatBool(a[0].(bool))
	})
	in.reg("strconv.Quote", func(th *Thread, fn *ssa.Function, a []Value) Value { return quoteVal(a[0]) })
	numErr := func(th *Thread, err error) Value {
		if err == nil {
			return Iface{}
		}
		return th.newError(err.Error())
	}
	in.reg("strconv.Atoi", func(th *Thread, fn *ssa.Function, a []Value) Value {
		v, err := strconv.Atoi(th.str(a[0], "Atoi"))
		return Tuple{int64(v), numErr(th, err)}
	})
	in.reg("strconv.ParseInt", func(th *Thread, fn *ssa.Function, a []Value) Value {
		v, err := strconv.ParseInt(th.str(a[0], "ParseInt"), int(th.concInt(a[1], "base")), int(th.concInt(a[2], "bits")))
		return Tuple{v, numErr(th, err)}
	})
	in.reg("strconv.ParseUint", func(th *Thread, fn *ssa.Function, a []Value) Value {
		if r, ok := a[0].(*Rope); ok && len(r.Segs) == 1 && r.Segs[0].D != nil && th.concInt(a[1], "base") == 10 {
			bits := int(th.concInt(a[2], "bits"))
			if bits == 0 {
				bits = 64
			}
			t := r.Segs[0].D
			hi := sym.IntConst(new(big.Int).Lsh(big.NewInt(1), uint(bits)))
			if th.branch(fromBoolTerm(sym.And(sym.ILe(sym.Int64Const(0), t), sym.ILt(t, hi)))) {
				return Tuple{fromBV(sym.Int2BV(t, 64), intInfo{64, false}), Iface{}}
			}
			return Tuple{int64(0), th.newError("strconv.ParseUint: parsing: value out of range or invalid syntax")}
		}
		v, err := strconv.ParseUint(th.str(a[0], "ParseUint"), int(th.concInt(a[1], "base")), int(th.concInt(a[2], "bits")))
		return Tuple{int64(v), numErr(th, err)}
	})
	in.reg("strconv.ParseBool", func(th *Thread, fn *ssa.Function, a []Value) Value {
		v, err := strconv.ParseBool(th.str(a[0], "ParseBool"))
		return Tuple{v, numErr(th, err)}
	})
	in.reg("strconv.ParseFloat", func(th *Thread, fn *ssa.Function, a []Value) Value {
		v, err := strconv.ParseFloat(th.str(a[0], "ParseFloat"), int(th.concInt(a[1], "bits")))
		return Tuple{v, numErr(th, err)}
	})
	in.reg("strconv.Unquote", func(th *Thread, fn *ssa.Function, a []Value) Value {
		v, err := strconv.Unquote(th.str(a[0], "Unquote"))
		return Tuple{v, numErr(th, err)}
	})

	// utf8
	in.reg("unicode/utf8.RuneCountInString", func(th *Thread, fn *ssa.Function, a []Value) Value {
		return int64(utf8.RuneCountInString(th.str(a[0], "RuneCountInString")))
	})
	in.reg("unicode/utf8.ValidString", func(th *Thread, fn *ssa.Function, a []Value) Value {
		return utf8.ValidString(th.str(a[0], "ValidString"))
	})

	// base64
	encName := func(th *Thread, v Value) *base64.Encoding {
		p := v.(*Value)
		n, ok := (*p).(Native)
		if !ok {
			panic(unsupported("base64 encoding object"))
		}
		return n.X.(*base64.Encoding)
	}
	// A symbolic text is encoded as an opaque injective token tagged with the alphabet and
	// padding of the encoding that wrote it. Decoding with the same kind of encoding gives
	// the text back; with another alphabet it fails exactly when some 6-bit group is 62
	// or 63 (the two alphabets differ there only), with another padding convention exactly
	// when the length is not a multiple of three.
	encKind := func(e *base64.Encoding) string {
		switch e.EncodeToString([]byte{0xfb, 0xff}) {
		case "+/8=":
			return "S"
		case "+/8":
			return "s"
		case "-_8=":
			return "U"
		case "-_8":
			return "u"
		}
		panic(unsupported("base64 encoding with a custom alphabet"))
	}
	in.reg("(*encoding/base64.Encoding).EncodeToString", func(th *Thread, fn *ssa.Function, a []Value) Value {
		s := bytesToStr(a[1])
		if r, ok := s.(*Rope); ok {
			th.stub("base64.EncodeToString:symbolic")
			segs := append([]Seg{{S: "b64" + encKind(encName(th, a[0])) + "("}}, r.Segs...)
			segs = append(segs, Seg{S: ")"})
			return &Rope{Segs: segs}
		}
		return encName(th, a[0]).EncodeToString([]byte(s.(string)))
	})
	in.reg("(*encoding/base64.Encoding).DecodeString", func(th *Thread, fn *ssa.Function, a []Value) Value {
		if r, ok := a[1].(*Rope); ok {
			n := len(r.Segs)
			head := ""
			if n >= 2 {
				head = r.Segs[0].S
			}
			if n >= 2 && len(head) == 5 && strings.HasPrefix(head, "b64") && head[4] == '(' && r.Segs[n-1].S == ")" {
				inner := normRope(&Rope{Segs: r.Segs[1 : n-1]})
				wrote, reads := string(head[3]), encKind(encName(th, a[0]))
				if wrote == reads {
					return Tuple{strToBytes(inner), Iface{}}
				}
				var bs []Value
				switch x := inner.(type) {
				case string:
					bs = strToBytes(x)
				case *Rope:
					var ok bool
					if bs, ok = x.bytes(); !ok {
						panic(unsupported("base64: text written with one encoding and read with another holds a number of unknown length"))
					}
				}
				bad := sym.False
				if strings.ToLower(wrote) != strings.ToLower(reads) { // other alphabet
					bv := func(v Value) *sym.Term { return toBV(v, 8) }
					c := func(x uint64) *sym.Term { return sym.BVConst(x, 8) }
					ge62 := func(t *sym.Term) { bad = sym.Or(bad, sym.BVCmp("bvule", c(62), t)) }
					for i := 0; i < len(bs); i += 3 {
						b0 := bv(bs[i])
						ge62(sym.BVBin("bvlshr", b0, c(2)))
						lo0 := sym.BVBin("bvshl", sym.BVBin("bvand", b0, c(3)), c(4))
						if i+1 >= len(bs) {
							ge62(lo0)
							break
						}
						b1 := bv(bs[i+1])
						ge62(sym.BVBin("bvor", lo0, sym.BVBin("bvlshr", b1, c(4))))
						lo1 := sym.BVBin("bvshl", sym.BVBin("bvand", b1, c(15)), c(2))
						if i+2 >= len(bs) {
							ge62(lo1)
							break
						}
						b2 := bv(bs[i+2])
						ge62(sym.BVBin("bvor", lo1, sym.BVBin("bvlshr", b2, c(6))))
						ge62(sym.BVBin("bvand", b2, c(63)))
					}
				}
				if (wrote == strings.ToUpper(wrote)) != (reads == strings.ToUpper(reads)) && len(bs)%3 != 0 { // other padding
					bad = sym.True
				}
				if th.branch(fromBoolTerm(bad)) {
					return Tuple{[]Value(nil), th.newError("illegal base64 data")}
				}
				return Tuple{strToBytes(inner), Iface{}}
			}
			panic(unsupported("base64 decode of symbolic string"))
		}
		b, err := encName(th, a[0]).DecodeString(a[1].(string))
		if err != nil {
			return Tuple{[]Value(nil), th.newError(err.Error())}
		}
		return Tuple{strToBytes(string(b)), Iface{}}
	})

	// regexp: native handles
	reOf := func(th *Thread, v Value) *regexp.Regexp {
		p := v.(*Value)
		if p == nil {
			panic(th.ex.in.runtimeError("invalid memory address or nil pointer dereference"))
		}
		return (*p).(Native).X.(*regexp.Regexp)
	}
	in.reg("regexp.MustCompile", func(th *Thread, fn *ssa.Function, a []Value) Value {
		re, err := regexp.Compile(th.str(a[0], "regexp"))
		if err != nil {
			panic(TargetPanic{Iface{T: types.Typ[types.String], V: "regexp: Compile: " + err.Error()}})
		}
		return ptrTo(Native{re})
	})
	in.reg("regexp.Compile", func(th *Thread, fn *ssa.Function, a []Value) Value {
		re, err := regexp.Compile(th.str(a[0], "regexp"))
		if err != nil {
			return Tuple{(*Value)(nil), th.newError(err.Error())}
		}
		return Tuple{ptrTo(Native{re}), Iface{}}
	})
	in.reg("regexp.MatchString", func(th *Thread, fn *ssa.Function, a []Value) Value {
		ok, err := regexp.MatchString(th.str(a[0], "pattern"), th.str(a[1], "MatchString"))
		if err != nil {
			return Tuple{false, th.newError(err.Error())}
		}
		return Tuple{ok, Iface{}}
	})
	in.reg("(*regexp.Regexp).MatchString", func(th *Thread, fn *ssa.Function, a []Value) Value {
		re := reOf(th, a[0])
		if r, ok := a[1].(*Rope); ok {
			return th.ropeRegexpMatch(re, r)
		}
		return re.MatchString(a[1].(string))
	})
	in.reg("(*regexp.Regexp).Match", func(th *Thread, fn *ssa.Function, a []Value) Value {
		s := bytesToStr(a[1])
		if r, ok := s.(*Rope); ok {
			return th.ropeRegexpMatch(reOf(th, a[0]), r)
		}
		return reOf(th, a[0]).MatchString(s.(string))
	})
	in.reg("(*regexp.Regexp).FindStringSubmatch", func(th *Thread, fn *ssa.Function, a []Value) Value {
		if r, ok := a[1].(*Rope); ok {
			conc, bs := th.ropeConcretizeForRegexp(reOf(th, a[0]), r)
			idx := reOf(th, a[0]).FindSubmatchIndex(conc)
			if idx == nil {
				return []Value(nil)
			}
			return subRopes(bs, idx)
		}
		m := reOf(th, a[0]).FindStringSubmatch(th.str(a[1], "FindStringSubmatch"))
		if m == nil {
			return []Value(nil)
		}
		return strSlice(m)
	})
	in.reg("(*regexp.Regexp).FindAllStringSubmatch", func(th *Thread, fn *ssa.Function, a []Value) Value {
		if r, ok := a[1].(*Rope); ok {
			conc, bs := th.ropeConcretizeForRegexp(reOf(th, a[0]), r)
			all := reOf(th, a[0]).FindAllSubmatchIndex(conc, int(th.concInt(a[2], "n")))
			if all == nil {
				return []Value(nil)
			}
			out := make([]Value, len(all))
			for i, idx := range all {
				out[i] = subRopes(bs, idx)
			}
			return out
		}
		ms := reOf(th, a[0]).FindAllStringSubmatch(th.str(a[1], "FindAllStringSubmatch"), int(th.concInt(a[2], "n")))
		if ms == nil {
			return []Value(nil)
		}
		out := make([]Value, len(ms))
		for i, m := range ms {
			out[i] = strSlice(m)
		}
		return out
	})
	in.reg("(*regexp.Regexp).FindString", func(th *Thread, fn *ssa.Function, a []Value) Value {
		return reOf(th, a[0]).FindString(th.str(a[1], "FindString"))
	})
	in.reg("(*regexp.Regexp).ReplaceAllString", func(th *Thread, fn *ssa.Function, a []Value) Value {
		return reOf(th, a[0]).ReplaceAllString(th.str(a[1], "src"), th.str(a[2], "repl"))
	})
	in.reg("(*regexp.Regexp).String", func(th *Thread, fn *ssa.Function, a []Value) Value {
		return reOf(th, a[0]).String()
	})

	// sort
	in.reg("sort.Strings", func(th *Thread, fn *ssa.Function, a []Value) Value {
		sv, _ := a[0].([]Value)
		ss := th.strs(sv, "sort.Strings")
		sort.Strings(ss)
		for i := range sv {
			sv[i] = ss[i]
		}
		return nil
	})
	sortSlice := func(stable bool) Intrinsic {
		return func(th *Thread, fn *ssa.Function, a []Value) Value {
			it := a[0].(Iface)
			sv, _ := it.V.([]Value)
			less := a[1]
			// insertion sort (stable) driven by the interpreted comparator on a proxy slice:
			// the comparator indexes the *original* slice, so sort a permutation by
			// repeatedly swapping in place.
			n := len(sv)
			for i := 1; i < n; i++ {
				for j := i; j > 0; j-- {
					if th.branch(th.call(nil, 0, less, []Value{int64(j), int64(j - 1)})) {
						sv[j], sv[j-1] = sv[j-1], sv[j]
					} else {
						break
					}
				}
			}
			return nil
		}
	}
	in.reg("sort.Slice", sortSlice(false))
	in.reg("sort.SliceStable", sortSlice(true))
	sortIface := func(th *Thread, fn *ssa.Function, a []Value) Value {
		it := a[0].(Iface)
		lenM := in.methodOf(it.T, "Len")
		lessM := in.methodOf(it.T, "Less")
		swapM := in.methodOf(it.T, "Swap")
		n := int(th.concInt(th.call(nil, 0, lenM, []Value{it.V}), "Len"))
		for i := 1; i < n; i++ {
			for j := i; j > 0; j-- {
				if th.branch(th.call(nil, 0, lessM, []Value{it.V, int64(j), int64(j - 1)})) {
					th.call(nil, 0, swapM, []Value{it.V, int64(j), int64(j - 1)})
				} else {
					break
				}
			}
		}
		return nil
	}
	in.reg("sort.Sort", sortIface)
	in.reg("sort.Stable", sortIface)
}

func (th *Thread) ropeHasPrefix(r *Rope, p string) Value {
	bs, ok := r.bytes()
	if !ok {
		// dec segments: only decidable if the prefix ends before the first dec
		var lead []Value
		for _, s := range r.Segs {
			if s.D != nil {
				break
			}
			if s.B != nil {
				lead = append(lead, s.B)
			} else {
				for i := 0; i < len(s.S); i++ {
					lead = append(lead, int64(s.S[i]))
				}
			}
		}
		if len(lead) < len(p) {
			panic(unsupported("HasPrefix across dec segment"))
		}
		bs = lead
	}
	if len(bs) < len(p) {
		return false
	}
	acc := sym.True
	for i := 0; i < len(p); i++ {
		acc = sym.And(acc, sym.Eq(toBV(bs[i], 8), sym.BVConst(uint64(p[i]), 8)))
	}
	return fromBoolTerm(acc)
}

func (th *Thread) ropeHasSuffix(r *Rope, p string) Value {
	bs, ok := r.bytes()
	if !ok {
		panic(unsupported("HasSuffix on rope with dec"))
	}
	if len(bs) < len(p) {
		return false
	}
	off := len(bs) - len(p)
	acc := sym.True
	for i := 0; i < len(p); i++ {
		acc = sym.And(acc, sym.Eq(toBV(bs[off+i], 8), sym.BVConst(uint64(p[i]), 8)))
	}
	return fromBoolTerm(acc)
}

func (th *Thread) ropeContains(r *Rope, sub string) Value {
	bs, ok := r.bytes()
	if !ok {
		panic(unsupported("Contains on rope with dec"))
	}
	acc := sym.False
	for off := 0; off+len(sub) <= len(bs); off++ {
		m := sym.True
		for i := 0; i < len(sub); i++ {
			m = sym.And(m, sym.Eq(toBV(bs[off+i], 8), sym.BVConst(uint64(sub[i]), 8)))
		}
		acc = sym.Or(acc, m)
	}
	return fromBoolTerm(acc)
}

// ropeReplaceAll handles single-byte `old` by forking per symbolic byte.
func (th *Thread) ropeReplaceAll(r *Rope, old, nw string) Value {
	if len(old) != 1 {
		return th.ropeReplaceAllMulti(r, old, nw)
	}
	bs, ok := r.bytes()
	if !ok {
		panic(unsupported("ReplaceAll on rope with dec"))
	}
	var out Value = ""
	for _, b := range bs {
		switch b := b.(type) {
		case int64:
			if byte(b) == old[0] {
				out = concatStr(out, nw)
			} else {
				out = concatStr(out, string([]byte{byte(b)}))
			}
		case *sym.Term:
			if th.branch(fromBoolTerm(sym.Eq(b, sym.BVConst(uint64(old[0]), 8)))) {
				out = concatStr(out, nw)
			} else {
				out = concatStr(out, &Rope{Segs: []Seg{{B: b}}})
			}
		}
	}
	return out
}

// ropeReplaceAllMulti: non-overlapping matches of a concrete multi-byte `old`, left to
// right, each candidate position a solver-checked decision.
func (th *Thread) ropeReplaceAllMulti(r *Rope, old, nw string) Value {
	if old == "" {
		panic(unsupported("ReplaceAll with empty old on a symbolic string"))
	}
	bs, ok := r.bytes()
	if !ok {
		panic(unsupported("ReplaceAll on rope with dec"))
	}
	var out []Value
	i := 0
	for i < len(bs) {
		if i+len(old) <= len(bs) {
			acc := sym.True
			for j := 0; j < len(old) && !acc.IsFalse(); j++ {
				acc = sym.And(acc, sym.Eq(toBV(bs[i+j], 8), sym.BVConst(uint64(old[j]), 8)))
			}
			if th.branch(fromBoolTerm(acc)) {
				for k := 0; k < len(nw); k++ {
					out = append(out, int64(nw[k]))
				}
				i += len(old)
				continue
			}
		}
		out = append(out, bs[i])
		i++
	}
	return ropeFromBytes(out)
}

// ropeSplitAfter is strings.SplitAfter for a concrete separator.
func (th *Thread) ropeSplitAfter(s Value, sep string) Value {
	if c, ok := s.(string); ok {
		return strSlice(strings.SplitAfter(c, sep))
	}
	r := s.(*Rope)
	if c, ok := normRope(r).(string); ok {
		return strSlice(strings.SplitAfter(c, sep))
	}
	if sep == "" {
		panic(unsupported("SplitAfter with empty separator on a symbolic string"))
	}
	bs, ok := r.bytes()
	if !ok {
		panic(unsupported("SplitAfter on rope with dec"))
	}
	var parts []Value
	start, i := 0, 0
	for i < len(bs) {
		if i+len(sep) <= len(bs) {
			acc := sym.True
			for j := 0; j < len(sep) && !acc.IsFalse(); j++ {
				acc = sym.And(acc, sym.Eq(toBV(bs[i+j], 8), sym.BVConst(uint64(sep[j]), 8)))
			}
			if th.branch(fromBoolTerm(acc)) {
				i += len(sep)
				parts = append(parts, ropeFromBytes(bs[start:i]))
				start = i
				continue
			}
		}
		i++
	}
	parts = append(parts, ropeFromBytes(bs[start:]))
	return parts
}

// ropeConcretizeForRegexp picks, for every symbolic byte, its regexp byte class (a
// decision constrained in the path condition) and returns a representative string.
func (th *Thread) ropeConcretizeForRegexp(re *regexp.Regexp, r *Rope) ([]byte, []Value) {
	bs, ok := r.bytes()
	if !ok {
		panic(unsupported("regexp on rope with dec"))
	}
	classes := byteClasses(re)
	conc := make([]byte, len(bs))
	for i, b := range bs {
		switch b := b.(type) {
		case int64:
			conc[i] = byte(b)
		case *sym.Term:
			cons := make([]*sym.Term, len(classes))
			for ci, cl := range classes {
				cons[ci] = classTerm(b, cl)
			}
			c := th.ex.decide("reclass", len(classes), cons, "")
			conc[i] = classes[c].rep
		}
	}
	return conc, bs
}

func subRopes(bs []Value, idx []int) Value {
	out := make([]Value, len(idx)/2)
	for i := range out {
		lo, hi := idx[2*i], idx[2*i+1]
		if lo < 0 {
			out[i] = ""
			continue
		}
		out[i] = ropeFromBytes(bs[lo:hi])
	}
	return out
}

// ropeRegexpMatch decides a regexp on a rope by concretising: each symbolic byte is
// split by the byte classes of the regexp's alphabet. Supported only for small ropes.
func (th *Thread) ropeRegexpMatch(re *regexp.Regexp, r *Rope) Value {
	bs, ok := r.bytes()
	if !ok {
		panic(unsupported("regexp on rope with dec"))
	}
	classes := byteClasses(re)
	conc := make([]byte, len(bs))
	for i, b := range bs {
		switch b := b.(type) {
		case int64:
			conc[i] = byte(b)
		case *sym.Term:
			// decide the class of this byte
			cons := make([]*sym.Term, len(classes))
			for ci, cl := range classes {
				cons[ci] = classTerm(b, cl)
			}
			c := th.ex.decide("reclass", len(classes), cons, "")
			conc[i] = classes[c].rep
		}
	}
	return re.Match(conc)
}

type byteClass struct {
	lo, hi []byte // ranges
	rep    byte
}

func classTerm(b *sym.Term, cl byteClass) *sym.Term {
	acc := sym.False
	for i := range cl.lo {
		acc = sym.Or(acc, sym.And(sym.BVCmp("bvule", sym.BVConst(uint64(cl.lo[i]), 8), b), sym.BVCmp("bvule", b, sym.BVConst(uint64(cl.hi[i]), 8))))
	}
	return acc
}

// byteClasses partitions 0..255 into classes of bytes the regexp cannot distinguish,
// computed empirically: two bytes are equivalent if substituting one for the other in
// every position of probe strings built from the regexp's literal alphabet gives the
// same match results. Conservative approach: classes are maximal runs of bytes with
// identical single-byte match behaviour against every sub-expression character class.
func byteClasses(re *regexp.Regexp) []byteClass {
	// derive character-class signatures from the regexp source: parse with regexp/syntax
	sig := regexpByteSignature(re.String())
	var classes []byteClass
	idx := map[string]int{}
	for b := 0; b < 256; b++ {
		k := sig[b]
		ci, ok := idx[k]
		if !ok {
			ci = len(classes)
			idx[k] = ci
			classes = append(classes, byteClass{rep: byte(b)})
		}
		cl := &classes[ci]
		if n := len(cl.hi); n > 0 && cl.hi[n-1] == byte(b-1) {
			cl.hi[n-1] = byte(b)
		} else {
			cl.lo = append(cl.lo, byte(b))
			cl.hi = append(cl.hi, byte(b))
		}
	}
	return classes
}

func registerSync(in *Interp) {
	mu := func(th *Thread, v Value) *Mutex {
		p := v.(*Value)
		if p == nil {
			panic(th.ex.in.runtimeError("invalid memory address or nil pointer dereference"))
		}
		return (*p).(*Mutex)
	}
	in.reg("(*sync.Mutex).Lock", func(th *Thread, fn *ssa.Function, a []Value) Value { th.mutexLock(mu(th, a[0])); return nil })
	in.reg("(*sync.Mutex).TryLock", func(th *Thread, fn *ssa.Function, a []Value) Value { return th.mutexTryLock(mu(th, a[0])) })
	in.reg("(*sync.Mutex).Unlock", func(th *Thread, fn *ssa.Function, a []Value) Value { th.mutexUnlock(mu(th, a[0])); return nil })
	in.reg("(*sync.RWMutex).Lock", func(th *Thread, fn *ssa.Function, a []Value) Value { th.mutexLock(mu(th, a[0])); return nil })
	in.reg("(*sync.RWMutex).Unlock", func(th *Thread, fn *ssa.Function, a []Value) Value { th.mutexUnlock(mu(th, a[0])); return nil })
	in.reg("(*sync.RWMutex).RLock", func(th *Thread, fn *ssa.Function, a []Value) Value { th.mutexRLock(mu(th, a[0])); return nil })
	in.reg("(*sync.RWMutex).RUnlock", func(th *Thread, fn *ssa.Function, a []Value) Value { th.mutexRUnlock(mu(th, a[0])); return nil })
	wg := func(th *Thread, v Value) *WaitGroup { return (*(v.(*Value))).(*WaitGroup) }
	in.reg("(*sync.WaitGroup).Add", func(th *Thread, fn *ssa.Function, a []Value) Value {
		th.wgAdd(wg(th, a[0]), int(th.concInt(a[1], "wg delta")))
		return nil
	})
	in.reg("(*sync.WaitGroup).Done", func(th *Thread, fn *ssa.Function, a []Value) Value { th.wgAdd(wg(th, a[0]), -1); return nil })
	in.reg("(*sync.WaitGroup).Wait", func(th *Thread, fn *ssa.Function, a []Value) Value { th.wgWait(wg(th, a[0])); return nil })
	in.reg("(*sync.Once).Do", func(th *Thread, fn *ssa.Function, a []Value) Value {
		o := (*(a[0].(*Value))).(*Once)
		if !o.done {
			o.done = true
			th.call(nil, 0, a[1], nil)
		}
		return nil
	})
	// sync.Pool: Put keeps the object, Get hands the most recent one back (never drops),
	// or calls New. The kept objects are state of the current execution (a pool is
	// usually a package variable, and those are shared by all paths).
	poolNew := func(ps Struct) Value {
		st := in.Prog.ImportedPackage("sync").Type("Pool").Type().Underlying().(*types.Struct)
		for i := 0; i < st.NumFields(); i++ {
			if st.Field(i).Name() == "New" {
				return ps[i]
			}
		}
		return nil
	}
	in.reg("(*sync.Pool).Put", func(th *Thread, fn *ssa.Function, a []Value) Value {
		th.stub("sync.Pool: keeps every object, hands the most recent one back")
		if th.ex.pools == nil {
			th.ex.pools = map[*Value][]Value{}
		}
		k := a[0].(*Value)
		th.ex.pools[k] = append(th.ex.pools[k], a[1])
		return nil
	})
	in.reg("(*sync.Pool).Get", func(th *Thread, fn *ssa.Function, a []Value) Value {
		k := a[0].(*Value)
		if items := th.ex.pools[k]; len(items) > 0 {
			th.ex.pools[k] = items[:len(items)-1]
			return items[len(items)-1]
		}
		if f := poolNew((*k).(Struct)); f != nil {
			if c, isClosure := f.(*Closure); !isClosure || c != nil {
				return th.call(nil, 0, f, nil)
			}
		}
		return Iface{}
	})
	sm := func(th *Thread, v Value) *SyncMap {
		p := v.(*Value)
		if p == nil {
			panic(th.ex.in.runtimeError("invalid memory address or nil pointer dereference"))
		}
		return (*p).(*SyncMap)
	}
	in.reg("(*sync.Map).LoadOrStore", func(th *Thread, fn *ssa.Function, a []Value) Value {
		m := sm(th, a[0])
		if e := th.findEntry(m.m, a[1]); e != nil {
			return Tuple{e.v, true}
		}
		th.mapUpdate(m.m, a[1], a[2])
		return Tuple{a[2], false}
	})
	in.reg("(*sync.Map).Load", func(th *Thread, fn *ssa.Function, a []Value) Value {
		m := sm(th, a[0])
		if e := th.findEntry(m.m, a[1]); e != nil {
			return Tuple{e.v, true}
		}
		return Tuple{Iface{}, false}
	})
	in.reg("(*sync.Map).Store", func(th *Thread, fn *ssa.Function, a []Value) Value {
		th.mapUpdate(sm(th, a[0]).m, a[1], a[2])
		return nil
	})
	in.reg("(*sync.Map).Delete", func(th *Thread, fn *ssa.Function, a []Value) Value {
		th.mapDelete(sm(th, a[0]).m, a[1])
		return nil
	})
	in.reg("(*sync.Map).Range", func(th *Thread, fn *ssa.Function, a []Value) Value {
		m := sm(th, a[0])
		for _, e := range append([]*mapEntry(nil), m.m.entries...) {
			if e.deleted {
				continue
			}
			if !th.branch(th.call(nil, 0, a[1], []Value{e.k, e.v})) {
				break
			}
		}
		return nil
	})
	// atomics: cell holds the value directly
	cell := func(th *Thread, v Value) *Value {
		p := v.(*Value)
		if p == nil {
			panic(th.ex.in.runtimeError("invalid memory address or nil pointer dereference"))
		}
		return p
	}
	for _, t := range []string{"Int64", "Int32", "Uint64", "Uint32"} {
		t := t
		ii := intInfo{64, t[0] == 'I'}
		if strings.HasSuffix(t, "32") {
			ii.w = 32
		}
		pre := "(*sync/atomic." + t + ")."
		in.reg(pre+"Add", func(th *Thread, fn *ssa.Function, a []Value) Value {
			c := cell(th, a[0])
			*c = normInt((*c).(int64)+th.concInt(a[1], "atomic delta"), ii)
			return *c
		})
		in.reg(pre+"Load", func(th *Thread, fn *ssa.Function, a []Value) Value { return *cell(th, a[0]) })
		in.reg(pre+"Store", func(th *Thread, fn *ssa.Function, a []Value) Value { *cell(th, a[0]) = a[1]; return nil })
		in.reg(pre+"Swap", func(th *Thread, fn *ssa.Function, a []Value) Value {
			c := cell(th, a[0])
			old := *c
			*c = a[1]
			return old
		})
		in.reg(pre+"CompareAndSwap", func(th *Thread, fn *ssa.Function, a []Value) Value {
			c := cell(th, a[0])
			if th.branch(th.equals(*c, a[1])) {
				*c = a[2]
				return true
			}
			return false
		})
	}
	in.reg("(*sync/atomic.Bool).Load", func(th *Thread, fn *ssa.Function, a []Value) Value { return *cell(th, a[0]) })
	in.reg("(*sync/atomic.Bool).Store", func(th *Thread, fn *ssa.Function, a []Value) Value { *cell(th, a[0]) = a[1]; return nil })
	in.reg("(*sync/atomic.Value).Load", func(th *Thread, fn *ssa.Function, a []Value) Value { return *cell(th, a[0]) })
	in.reg("(*sync/atomic.Value).Store", func(th *Thread, fn *ssa.Function, a []Value) Value { *cell(th, a[0]) = a[1]; return nil })
	in.reg("(*go.uber.org/atomic.Int64).Add", func(th *Thread, fn *ssa.Function, a []Value) Value {
		c := cell(th, a[0])
		*c = (*c).(int64) + th.concInt(a[1], "atomic delta")
		return *c
	})
	in.reg("(*go.uber.org/atomic.Int64).Load", func(th *Thread, fn *ssa.Function, a []Value) Value { return *cell(th, a[0]) })
}

// ---------- context / time / logging / misc ----------

// Ctx is the engine's context object.
type Ctx struct {
	parent *Ctx
	done   *Chan
	err    Value // Iface
	key    Value
	val    Value
	kids   []*Ctx
}

func (c *Ctx) doneChan() *Chan {
	for x := c; x != nil; x = x.parent {
		if x.done != nil {
			return x.done
		}
	}
	return nil
}

func (c *Ctx) errVal() Value {
	for x := c; x != nil; x = x.parent {
		if x.done != nil && x.done.closed {
			return x.err
		}
	}
	return Iface{}
}

func (in *Interp) ctxType() types.Type {
	// dynamic type used for engine contexts: *context.emptyCtx-like; we use *context.cancelCtx
	p := in.Prog.ImportedPackage("context")
	return types.NewPointer(p.Type("cancelCtx").Object().Type())
}

func (in *Interp) ctxValue(c *Ctx) Value {
	return Iface{T: in.ctxType(), V: ptrTo(Native{c})}
}

func ctxOf(v Value) *Ctx {
	it, ok := v.(Iface)
	if !ok || it.T == nil {
		return nil
	}
	p, ok := it.V.(*Value)
	if !ok || p == nil {
		return nil
	}
	n, ok := (*p).(Native)
	if !ok {
		return nil
	}
	c, _ := n.X.(*Ctx)
	return c
}

func registerMisc(in *Interp) {
	// context
	bg := func(th *Thread, fn *ssa.Function, a []Value) Value { return in.ctxValue(&Ctx{}) }
	in.reg("context.Background", bg)
	in.reg("context.TODO", bg)
	in.reg("context.WithValue", func(th *Thread, fn *ssa.Function, a []Value) Value {
		return in.ctxValue(&Ctx{parent: ctxOf(a[0]), key: a[1], val: a[2]})
	})
	cancelErr := func(th *Thread) Value {
		g := in.Prog.ImportedPackage("context").Var("Canceled")
		return *in.global(g)
	}
	withCancel := func(th *Thread, fn *ssa.Function, a []Value) Value {
		c := &Ctx{parent: ctxOf(a[0]), done: &Chan{elem: types.NewStruct(nil, nil)}}
		// propagate parent's cancellation: if parent already cancelled, cancel now
		if pd := c.parent.doneChan(); pd != nil {
			if pd.closed {
				c.done.closed = true
				c.err = c.parent.errVal()
			} else {
				for x := c.parent; x != nil; x = x.parent {
					if x.done == pd {
						x.kids = append(x.kids, c)
						break
					}
				}
			}
		}
		var cancel func(c *Ctx, th *Thread)
		cancel = func(c *Ctx, th *Thread) {
			if c.done.closed {
				return
			}
			c.err = cancelErr(th)
			th.chanClose(c.done)
			for _, k := range c.kids {
				cancel(k, th)
			}
		}
		cf := &HostFunc{Name: "cancel", F: func(th *Thread, args []Value) Value { cancel(c, th); return nil }}
		return Tuple{in.ctxValue(c), cf}
	}
	in.reg("context.WithCancel", withCancel)
	in.reg("context.WithTimeout", func(th *Thread, fn *ssa.Function, a []Value) Value { return withCancel(th, fn, a[:1]) })
	in.reg("context.WithDeadline", func(th *Thread, fn *ssa.Function, a []Value) Value { return withCancel(th, fn, a[:1]) })
	cm := "(*context.cancelCtx)."
	in.reg(cm+"Done", func(th *Thread, fn *ssa.Function, a []Value) Value {
		c := (*(a[0].(*Value))).(Native).X.(*Ctx)
		return c.doneChan() // nil chan if never cancellable
	})
	in.reg(cm+"Err", func(th *Thread, fn *ssa.Function, a []Value) Value {
		c := (*(a[0].(*Value))).(Native).X.(*Ctx)
		return c.errVal()
	})
	in.reg(cm+"Value", func(th *Thread, fn *ssa.Function, a []Value) Value {
		c := (*(a[0].(*Value))).(Native).X.(*Ctx)
		for x := c; x != nil; x = x.parent {
			if x.key != nil {
				if e, ok := th.equals(x.key, a[1]).(bool); ok && e {
					return x.val
				}
			}
		}
		return Iface{}
	})
	in.reg(cm+"Deadline", func(th *Thread, fn *ssa.Function, a []Value) Value {
		return Tuple{time.Time{}, false}
	})

	// time
	in.reg("time.Now", func(th *Thread, fn *ssa.Function, a []Value) Value {
		th.ex.clock++
		return time.Date(2023, 1, 1, 0, 0, 0, 0, time.UTC).Add(time.Duration(th.ex.clock) * time.Millisecond)
	})
	in.reg("time.Since", func(th *Thread, fn *ssa.Function, a []Value) Value { return int64(time.Millisecond) })
	in.reg("time.Sleep", func(th *Thread, fn *ssa.Function, a []Value) Value { return nil })
	in.reg("time.Unix", func(th *Thread, fn *ssa.Function, a []Value) Value {
		return time.Unix(th.concInt(a[0], "sec"), th.concInt(a[1], "nsec"))
	})
	in.reg("time.Date", func(th *Thread, fn *ssa.Function, a []Value) Value {
		loc := time.UTC
		return time.Date(int(th.concInt(a[0], "y")), time.Month(th.concInt(a[1], "m")), int(th.concInt(a[2], "d")), int(th.concInt(a[3], "h")), int(th.concInt(a[4], "mi")), int(th.concInt(a[5], "s")), int(th.concInt(a[6], "ns")), loc)
	})
	in.reg("time.Parse", func(th *Thread, fn *ssa.Function, a []Value) Value {
		t, err := time.Parse(th.str(a[0], "layout"), th.str(a[1], "time.Parse"))
		if err != nil {
			return Tuple{time.Time{}, th.newError(err.Error())}
		}
		return Tuple{t, Iface{}}
	})
	tm := func(name string, f func(th *Thread, t time.Time, a []Value) Value) {
		in.reg("(time.Time)."+name, func(th *Thread, fn *ssa.Function, a []Value) Value {
			return f(th, a[0].(time.Time), a[1:])
		})
	}
	tm("UTC", func(th *Thread, t time.Time, a []Value) Value { return t.UTC() })
	tm("Local", func(th *Thread, t time.Time, a []Value) Value { return t.UTC() })
	tm("IsZero", func(th *Thread, t time.Time, a []Value) Value { return t.IsZero() })
	tm("Unix", func(th *Thread, t time.Time, a []Value) Value { return t.Unix() })
	tm("UnixNano", func(th *Thread, t time.Time, a []Value) Value { return t.UnixNano() })
	tm("UnixMicro", func(th *Thread, t time.Time, a []Value) Value { return t.UnixMicro() })
	tm("Nanosecond", func(th *Thread, t time.Time, a []Value) Value { return int64(t.Nanosecond()) })
	tm("String", func(th *Thread, t time.Time, a []Value) Value { return t.String() })
	tm("Year", func(th *Thread, t time.Time, a []Value) Value { return int64(t.Year()) })
	tm("Month", func(th *Thread, t time.Time, a []Value) Value { return int64(t.Month()) })
	tm("Day", func(th *Thread, t time.Time, a []Value) Value { return int64(t.Day()) })
	tm("Hour", func(th *Thread, t time.Time, a []Value) Value { return int64(t.Hour()) })
	tm("Minute", func(th *Thread, t time.Time, a []Value) Value { return int64(t.Minute()) })
	tm("Second", func(th *Thread, t time.Time, a []Value) Value { return int64(t.Second()) })
	tm("YearDay", func(th *Thread, t time.Time, a []Value) Value { return int64(t.YearDay()) })
	tm("Weekday", func(th *Thread, t time.Time, a []Value) Value { return int64(t.Weekday()) })
	tm("UnixMilli", func(th *Thread, t time.Time, a []Value) Value { return t.UnixMilli() })
	tm("AddDate", func(th *Thread, t time.Time, a []Value) Value {
		return t.AddDate(int(th.concInt(a[0], "y")), int(th.concInt(a[1], "m")), int(th.concInt(a[2], "d")))
	})
	tm("In", func(th *Thread, t time.Time, a []Value) Value { return t.UTC() })
	tm("Format", func(th *Thread, t time.Time, a []Value) Value { return t.Format(th.str(a[0], "layout")) })
	tm("Round", func(th *Thread, t time.Time, a []Value) Value { return t.Round(time.Duration(th.concInt(a[0], "d"))) })
	tm("Truncate", func(th *Thread, t time.Time, a []Value) Value { return t.Truncate(time.Duration(th.concInt(a[0], "d"))) })
	tm("Add", func(th *Thread, t time.Time, a []Value) Value { return t.Add(time.Duration(th.concInt(a[0], "d"))) })
	tm("Sub", func(th *Thread, t time.Time, a []Value) Value { return int64(t.Sub(a[0].(time.Time))) })
	tm("Equal", func(th *Thread, t time.Time, a []Value) Value { return t.Equal(a[0].(time.Time)) })
	tm("Before", func(th *Thread, t time.Time, a []Value) Value { return t.Before(a[0].(time.Time)) })
	tm("After", func(th *Thread, t time.Time, a []Value) Value { return t.After(a[0].(time.Time)) })
	tm("Compare", func(th *Thread, t time.Time, a []Value) Value { return int64(t.Compare(a[0].(time.Time))) })
	tm("MarshalJSON", func(th *Thread, t time.Time, a []Value) Value {
		b, err := t.MarshalJSON()
		if err != nil {
			return Tuple{[]Value(nil), th.newError(err.Error())}
		}
		return Tuple{strToBytes(string(b)), Iface{}}
	})
	in.reg("(*time.Time).UnmarshalJSON", func(th *Thread, fn *ssa.Function, a []Value) Value {
		var t time.Time
		err := t.UnmarshalJSON([]byte(th.str(bytesToStr(a[1]), "time json")))
		if err != nil {
			return th.newError(err.Error())
		}
		*(a[0].(*Value)) = t
		return Iface{}
	})
	in.reg("(time.Duration).String", func(th *Thread, fn *ssa.Function, a []Value) Value {
		return time.Duration(th.concInt(a[0], "d")).String()
	})

	// logging (go-libs) and friends: no-ops
	lg := "github.com/formancehq/stack/libs/go-libs/logging."
	in.reg(lg+"FromContext", func(th *Thread, fn *ssa.Function, a []Value) Value {
		th.stub("logging")
		return in.loggerValue()
	})
	in.reg(lg+"ContextWithLogger", func(th *Thread, fn *ssa.Function, a []Value) Value { return a[0] })
	in.reg(lg+"ContextWithFields", func(th *Thread, fn *ssa.Function, a []Value) Value { return a[0] })
	in.reg(lg+"ContextWithField", func(th *Thread, fn *ssa.Function, a []Value) Value { return a[0] })
	in.reg(lg+"Testing", func(th *Thread, fn *ssa.Function, a []Value) Value { return in.loggerValue() })
	for _, n := range []string{"Debugf", "Debug", "Infof", "Info", "Errorf", "Error", "Tracef", "Trace", "Warnf", "Warn"} {
		in.reg(lg+n, func(th *Thread, fn *ssa.Function, a []Value) Value { return nil })
	}
	in.reg(lg+"WithFields", func(th *Thread, fn *ssa.Function, a []Value) Value { return in.loggerValue() })

	in.reg("runtime/debug.PrintStack", func(th *Thread, fn *ssa.Function, a []Value) Value { return nil })
	in.reg("runtime/debug.Stack", func(th *Thread, fn *ssa.Function, a []Value) Value { return []Value{} })
	in.reg("os.Exit", func(th *Thread, fn *ssa.Function, a []Value) Value {
		panic(engineAbort{OutPanic, fmt.Sprintf("os.Exit(%v)", a[0])})
	})
	in.reg("runtime.Gosched", func(th *Thread, fn *ssa.Function, a []Value) Value { return nil })
	in.reg("runtime.KeepAlive", func(th *Thread, fn *ssa.Function, a []Value) Value { return nil })

	// crypto/sha256 — hash tokens
	in.reg("crypto/sha256.New", func(th *Thread, fn *ssa.Function, a []Value) Value {
		t := in.Prog.ImportedPackage("crypto/sha256").Type("digest").Object().Type()
		return Iface{T: types.NewPointer(t), V: ptrTo(Native{&HashState{}})}
	})
	hs := func(v Value) *HashState { return (*(v.(*Value))).(Native).X.(*HashState) }
	in.reg("(*crypto/sha256.digest).Write", func(th *Thread, fn *ssa.Function, a []Value) Value {
		h := hs(a[0])
		h.chunks = append(h.chunks, bytesToStr(a[1]))
		return Tuple{int64(len(a[1].([]Value))), Iface{}}
	})
	in.reg("(*crypto/sha256.digest).Sum", func(th *Thread, fn *ssa.Function, a []Value) Value {
		h := hs(a[0])
		pre, _ := a[1].([]Value)
		tok := &HashToken{chunks: append([]Value(nil), h.chunks...)}
		// like the real Sum: append(in, digest...) -- writes into in's backing array when
		// its capacity allows (callers sharing a scratch buffer alias each other)
		return append(pre, tok.bytes()...)
	})
	in.reg("(*crypto/sha256.digest).Reset", func(th *Thread, fn *ssa.Function, a []Value) Value {
		hs(a[0]).chunks = nil
		return nil
	})
	in.reg("crypto/sha256.Sum256", func(th *Thread, fn *ssa.Function, a []Value) Value {
		tok := &HashToken{chunks: []Value{bytesToStr(a[0])}}
		return Array(tok.bytes())
	})
	in.reg("bytes.Equal", func(th *Thread, fn *ssa.Function, a []Value) Value {
		x, _ := a[0].([]Value)
		y, _ := a[1].([]Value)
		return th.bytesEqual(x, y)
	})
	in.reg("bytes.Compare", func(th *Thread, fn *ssa.Function, a []Value) Value {
		x := th.str(bytesToStr(a[0]), "bytes.Compare")
		y := th.str(bytesToStr(a[1]), "bytes.Compare")
		return int64(strings.Compare(x, y))
	})
}

// HashState accumulates what is written to a digest.
type HashState struct{ chunks []Value }

// HashToken stands for a SHA-256 value; equality is structural on the chunk lists.
type HashToken struct{ chunks []Value }

// bytes renders the token as a 32-element byte slice whose first element carries the
// token (the remaining 31 are zero). Code that only copies, compares (bytes.Equal) or
// JSON-encodes the hash keeps it intact.
func (t *HashToken) bytes() []Value {
	out := make([]Value, 32)
	out[0] = t
	for i := 1; i < 32; i++ {
		out[i] = int64(0)
	}
	return out
}

func flattenChunks(chunks []Value) Value {
	var out Value = ""
	for _, c := range chunks {
		out = concatStr(out, c)
	}
	return out
}

// ropeCase is strings.ToUpper/ToLower; symbolic bytes must be ASCII (a decision: the
// non-ASCII side leaves the fragment), where the mapping is the byte-wise one.
func (th *Thread) ropeCase(s Value, upper bool) Value {
	f := strings.ToLower
	if upper {
		f = strings.ToUpper
	}
	if c, ok := s.(string); ok {
		return f(c)
	}
	r := s.(*Rope)
	if c, ok := normRope(r).(string); ok {
		return f(c)
	}
	out := &Rope{}
	for _, sg := range r.Segs {
		switch {
		case sg.B != nil:
			b := sg.B
			if !th.branch(fromBoolTerm(sym.BVCmp("bvult", b, sym.BVConst(0x80, 8)))) {
				panic(unsupported("ToUpper/ToLower of a non-ASCII symbolic byte"))
			}
			lo, hi, d := byte('a'), byte('z'), uint64(0xE0) // -32 mod 256
			if !upper {
				lo, hi, d = 'A', 'Z', 0x20
			}
			in := sym.And(sym.BVCmp("bvule", sym.BVConst(uint64(lo), 8), b), sym.BVCmp("bvule", b, sym.BVConst(uint64(hi), 8)))
			out.Segs = append(out.Segs, Seg{B: sym.Ite(in, sym.BVBin("bvadd", b, sym.BVConst(d, 8)), b)})
		case sg.D != nil, sg.H != nil:
			out.Segs = append(out.Segs, sg) // digits and hash tokens have no case
		default:
			out.Segs = append(out.Segs, Seg{S: f(sg.S)})
		}
	}
	return normRope(out)
}

// ropeIndex is strings.Index for a concrete separator over a string that may hold
// symbolic bytes: each candidate position whose match is not decided concretely is a
// solver-checked decision, earliest position first.
func (th *Thread) ropeIndex(s Value, sep string) Value {
	if c, ok := s.(string); ok {
		return int64(strings.Index(c, sep))
	}
	r, ok := s.(*Rope)
	if !ok {
		panic(fmt.Sprintf("ropeIndex on %T", s))
	}
	if c, ok := normRope(r).(string); ok {
		return int64(strings.Index(c, sep))
	}
	bs, ok := r.bytes()
	if !ok {
		panic(unsupported("symbolic string as Index: %v", r))
	}
	for i := 0; i+len(sep) <= len(bs); i++ {
		acc := sym.True
		for j := 0; j < len(sep) && !acc.IsFalse(); j++ {
			acc = sym.And(acc, sym.Eq(toBV(bs[i+j], 8), toBV(int64(sep[j]), 8)))
		}
		if th.branch(fromBoolTerm(acc)) {
			return int64(i)
		}
	}
	return int64(-1)
}

func (th *Thread) bytesEqual(x, y []Value) Value {
	if len(x) != len(y) {
		return false
	}
	acc := sym.True
	for i := range x {
		tx, okx := x[i].(*HashToken)
		ty, oky := y[i].(*HashToken)
		if okx || oky {
			if !(okx && oky) {
				return false
			}
			e := th.equals(flattenChunks(tx.chunks), flattenChunks(ty.chunks))
			acc = sym.And(acc, toBoolTerm(e))
			continue
		}
		acc = sym.And(acc, sym.Eq(toBV(x[i], 8), toBV(y[i], 8)))
		if acc.IsFalse() {
			return false
		}
	}
	return fromBoolTerm(acc)
}

func (in *Interp) loggerValue() Value {
	p := in.Prog.ImportedPackage("github.com/formancehq/stack/libs/go-libs/logging")
	if p == nil {
		return Iface{}
	}
	// use the package's own no-op-able type if present; otherwise a native token typed
	// as *logging.logrusLogger-like. Methods are intercepted by name below.
	t := p.Type("logrusLogger")
	if t == nil {
		return Iface{}
	}
	return Iface{T: types.NewPointer(t.Object().Type()), V: ptrTo(Native{"logger"})}
}
