package interp

import (
	"math/big"
	"fmt"
	"go/token"
	"go/types"
	"math"
	"strings"
	"time"
	"unicode/utf8"

	"golang.org/x/tools/go/ssa"

	"symgo/sym"
)

func (th *Thread) unop(fr *frame, instr *ssa.UnOp, x Value) Value {
	in := th.ex.in
	switch instr.Op {
	case token.ARROW:
		v, ok := th.chanRecv(x.(*Chan))
		if instr.CommaOk {
			return Tuple{v, ok}
		}
		return v
	case token.MUL:
		p := x.(*Value)
		if p == nil {
			panic(in.runtimeError("invalid memory address or nil pointer dereference"))
		}
		return copyVal(*p)
	case token.SUB:
		switch x := x.(type) {
		case int64:
			ii, _ := intInfoOf(instr.X.Type())
			return normInt(-x, ii)
		case float64:
			return -x
		case *sym.Term:
			return sym.BVNeg(x)
		}
	case token.NOT:
		switch x := x.(type) {
		case bool:
			return !x
		case *sym.Term:
			return fromBoolTerm(sym.Not(x))
		}
	case token.XOR:
		switch x := x.(type) {
		case int64:
			ii, _ := intInfoOf(instr.X.Type())
			return normInt(^x, ii)
		case *sym.Term:
			return sym.BVNot(x)
		}
	}
	panic(unsupported("unop %v on %T", instr.Op, x))
}

var cmpNeg = map[token.Token]token.Token{}

func (th *Thread) binop(op token.Token, tx, ty types.Type, x, y Value) Value {
	in := th.ex.in
	switch op {
	case token.EQL:
		return th.equals(x, y)
	case token.NEQ:
		e := th.equals(x, y)
		switch e := e.(type) {
		case bool:
			return !e
		case *sym.Term:
			return fromBoolTerm(sym.Not(e))
		}
	}
	if ii, ok := intInfoOf(tx); ok {
		xi, xc := x.(int64)
		yi, yc := y.(int64)
		if op == token.SHL || op == token.SHR {
			return th.shift(op, ii, ty, x, y)
		}
		if xc && yc {
			switch op {
			case token.ADD:
				return normInt(xi+yi, ii)
			case token.SUB:
				return normInt(xi-yi, ii)
			case token.MUL:
				return normInt(xi*yi, ii)
			case token.QUO:
				if yi == 0 {
					panic(in.runtimeError("integer divide by zero"))
				}
				if ii.signed {
					if yi == -1 {
						return normInt(-xi, ii)
					}
					return normInt(xi/yi, ii)
				}
				return normInt(int64(uint64(xi)/uint64(yi)), ii)
			case token.REM:
				if yi == 0 {
					panic(in.runtimeError("integer divide by zero"))
				}
				if ii.signed {
					if yi == -1 {
						return int64(0)
					}
					return normInt(xi%yi, ii)
				}
				return normInt(int64(uint64(xi)%uint64(yi)), ii)
			case token.AND:
				return xi & yi
			case token.OR:
				return xi | yi
			case token.XOR:
				return normInt(xi^yi, ii)
			case token.AND_NOT:
				return xi &^ yi
			case token.LSS:
				if ii.signed {
					return xi < yi
				}
				return uint64(xi) < uint64(yi)
			case token.LEQ:
				if ii.signed {
					return xi <= yi
				}
				return uint64(xi) <= uint64(yi)
			case token.GTR:
				if ii.signed {
					return xi > yi
				}
				return uint64(xi) > uint64(yi)
			case token.GEQ:
				if ii.signed {
					return xi >= yi
				}
				return uint64(xi) >= uint64(yi)
			}
			panic(unsupported("int binop %v", op))
		}
		a, b := toBV(x, ii.w), toBV(y, ii.w)
		switch op {
		case token.ADD:
			return fromBV(sym.BVBin("bvadd", a, b), ii)
		case token.SUB:
			return fromBV(sym.BVBin("bvsub", a, b), ii)
		case token.MUL:
			return fromBV(sym.BVBin("bvmul", a, b), ii)
		case token.QUO, token.REM:
			zero := sym.BVConst(0, ii.w)
			if th.branch(fromBoolTerm(sym.Eq(b, zero))) {
				panic(in.runtimeError("integer divide by zero"))
			}
			var o string
			switch {
			case op == token.QUO && ii.signed:
				o = "bvsdiv"
			case op == token.QUO:
				o = "bvudiv"
			case ii.signed:
				o = "bvsrem"
			default:
				o = "bvurem"
			}
			return fromBV(sym.BVBin(o, a, b), ii)
		case token.AND:
			return fromBV(sym.BVBin("bvand", a, b), ii)
		case token.OR:
			return fromBV(sym.BVBin("bvor", a, b), ii)
		case token.XOR:
			return fromBV(sym.BVBin("bvxor", a, b), ii)
		case token.AND_NOT:
			return fromBV(sym.BVBin("bvand", a, sym.BVNot(b)), ii)
		case token.LSS:
			if ii.signed {
				return fromBoolTerm(sym.BVCmp("bvslt", a, b))
			}
			return fromBoolTerm(sym.BVCmp("bvult", a, b))
		case token.LEQ:
			if ii.signed {
				return fromBoolTerm(sym.BVCmp("bvsle", a, b))
			}
			return fromBoolTerm(sym.BVCmp("bvule", a, b))
		case token.GTR:
			if ii.signed {
				return fromBoolTerm(sym.BVCmp("bvslt", b, a))
			}
			return fromBoolTerm(sym.BVCmp("bvult", b, a))
		case token.GEQ:
			if ii.signed {
				return fromBoolTerm(sym.BVCmp("bvsle", b, a))
			}
			return fromBoolTerm(sym.BVCmp("bvule", b, a))
		}
		panic(unsupported("symbolic int binop %v", op))
	}
	if isFloat(tx) {
		xf, yf := x.(float64), y.(float64)
		f32 := tx.Underlying().(*types.Basic).Kind() == types.Float32
		r := func(f float64) Value {
			if f32 {
				return float64(float32(f))
			}
			return f
		}
		switch op {
		case token.ADD:
			return r(xf + yf)
		case token.SUB:
			return r(xf - yf)
		case token.MUL:
			return r(xf * yf)
		case token.QUO:
			return r(xf / yf)
		case token.LSS:
			return xf < yf
		case token.LEQ:
			return xf <= yf
		case token.GTR:
			return xf > yf
		case token.GEQ:
			return xf >= yf
		}
	}
	if isString(tx) {
		switch op {
		case token.ADD:
			return concatStr(x, y)
		}
		xs, xok := x.(string)
		ys, yok := y.(string)
		if xok && yok {
			switch op {
			case token.LSS:
				return xs < ys
			case token.LEQ:
				return xs <= ys
			case token.GTR:
				return xs > ys
			case token.GEQ:
				return xs >= ys
			}
		}
		panic(unsupported("string binop %v on symbolic rope", op))
	}
	if isBool(tx) {
		a, b := toBoolTerm(x), toBoolTerm(y)
		switch op {
		case token.AND, token.LAND:
			return fromBoolTerm(sym.And(a, b))
		case token.OR, token.LOR:
			return fromBoolTerm(sym.Or(a, b))
		}
	}
	panic(unsupported("binop %v on %T (%v)", op, x, tx))
}

func (th *Thread) shift(op token.Token, ii intInfo, ty types.Type, x, y Value) Value {
	in := th.ex.in
	yi, yc := y.(int64)
	if yc {
		if yii, ok := intInfoOf(ty); ok && yii.signed && yi < 0 {
			panic(in.runtimeError("negative shift amount"))
		}
		if xi, ok := x.(int64); ok {
			n := uint64(yi)
			switch op {
			case token.SHL:
				if n >= 64 {
					return int64(0)
				}
				return normInt(xi<<n, ii)
			case token.SHR:
				if ii.signed {
					if n >= 64 {
						n = 63
					}
					return normInt(xi>>n, ii)
				}
				if n >= 64 {
					return int64(0)
				}
				return normInt(int64(uint64(xi)>>n), ii)
			}
		}
		a := toBV(x, ii.w)
		b := sym.BVConst(uint64(yi), ii.w)
		if uint64(yi) >= uint64(ii.w) {
			if op == token.SHL || !ii.signed {
				return int64(0)
			}
			b = sym.BVConst(uint64(ii.w-1), ii.w)
		}
		switch {
		case op == token.SHL:
			return fromBV(sym.BVBin("bvshl", a, b), ii)
		case ii.signed:
			return fromBV(sym.BVBin("bvashr", a, b), ii)
		default:
			return fromBV(sym.BVBin("bvlshr", a, b), ii)
		}
	}
	panic(unsupported("shift by symbolic amount"))
}

// equals implements ==; the result is bool or a Bool term.
func (th *Thread) equals(x, y Value) Value {
	switch x := x.(type) {
	case nil:
		return isNilPtrLike(y)
	case bool:
		switch y := y.(type) {
		case bool:
			return x == y
		case *sym.Term:
			return fromBoolTerm(sym.Eq(sym.Bool(x), y))
		}
	case int64:
		switch y := y.(type) {
		case int64:
			return x == y
		case *sym.Term:
			return fromBoolTerm(sym.Eq(sym.BVConst(uint64(x), y.Sort.Width()), y))
		}
	case *sym.Term:
		switch y := y.(type) {
		case bool:
			return fromBoolTerm(sym.Eq(x, sym.Bool(y)))
		case int64:
			return fromBoolTerm(sym.Eq(x, sym.BVConst(uint64(y), x.Sort.Width())))
		case *sym.Term:
			return fromBoolTerm(sym.Eq(x, y))
		}
	case float64:
		return x == y.(float64)
	case string:
		switch y := y.(type) {
		case string:
			return x == y
		case *Rope:
			return ropeEq(ropeOf(x), y)
		}
	case *Rope:
		return ropeEq(x, ropeOf(y))
	case *Value:
		if y == nil {
			return x == nil
		}
		return x == y.(*Value)
	case []Value:
		if isNilPtrLike(y) {
			return x == nil
		}
	case *Map:
		if y == nil {
			return x == nil
		}
		return x == y.(*Map)
	case *Chan:
		if y == nil {
			return x == nil
		}
		return x == y.(*Chan)
	case *Closure:
		if isNilPtrLike(y) {
			return x == nil
		}
		if isNilPtrLike(x) {
			return false
		}
	case *ssa.Function:
		if isNilPtrLike(y) {
			return x == nil
		}
	case *ssa.Builtin, *HostFunc:
		if isNilPtrLike(y) {
			return false
		}
	case Iface:
		yi, ok := y.(Iface)
		if !ok {
			if y == nil {
				return x.T == nil
			}
			panic(fmt.Sprintf("equals: iface vs %T", y))
		}
		if x.T == nil || yi.T == nil {
			return x.T == nil && yi.T == nil
		}
		if !types.Identical(x.T, yi.T) {
			return false
		}
		if !types.Comparable(x.T) {
			panic(th.ex.in.runtimeError("comparing uncomparable type " + x.T.String()))
		}
		return th.equals(x.V, yi.V)
	case Struct:
		ys := y.(Struct)
		acc := sym.True
		for i := range x {
			e := th.equals(x[i], ys[i])
			switch e := e.(type) {
			case bool:
				if !e {
					return false
				}
			case *sym.Term:
				acc = sym.And(acc, e)
			}
		}
		return fromBoolTerm(acc)
	case Array:
		ys := y.(Array)
		acc := sym.True
		for i := range x {
			e := th.equals(x[i], ys[i])
			switch e := e.(type) {
			case bool:
				if !e {
					return false
				}
			case *sym.Term:
				acc = sym.And(acc, e)
			}
		}
		return fromBoolTerm(acc)
	case time.Time:
		return x == y.(time.Time)
	case Native:
		if yn, ok := y.(Native); ok {
			return x.X == yn.X
		}
		return false
	case *Mutex, *WaitGroup, *Once, *SyncMap, *Builder:
		return x == y
	case BigVal:
		yb := y.(BigVal)
		return fromBoolTerm(sym.Eq(x.Term(), yb.Term()))
	}
	panic(unsupported("equals %T vs %T", x, y))
}

func isDigitOrSign(b byte) bool { return b == '-' || b == '+' || (b >= '0' && b <= '9') }

// ropeEq compares two ropes; returns bool or term.
func ropeEq(a, b *Rope) Value {
	if !a.hasDec() && !b.hasDec() {
		ab, _ := a.bytes()
		bb, _ := b.bytes()
		if len(ab) != len(bb) {
			return false
		}
		acc := sym.True
		for i := range ab {
			x, y := toBV(ab[i], 8), toBV(bb[i], 8)
			acc = sym.And(acc, sym.Eq(x, y))
			if acc.IsFalse() {
				return false
			}
		}
		return fromBoolTerm(acc)
	}
	// With dec segments: align segment-wise. A dec segment is matched against a dec
	// segment (terms equal) or against a concrete canonical decimal string.
	if a.hasDec() && !b.hasDec() {
		a, b = b, a
	}
	// now b has dec; a may or may not.
	if !a.hasDec() {
		// a fully byte-level; only support a concrete.
		as, ok := normRope(a).(string)
		if !ok {
			panic(unsupported("rope equality: symbolic bytes vs dec"))
		}
		acc := sym.True
		rest := as
		for i, s := range b.Segs {
			switch {
			case s.D != nil:
				// take maximal run of [-0-9] unless next concrete seg starts with digit
				j := 0
				if j < len(rest) && rest[j] == '-' {
					j++
				}
				for j < len(rest) && rest[j] >= '0' && rest[j] <= '9' {
					j++
				}
				if i+1 < len(b.Segs) && b.Segs[i+1].D == nil && b.Segs[i+1].B == nil && len(b.Segs[i+1].S) > 0 && isDigitOrSign(b.Segs[i+1].S[0]) {
					panic(unsupported("rope equality: dec followed by digit"))
				}
				num := rest[:j]
				rest = rest[j:]
				v, ok := parseCanonicalDec(num)
				if !ok {
					return false
				}
				acc = sym.And(acc, sym.Eq(s.D, sym.IntConst(v)))
			case s.H != nil:
				return false
			case s.B != nil:
				if len(rest) == 0 {
					return false
				}
				acc = sym.And(acc, sym.Eq(s.B, sym.BVConst(uint64(rest[0]), 8)))
				rest = rest[1:]
			default:
				if !strings.HasPrefix(rest, s.S) {
					return false
				}
				rest = rest[len(s.S):]
			}
		}
		if rest != "" {
			return false
		}
		return fromBoolTerm(acc)
	}
	// both have dec: require identical segment structure
	if len(a.Segs) != len(b.Segs) {
		panic(unsupported("rope equality: different dec structure: %v vs %v", a, b))
	}
	acc := sym.True
	for i := range a.Segs {
		x, y := a.Segs[i], b.Segs[i]
		switch {
		case x.H != nil && y.H != nil:
			e := ropeEq(ropeOf(flattenChunks(x.H.chunks)), ropeOf(flattenChunks(y.H.chunks)))
			switch e := e.(type) {
			case bool:
				if !e {
					return false
				}
			case *sym.Term:
				acc = sym.And(acc, e)
			}
		case x.D != nil && y.D != nil:
			acc = sym.And(acc, sym.Eq(x.D, y.D))
		case x.B != nil && y.B != nil:
			acc = sym.And(acc, sym.Eq(x.B, y.B))
		case x.conc() && y.conc():
			if x.S != y.S {
				if t, ok := decSuffixEq(a, b, i); ok {
					return fromBoolTerm(sym.And(acc, t))
				}
				// structure differs only in concrete text; safe to say "not equal" when the
				// neighbours of every dec are non-digits on both sides
				if decNeighboursSafe(a) && decNeighboursSafe(b) {
					return false
				}
				panic(unsupported("rope equality: ambiguous alignment"))
			}
		default:
			panic(unsupported("rope equality: different dec structure: %v vs %v", a, b))
		}
	}
	return fromBoolTerm(acc)
}

func decNeighboursSafe(r *Rope) bool {
	for i, s := range r.Segs {
		if s.D == nil {
			continue
		}
		if i > 0 {
			p := r.Segs[i-1]
			if p.D != nil || p.B != nil || (len(p.S) > 0 && isDigitOrSign(p.S[len(p.S)-1])) {
				return false
			}
		}
		if i+1 < len(r.Segs) {
			n := r.Segs[i+1]
			if n.D != nil || n.B != nil || (len(n.S) > 0 && isDigitOrSign(n.S[0])) {
				return false
			}
		}
	}
	return true
}

func (th *Thread) conv(tDst, tSrc types.Type, x Value) Value {
	ud := tDst.Underlying()
	us := tSrc.Underlying()
	if _, ok := us.(*types.TypeParam); ok {
		panic(unsupported("conversion from type parameter"))
	}
	switch ud := ud.(type) {
	case *types.Pointer, *types.Signature, *types.Struct, *types.Map, *types.Chan, *types.Interface, *types.Array:
		return x
	case *types.Slice:
		if isString(tSrc) {
			eb, _ := ud.Elem().Underlying().(*types.Basic)
			if eb != nil && eb.Kind() == types.Uint8 {
				switch s := x.(type) {
				case string:
					out := make([]Value, len(s))
					for i := 0; i < len(s); i++ {
						out[i] = int64(s[i])
					}
					return out
				case *Rope:
					bs, ok := s.bytes()
					if !ok {
						// keep the rope inside a one-element marker slice is unsound; refuse
						panic(unsupported("[]byte(rope with dec segment)"))
					}
					return bs
				}
			}
			if eb != nil && eb.Kind() == types.Int32 {
				s, ok := x.(string)
				if !ok {
					panic(unsupported("[]rune(symbolic string)"))
				}
				var out []Value
				for _, r := range s {
					out = append(out, int64(r))
				}
				if out == nil {
					out = []Value{}
				}
				return out
			}
		}
		return x
	case *types.Basic:
		if ud.Kind() == types.UnsafePointer {
			if _, ok := us.(*types.Pointer); ok {
				return x
			}
			panic(unsupported("conversion to unsafe.Pointer"))
		}
		if ud.Info()&types.IsString != 0 {
			switch us := us.(type) {
			case *types.Basic:
				if us.Info()&types.IsString != 0 {
					return x
				}
				if us.Info()&types.IsInteger != 0 {
					i := th.concInt(x, "string(int)")
					return string(rune(i))
				}
			case *types.Slice:
				eb := us.Elem().Underlying().(*types.Basic)
				xs := x.([]Value)
				if eb.Kind() == types.Uint8 {
					return ropeFromBytes(xs)
				}
				var sb strings.Builder
				for _, r := range xs {
					sb.WriteRune(rune(th.concInt(r, "rune")))
				}
				return sb.String()
			}
			panic(unsupported("conversion %v -> string", tSrc))
		}
		if dii, ok := basicIntInfo(ud.Kind()); ok {
			if sii, ok := intInfoOf(tSrc); ok {
				switch x := x.(type) {
				case int64:
					return normInt(x, dii)
				case *sym.Term:
					return fromBV(sym.BVResize(x, dii.w, sii.signed), dii)
				}
			}
			if isFloat(tSrc) {
				f := x.(float64)
				if dii.signed {
					return normInt(int64(f), dii)
				}
				return normInt(int64(uint64(f)), dii)
			}
			if sb, ok := us.(*types.Basic); ok && sb.Kind() == types.UnsafePointer {
				panic(unsupported("uintptr(unsafe.Pointer)"))
			}
		}
		if ud.Info()&types.IsFloat != 0 {
			if sii, ok := intInfoOf(tSrc); ok {
				i := th.concInt(x, "float(int)")
				var f float64
				if sii.signed {
					f = float64(i)
				} else {
					f = float64(uint64(i))
				}
				if ud.Kind() == types.Float32 {
					return float64(float32(f))
				}
				return f
			}
			if isFloat(tSrc) {
				f := x.(float64)
				if ud.Kind() == types.Float32 {
					return float64(float32(f))
				}
				return f
			}
		}
		if ud.Info()&types.IsBoolean != 0 {
			return x
		}
	}
	panic(unsupported("conversion %v -> %v", tSrc, tDst))
}

func (th *Thread) sliceOp(instr *ssa.Slice, x, lo, hi, max Value) Value {
	in := th.ex.in
	var l, h, m int64
	l = 0
	if lo != nil {
		l = th.concInt(lo, "slice low")
	}
	switch x := x.(type) {
	case string:
		h = int64(len(x))
		if hi != nil {
			h = th.concInt(hi, "slice high")
		}
		if l < 0 || h < l || h > int64(len(x)) {
			panic(in.runtimeError(fmt.Sprintf("slice bounds out of range [%d:%d] with length %d", l, h, len(x))))
		}
		return x[l:h]
	case *Rope:
		bs, ok := x.bytes()
		if !ok {
			panic(unsupported("slicing rope with dec segment"))
		}
		h = int64(len(bs))
		if hi != nil {
			h = th.concInt(hi, "slice high")
		}
		if l < 0 || h < l || h > int64(len(bs)) {
			panic(in.runtimeError("slice bounds out of range"))
		}
		return ropeFromBytes(bs[l:h])
	case []Value:
		h = int64(len(x))
		if hi != nil {
			h = th.concInt(hi, "slice high")
		}
		m = int64(cap(x))
		if max != nil {
			m = th.concInt(max, "slice max")
		}
		if l < 0 || h < l || m < h || m > int64(cap(x)) {
			panic(in.runtimeError(fmt.Sprintf("slice bounds out of range [%d:%d:%d] with capacity %d", l, h, m, cap(x))))
		}
		if x == nil {
			return x
		}
		return x[l:h:m]
	case *Value:
		if x == nil {
			panic(in.runtimeError("invalid memory address or nil pointer dereference"))
		}
		a := []Value((*x).(Array))
		h = int64(len(a))
		if hi != nil {
			h = th.concInt(hi, "slice high")
		}
		m = int64(len(a))
		if max != nil {
			m = th.concInt(max, "slice max")
		}
		if l < 0 || h < l || m < h || m > int64(len(a)) {
			panic(in.runtimeError("slice bounds out of range"))
		}
		return a[l:h:m]
	}
	panic(fmt.Sprintf("slice: unexpected X type: %T", x))
}

// ---------- maps ----------

// findEntry locates the entry for key k, forking on symbolic comparisons.
func (th *Thread) findEntry(m *Map, k Value) *mapEntry {
	if hk, ok := hashKey(k); ok {
		if e, ok := m.idx[hk]; ok && !e.deleted {
			return e
		}
		// compare against entries with symbolic keys
		for _, e := range m.entries {
			if e.deleted {
				continue
			}
			if _, conc := hashKey(e.k); conc {
				continue
			}
			if th.branch(th.equals(k, e.k)) {
				return e
			}
		}
		return nil
	}
	for _, e := range m.entries {
		if e.deleted {
			continue
		}
		if th.branch(th.equals(k, e.k)) {
			return e
		}
	}
	return nil
}

func (th *Thread) lookup(instr *ssa.Lookup, x, idx Value) Value {
	in := th.ex.in
	switch x := x.(type) {
	case *Map:
		var v Value
		ok := false
		if x != nil {
			if e := th.findEntry(x, idx); e != nil {
				v, ok = copyVal(e.v), true
			}
		}
		if !ok {
			v = in.zero(instr.X.Type().Underlying().(*types.Map).Elem())
		}
		if instr.CommaOk {
			return Tuple{v, ok}
		}
		return v
	case string:
		i := th.index(idx, len(x))
		return int64(x[i])
	case *Rope:
		bs, ok := x.bytes()
		if !ok {
			panic(unsupported("index into rope with dec"))
		}
		i := th.index(idx, len(bs))
		return bs[i]
	}
	panic(fmt.Sprintf("unexpected x type in Lookup: %T", x))
}

func (th *Thread) mapUpdate(m *Map, k, v Value) {
	if e := th.findEntry(m, k); e != nil {
		e.v = v
		return
	}
	e := &mapEntry{k: k, v: v}
	m.entries = append(m.entries, e)
	m.live++
	if hk, ok := hashKey(k); ok {
		m.idx[hk] = e
	}
}

func (th *Thread) mapDelete(m *Map, k Value) {
	if m == nil {
		return
	}
	if e := th.findEntry(m, k); e != nil {
		e.deleted = true
		m.live--
		if hk, ok := hashKey(e.k); ok {
			delete(m.idx, hk)
		}
	}
}

// ---------- type assertions ----------

func (th *Thread) implements(t types.Type, it *types.Interface) bool {
	return types.Implements(t, it)
}

func (th *Thread) typeAssert(instr *ssa.TypeAssert, itf Iface) Value {
	in := th.ex.in
	var v Value
	err := ""
	if idst, ok := instr.AssertedType.Underlying().(*types.Interface); ok {
		v = itf
		if itf.T == nil {
			err = fmt.Sprintf("interface conversion: interface is nil, not %s", instr.AssertedType)
		} else if !th.implements(itf.T, idst) {
			err = fmt.Sprintf("interface conversion: %v is not %v: missing method", itf.T, instr.AssertedType)
		}
	} else if itf.T != nil && types.Identical(itf.T, instr.AssertedType) {
		v = itf.V
	} else {
		err = fmt.Sprintf("interface conversion: interface is %v, not %v", itf.T, instr.AssertedType)
	}
	if err != "" {
		if !instr.CommaOk {
			panic(in.runtimeError(err))
		}
		return Tuple{in.zero(instr.AssertedType), false}
	}
	if instr.CommaOk {
		return Tuple{v, true}
	}
	return v
}

// ---------- range ----------

type iter interface {
	next(th *Thread) Tuple
}

type stringIter struct {
	s string
	i int
}

func (it *stringIter) next(th *Thread) Tuple {
	if it.i >= len(it.s) {
		return Tuple{false, int64(0), int64(0)}
	}
	r, n := utf8.DecodeRuneInString(it.s[it.i:])
	i := it.i
	it.i += n
	return Tuple{true, int64(i), int64(r)}
}

// ropeIter iterates a rope whose symbolic bytes are assumed (and constrained) to be ASCII.
type ropeIter struct {
	bs []Value
	i  int
}

func (it *ropeIter) next(th *Thread) Tuple {
	if it.i >= len(it.bs) {
		return Tuple{false, int64(0), int64(0)}
	}
	b := it.bs[it.i]
	i := it.i
	it.i++
	switch b := b.(type) {
	case int64:
		if b >= 0x80 {
			panic(unsupported("range over rope with non-ASCII concrete byte"))
		}
		return Tuple{true, int64(i), b}
	case *sym.Term:
		// restrict to ASCII on this path (recorded as an assumption)
		th.ex.assume(sym.BVCmp("bvult", b, sym.BVConst(0x80, 8)), "range over symbolic string: bytes assumed ASCII")
		return Tuple{true, int64(i), fromBV(sym.BVResize(b, 32, false), intInfo{32, true})}
	}
	panic("ropeIter")
}

type mapIter struct {
	m *Map
	i int
}

func (it *mapIter) next(th *Thread) Tuple {
	if it.m != nil {
		for it.i < len(it.m.entries) {
			e := it.m.entries[it.i]
			it.i++
			if !e.deleted {
				return Tuple{true, e.k, copyVal(e.v)}
			}
		}
	}
	return Tuple{false, nil, nil}
}

func (th *Thread) rangeIter(x Value, t types.Type) iter {
	switch x := x.(type) {
	case *Map:
		if th.ex.cfg.ReverseMaps && x != nil {
			// second determinisation: iterate a reversed snapshot
			r := &Map{idx: x.idx}
			for i := len(x.entries) - 1; i >= 0; i-- {
				r.entries = append(r.entries, x.entries[i])
			}
			return &mapIter{m: r}
		}
		return &mapIter{m: x}
	case string:
		return &stringIter{s: x}
	case *Rope:
		bs, ok := x.bytes()
		if !ok {
			panic(unsupported("range over rope with dec segment"))
		}
		return &ropeIter{bs: bs}
	}
	panic(fmt.Sprintf("cannot range over %T", x))
}

// ---------- builtins ----------

var sizeClasses = []int{0, 8, 16, 24, 32, 48, 64, 80, 96, 112, 128, 144, 160, 176, 192, 208, 224, 240, 256, 288, 320, 352, 384, 416, 448, 480, 512, 576, 640, 704, 768, 896, 1024, 1152, 1280, 1408, 1536, 1792, 2048, 2304, 2688, 3072, 3200, 3456, 4096, 4864, 5120, 5376, 6144, 6528, 6784, 6912, 8192, 9472, 9728, 10240, 10880, 12288, 13568, 14336, 16384, 18432, 19072, 20480, 21760, 24576, 27264, 28672, 32768}

func roundupsize(n int) int {
	if n <= 32768 {
		for _, c := range sizeClasses {
			if c >= n {
				return c
			}
		}
	}
	const page = 8192
	return (n + page - 1) / page * page
}

// growCap mirrors runtime.growslice's capacity computation.
func growCap(oldCap, newLen, elemSize int) int {
	newcap := oldCap
	doublecap := newcap + newcap
	if newLen > doublecap {
		newcap = newLen
	} else {
		const threshold = 256
		if oldCap < threshold {
			newcap = doublecap
		} else {
			for {
				newcap += (newcap + 3*threshold) >> 2
				if uint(newcap) >= uint(newLen) {
					break
				}
			}
		}
	}
	if elemSize == 0 {
		return newcap
	}
	mem := roundupsize(newcap * elemSize)
	return mem / elemSize
}

func (th *Thread) appendVals(t types.Type, s []Value, extra []Value) []Value {
	if len(extra) == 0 {
		return s
	}
	n := len(s) + len(extra)
	if n <= cap(s) {
		out := s[:n]
		for i, e := range extra {
			out[len(s)+i] = copyVal(e)
		}
		return out
	}
	es := 8
	if sl, ok := t.Underlying().(*types.Slice); ok {
		es = int(th.ex.in.sizes.Sizeof(sl.Elem()))
	}
	nc := growCap(cap(s), n, es)
	out := make([]Value, n, nc)
	copy(out, s)
	for i, e := range extra {
		out[len(s)+i] = copyVal(e)
	}
	// zero-fill spare capacity lazily: entries beyond len are nil until written via
	// reslicing; fill with zero values of the element type to keep loads well-typed.
	if sl, ok := t.Underlying().(*types.Slice); ok {
		full := out[:nc]
		for i := n; i < nc; i++ {
			full[i] = th.ex.in.zero(sl.Elem())
		}
	}
	return out
}

func (th *Thread) callBuiltin(caller *frame, pos token.Pos, fn *ssa.Builtin, args []Value) Value {
	in := th.ex.in
	switch fn.Name() {
	case "append":
		if len(args) == 1 {
			return args[0]
		}
		s, _ := args[0].([]Value)
		var extra []Value
		switch e := args[1].(type) {
		case []Value:
			extra = e
		case string:
			extra = make([]Value, len(e))
			for i := 0; i < len(e); i++ {
				extra[i] = int64(e[i])
			}
		case *Rope:
			bs, ok := e.bytes()
			if !ok {
				panic(unsupported("append([]byte, rope with dec)"))
			}
			extra = bs
		}
		sig := fn.Type().(*types.Signature)
		var t types.Type
		if sig.Params().Len() > 0 {
			t = sig.Params().At(0).Type()
		}
		if t == nil {
			t = types.NewSlice(types.Typ[types.Int])
		}
		r := th.appendVals(t, s, extra)
		if r == nil && extra != nil && s != nil {
			r = s
		}
		return r

	case "copy":
		dst := args[0].([]Value)
		var src []Value
		switch s := args[1].(type) {
		case []Value:
			src = s
		case string:
			src = make([]Value, len(s))
			for i := 0; i < len(s); i++ {
				src[i] = int64(s[i])
			}
		case *Rope:
			bs, ok := s.bytes()
			if !ok {
				panic(unsupported("copy from rope with dec"))
			}
			src = bs
		}
		n := len(dst)
		if len(src) < n {
			n = len(src)
		}
		tmp := make([]Value, n)
		for i := 0; i < n; i++ {
			tmp[i] = copyVal(src[i])
		}
		copy(dst, tmp)
		return int64(n)

	case "close":
		th.chanClose(args[0].(*Chan))
		return nil

	case "delete":
		th.mapDelete(args[0].(*Map), args[1])
		return nil

	case "clear":
		switch x := args[0].(type) {
		case *Map:
			if x != nil {
				for _, e := range x.entries {
					e.deleted = true
				}
				x.entries = nil
				x.idx = map[interface{}]*mapEntry{}
				x.live = 0
			}
		default:
			panic(unsupported("clear(%T)", x))
		}
		return nil

	case "print", "println":
		return nil

	case "len":
		switch x := args[0].(type) {
		case string:
			return int64(len(x))
		case *Rope:
			n, ok := x.byteLen()
			if !ok {
				panic(unsupported("len of rope with dec segment"))
			}
			return int64(n)
		case Array:
			return int64(len(x))
		case *Value:
			if x == nil {
				return int64(0)
			}
			return int64(len((*x).(Array)))
		case []Value:
			return int64(len(x))
		case *Map:
			if x == nil {
				return int64(0)
			}
			return int64(x.Len())
		case *Chan:
			if x == nil {
				return int64(0)
			}
			return int64(len(x.buf))
		}
		panic(fmt.Sprintf("len: illegal operand: %T", args[0]))

	case "cap":
		switch x := args[0].(type) {
		case Array:
			return int64(len(x))
		case *Value:
			return int64(len((*x).(Array)))
		case []Value:
			return int64(cap(x))
		case *Chan:
			if x == nil {
				return int64(0)
			}
			return int64(x.cap)
		}
		panic(fmt.Sprintf("cap: illegal operand: %T", args[0]))

	case "min", "max":
		best := args[0]
		for _, a := range args[1:] {
			switch b := best.(type) {
			case int64:
				ai, ok := a.(int64)
				if !ok {
					panic(unsupported("min/max symbolic"))
				}
				if (fn.Name() == "min" && ai < b) || (fn.Name() == "max" && ai > b) {
					best = ai
				}
			case float64:
				af := a.(float64)
				if fn.Name() == "min" {
					best = math.Min(b, af)
				} else {
					best = math.Max(b, af)
				}
			case string:
				as := a.(string)
				if (fn.Name() == "min" && as < b) || (fn.Name() == "max" && as > b) {
					best = as
				}
			default:
				panic(unsupported("min/max on %T", best))
			}
		}
		return best

	case "panic":
		panic(TargetPanic{args[0]})

	case "recover":
		return th.doRecover(caller)

	case "ssa:wrapnilchk":
		recv := args[0]
		if p, ok := recv.(*Value); ok && p == nil {
			panic(in.runtimeError(fmt.Sprintf("value method %s.%s called using nil *%s pointer", describe(args[1]), describe(args[2]), describe(args[1]))))
		}
		return recv
	}
	panic(unsupported("builtin %s", fn.Name()))
}


// decDigitsBound is the number of decimal digits up to which "text+dec(a) == text+digits+dec(b)"
// is decided exactly; beyond it the comparison is not supported.
const decDigitsBound = 40

// decSuffixEq decides ropes of the shape  P·dec(a)·T  ==  P·R·dec(b)·T  (or the mirror
// image), where the concrete segments at index i differ only by a run of digits R that
// one side has in front of its dec segment: dec(a) = R ++ dec(b)  ⇔  b ≥ 0, R has no
// leading zero, and a = val(R)·10^k + b for the number k of digits of b.
func decSuffixEq(a, b *Rope, i int) (*sym.Term, bool) {
	if i+1 >= len(a.Segs) || i+1 >= len(b.Segs) || a.Segs[i+1].D == nil || b.Segs[i+1].D == nil {
		return nil, false
	}
	// everything after the dec segments must be pairwise identical concrete text
	for j := i + 2; j < len(a.Segs); j++ {
		if j >= len(b.Segs) || !a.Segs[j].conc() || !b.Segs[j].conc() || a.Segs[j].S != b.Segs[j].S {
			return nil, false
		}
	}
	if len(a.Segs) != len(b.Segs) {
		return nil, false
	}
	sa, sb := a.Segs[i].S, b.Segs[i].S
	da, db := a.Segs[i+1].D, b.Segs[i+1].D
	if len(sa) > len(sb) {
		sa, sb = sb, sa
		da, db = db, da
	}
	// now sb = sa + R ?
	if !strings.HasPrefix(sb, sa) {
		return sym.False, true
	}
	r := sb[len(sa):]
	for k := 0; k < len(r); k++ {
		if r[k] < '0' || r[k] > '9' {
			return sym.False, true
		}
	}
	if r == "" {
		return nil, false
	}
	if r[0] == '0' {
		return sym.False, true // dec() never has a leading zero followed by more digits
	}
	rv, _ := new(big.Int).SetString(r, 10)
	zero := sym.Int64Const(0)
	alts := sym.False
	pow := big.NewInt(1) // 10^(k-1)
	for k := 1; k <= decDigitsBound; k++ {
		next := new(big.Int).Mul(pow, big.NewInt(10)) // 10^k
		var inRange *sym.Term
		if k == 1 {
			inRange = sym.And(sym.ILe(zero, db), sym.ILt(db, sym.IntConst(next)))
		} else {
			inRange = sym.And(sym.ILe(sym.IntConst(pow), db), sym.ILt(db, sym.IntConst(next)))
		}
		val := sym.IAdd(sym.IntConst(new(big.Int).Mul(rv, next)), db)
		alts = sym.Or(alts, sym.And(inRange, sym.Eq(da, val)))
		pow = next
	}
	// beyond the bound the comparison is undecided: refuse rather than guess
	big40 := sym.IntConst(pow)
	_ = big40
	return alts, true
}
