package interp

import (
	"fmt"
	"sort"
	"sync"
	"sync/atomic"
	"time"

	"golang.org/x/tools/go/ssa"

	"symgo/smt"
)

// Job is one harness invocation to explore exhaustively.
type Job struct {
	Harness string
	Fn      *ssa.Function
	Args    []Value
	Shape   int
	Cfg     Config
	Canary  bool
}

// JobResult aggregates all paths of a job.
type JobResult struct {
	Job         *Job
	Paths       int
	Decisions   int
	Outcomes    map[string]int
	Violations  []*Violation
	Inconcl     []string
	Unsupported map[string]int
	Reached     map[string]int
	Assumes     map[string]int
	Steps       int64
	Asserts     int
	AssertsSym  int
	Stubs       map[string]int
	Witnesses   []Witness
	MaxPC       int
	Truncated   bool
	Msgs        map[string]int
}

// Witness is a model of one completed path with what the engine observed on it.
type Witness struct {
	Model   map[string]string
	Reached []string
	Notes   []string
	Sched   []SchedStep
}

// Explorer runs jobs on a pool of workers, each with its own solver.
type Explorer struct {
	In         *Interp
	Workers    int
	SolverKind string
	TimeoutMs  int
	MaxPaths   int // per job
	MaxWitnesses int // per job
	Fallbacks  []string
	FallbackStats map[string]int
	Stats      smt.Stats
	statsMu    sync.Mutex
	Deadline   time.Time
}

type workItem struct {
	job    *Job
	prefix []int
}

func newJobResult(j *Job) *JobResult {
	return &JobResult{Job: j, Outcomes: map[string]int{}, Unsupported: map[string]int{}, Reached: map[string]int{},
		Assumes: map[string]int{}, Stubs: map[string]int{}, Msgs: map[string]int{}}
}

// Run explores all jobs; results are returned in job order.
func (e *Explorer) Run(jobs []*Job) []*JobResult {
	results := make([]*JobResult, len(jobs))
	idx := map[*Job]int{}
	for i, j := range jobs {
		results[i] = newJobResult(j)
		idx[j] = i
	}
	var mu sync.Mutex
	cond := sync.NewCond(&mu)
	var stack []workItem
	for i := len(jobs) - 1; i >= 0; i-- {
		stack = append(stack, workItem{jobs[i], nil})
	}
	active := 0
	var wg sync.WaitGroup
	var pathCount int64
	for w := 0; w < e.Workers; w++ {
		wg.Add(1)
		go func() {
			defer wg.Done()
			solver, err := smt.New(e.SolverKind, e.TimeoutMs)
			if err != nil {
				panic(err)
			}
			solver.Fallbacks = e.Fallbacks
			defer func() {
				e.statsMu.Lock()
				e.Stats.Queries += solver.Stats.Queries
				e.Stats.Sat += solver.Stats.Sat
				e.Stats.Unsat += solver.Stats.Unsat
				e.Stats.Unknown += solver.Stats.Unknown
				e.Stats.Errors += solver.Stats.Errors
				e.Stats.SolverNs += solver.Stats.SolverNs
				if e.FallbackStats == nil {
					e.FallbackStats = map[string]int{}
				}
				for k, n := range solver.FallbackStats {
					e.FallbackStats[k] += n
				}
				e.statsMu.Unlock()
				solver.Close()
			}()
			for {
				mu.Lock()
				for len(stack) == 0 && active > 0 {
					cond.Wait()
				}
				if len(stack) == 0 {
					mu.Unlock()
					cond.Broadcast()
					return
				}
				it := stack[len(stack)-1]
				stack = stack[:len(stack)-1]
				active++
				mu.Unlock()

				jr := results[idx[it.job]]
				var res *PathResult
				skip := false
				mu.Lock()
				if e.MaxPaths > 0 && jr.Paths >= e.MaxPaths {
					jr.Truncated = true
					skip = true
				}
				if !e.Deadline.IsZero() && time.Now().After(e.Deadline) {
					jr.Truncated = true
					skip = true
				}
				mu.Unlock()
				if !skip {
					cfg := it.job.Cfg
					wantW := atomic.AddInt64(&pathCount, 1)%7 == 1
					res = e.In.runPathCanary(cfg, solver, it.job, it.prefix, wantW)
				}

				mu.Lock()
				if res != nil {
					jr.Paths++
					jr.Decisions += len(res.Trace)
					jr.Outcomes[res.Outcome.String()]++
					if res.Outcome == OutUnsupported {
						jr.Unsupported[res.Msg]++
					} else if res.Outcome != OutOK && res.Outcome != OutAssumeFalse && res.Outcome != OutStop {
						jr.Msgs[res.Outcome.String()+": "+res.Msg]++
					}
					for _, v := range res.Violations {
						v.Shape = it.job.Shape
						v.Harness = it.job.Harness
						jr.Violations = append(jr.Violations, v)
					}
					jr.Inconcl = append(jr.Inconcl, res.Inconcl...)
					for k := range res.Reached {
						jr.Reached[k]++
					}
					for k, n := range res.Assumes {
						jr.Assumes[k] += n
					}
					for k, n := range res.Stubs {
						jr.Stubs[k] += n
					}
					jr.Steps += int64(res.Steps)
					jr.Asserts += res.Asserts
					jr.AssertsSym += res.AssertsSym
					if res.PCSize > jr.MaxPC {
						jr.MaxPC = res.PCSize
					}
					if res.Witness != nil && len(jr.Witnesses) < e.MaxWitnesses {
						var reached []string
						for k := range res.Reached {
							reached = append(reached, k)
						}
						sort.Strings(reached)
						jr.Witnesses = append(jr.Witnesses, Witness{Model: res.Witness, Reached: reached, Notes: res.Notes, Sched: res.Sched})
					}
					for _, f := range res.Forks {
						stack = append(stack, workItem{it.job, f})
					}
				}
				active--
				mu.Unlock()
				cond.Broadcast()
			}
		}()
	}
	wg.Wait()
	return results
}

func (in *Interp) runPathCanary(cfg Config, solver *smt.Solver, job *Job, prefix []int, wantW bool) *PathResult {
	return in.runPath(cfg, solver, job.Fn, job.Args, prefix, wantW, job.Canary)
}

// Summary renders a JobResult compactly.
func (jr *JobResult) Summary() string {
	var ks []string
	for k, n := range jr.Outcomes {
		ks = append(ks, fmt.Sprintf("%s=%d", k, n))
	}
	sort.Strings(ks)
	return fmt.Sprintf("%s[%d]: paths=%d %v viol=%d inconcl=%d", jr.Job.Harness, jr.Job.Shape, jr.Paths, ks, len(jr.Violations), len(jr.Inconcl))
}

// EvalString runs fn(arg) concretely and returns its string result.
func (in *Interp) EvalString(fn *ssa.Function, arg int) (string, error) {
	v, err := in.eval(fn, []Value{int64(arg)})
	if err != nil {
		return "", err
	}
	s, ok := v.(string)
	if !ok {
		return "", fmt.Errorf("not a string: %T", v)
	}
	return s, nil
}

// EvalInt runs a niladic function concretely and returns its integer result.
func (in *Interp) EvalInt(fn *ssa.Function) (int, error) {
	out, err := in.eval(fn, nil)
	if err != nil {
		return 0, err
	}
	i, ok := out.(int64)
	if !ok {
		return 0, fmt.Errorf("not an int: %T", out)
	}
	return int(i), nil
}

func (in *Interp) eval(fn *ssa.Function, args []Value) (Value, error) {
	ex := newExec(in, Config{MaxSteps: 5_000_000}, nil)
	ex.concreteOnly = true
	var out Value
	host := &HostFunc{Name: "eval", F: func(th *Thread, _ []Value) Value {
		out = th.call(nil, 0, fn, args)
		return nil
	}}
	main := ex.newThread("eval")
	ex.cur = main
	ex.wg.Add(1)
	go ex.threadMain(main, host, nil, true)
	main.wake <- struct{}{}
	<-ex.done
	ex.wg.Wait()
	if ex.outcome != OutOK {
		return nil, fmt.Errorf("%v: %s", ex.outcome, ex.outMsg)
	}
	return out, nil
}
