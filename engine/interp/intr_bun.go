package interp

// An abstract table behind *bun.SelectQuery for the pagination harnesses: rows are ids
// x1 < x2 < ... (Int terms); Where/OrderExpr/Offset/Limit/Scan have their SQL meaning.
// Everything else of bun is not modelled.

import (
	"fmt"
	"go/types"
	"reflect"
	"regexp"
	"strings"

	"golang.org/x/tools/go/ssa"

	"symgo/sym"
)

type absWhere struct {
	op  string
	val *sym.Term
}

type AbsQuery struct {
	rows   []*sym.Term // ascending
	wheres []absWhere
	desc   bool
	limit  Value // nil = none
	offset Value
}

const bunPaginatePkg = "github.com/formancehq/stack/libs/go-libs/bun/bunpaginate"

var absWhereRe = regexp.MustCompile(`^\s*"?(\w+)"?\s*(>=|<=|>|<|=)\s*\?\s*$`)

func init() {
	extraRegs = append(extraRegs, func(in *Interp) {
		qOf := func(th *Thread, v Value) *AbsQuery {
			p, ok := v.(*Value)
			if !ok || p == nil {
				panic(th.ex.in.runtimeError("invalid memory address or nil pointer dereference"))
			}
			n, ok := (*p).(Native)
			if !ok {
				panic(unsupported("bun.SelectQuery that was not built by zzTable"))
			}
			return n.X.(*AbsQuery)
		}
		in.reg(bunPaginatePkg+".zzTable", func(th *Thread, fn *ssa.Function, a []Value) Value {
			ids, _ := a[0].([]Value)
			q := &AbsQuery{}
			for _, id := range ids {
				q.rows = append(q.rows, bigArg(th, id).Term())
			}
			th.stub("bun.SelectQuery: abstract ordered table")
			return ptrTo(Native{q})
		})
		sq := "(*github.com/uptrace/bun.SelectQuery)."
		in.reg(sq+"Limit", func(th *Thread, fn *ssa.Function, a []Value) Value {
			qOf(th, a[0]).limit = a[1]
			return a[0]
		})
		in.reg(sq+"Offset", func(th *Thread, fn *ssa.Function, a []Value) Value {
			qOf(th, a[0]).offset = a[1]
			return a[0]
		})
		in.reg(sq+"OrderExpr", func(th *Thread, fn *ssa.Function, a []Value) Value {
			s := strings.ToUpper(th.str(a[1], "order expression"))
			qOf(th, a[0]).desc = strings.HasSuffix(strings.TrimSpace(s), "DESC")
			return a[0]
		})
		in.reg(sq+"Where", func(th *Thread, fn *ssa.Function, a []Value) Value {
			q := qOf(th, a[0])
			m := absWhereRe.FindStringSubmatch(th.str(a[1], "where clause"))
			args, _ := a[2].([]Value)
			if m == nil || len(args) != 1 {
				panic(unsupported("abstract table: where clause %v", a[1]))
			}
			it := args[0].(Iface)
			var val *sym.Term
			switch x := it.V.(type) {
			case *Value:
				if x == nil {
					panic(unsupported("abstract table: nil argument in where"))
				}
				val = (*x).(BigVal).Term()
			default:
				panic(unsupported("abstract table: where argument %T", it.V))
			}
			q.wheres = append(q.wheres, absWhere{m[2], val})
			return a[0]
		})
		in.reg(sq+"Scan", func(th *Thread, fn *ssa.Function, a []Value) Value {
			q := qOf(th, a[0])
			dests, _ := a[2].([]Value)
			if len(dests) != 1 {
				panic(unsupported("abstract table: Scan with %d destinations", len(dests)))
			}
			dit := dests[0].(Iface)
			dp := dit.V.(*Value)
			st, ok := deref(dit.T).Underlying().(*types.Slice)
			if !ok {
				panic(unsupported("abstract table: Scan into %v", dit.T))
			}
			rows := append([]*sym.Term(nil), q.rows...)
			for _, w := range q.wheres {
				var keep []*sym.Term
				for _, r := range rows {
					var c *sym.Term
					switch w.op {
					case ">=":
						c = sym.IGe(r, w.val)
					case "<=":
						c = sym.ILe(r, w.val)
					case ">":
						c = sym.IGt(r, w.val)
					case "<":
						c = sym.ILt(r, w.val)
					case "=":
						c = sym.Eq(r, w.val)
					}
					if th.branch(fromBoolTerm(c)) {
						keep = append(keep, r)
					}
				}
				rows = keep
			}
			if q.desc {
				for i, j := 0, len(rows)-1; i < j; i, j = i+1, j-1 {
					rows[i], rows[j] = rows[j], rows[i]
				}
			}
			// how many rows does a (possibly symbolic) count let through. bun keeps LIMIT and
			// OFFSET as int32 and writes the clause only when the value is positive.
			clamp := func(v Value, n int, absent int, what string) int {
				switch x := v.(type) {
				case nil:
					return absent
				case int64:
					x = int64(int32(x))
					if x <= 0 {
						return absent
					}
					if x > int64(n) {
						return n
					}
					return int(x)
				case *sym.Term:
					x = sym.BVResize(sym.BVResize(x, 32, false), 64, true)
					var cons []*sym.Term
					var res []int
					cons, res = append(cons, sym.BVCmp("bvsle", x, sym.BVConst(0, 64))), append(res, absent)
					for k := 1; k < n; k++ {
						cons, res = append(cons, sym.Eq(x, sym.BVConst(uint64(k), 64))), append(res, k)
					}
					lo := n
					if lo < 1 {
						lo = 1
					}
					cons, res = append(cons, sym.BVCmp("bvsle", sym.BVConst(uint64(lo), 64), x)), append(res, n)
					return res[th.ex.decide("sqlcount", len(cons), cons, what)]
				}
				panic("clamp")
			}
			off := 0
			if q.offset != nil {
				off = clamp(q.offset, len(rows), 0, "OFFSET")
			}
			rows = rows[off:]
			lim := clamp(q.limit, len(rows), len(rows), "LIMIT")
			rows = rows[:lim]
			// build entities
			et := st.Elem()
			est, ok := et.Underlying().(*types.Struct)
			if !ok {
				panic(unsupported("abstract table: row type %v", et))
			}
			col := -1
			for i := 0; i < est.NumFields(); i++ {
				tag := reflect.StructTag(est.Tag(i)).Get("bun")
				if strings.Split(tag, ",")[0] == "id" {
					col = i
				}
			}
			if col < 0 {
				panic(unsupported("abstract table: row type %v has no bun:\"id\" field", et))
			}
			out := make([]Value, len(rows))
			for i, r := range rows {
				e := in.zero(et).(Struct)
				e[col] = ptrTo(bigOf(r))
				out[i] = e
			}
			*dp = out
			return Iface{}
		})
		// reflect.Type.Field(i) -> reflect.StructField (Name and Tag are filled)
		in.reg("(*reflect.rtype).Field", func(th *Thread, fn *ssa.Function, a []Value) Value {
			t := typeOfRtype(Iface{T: types.Typ[types.Int], V: a[0]})
			st := t.Underlying().(*types.Struct)
			i := int(th.concInt(a[1], "field index"))
			sft := in.Prog.ImportedPackage("reflect").Type("StructField").Type()
			sf := in.zero(sft).(Struct)
			sfs := sft.Underlying().(*types.Struct)
			for k := 0; k < sfs.NumFields(); k++ {
				switch sfs.Field(k).Name() {
				case "Name":
					sf[k] = st.Field(i).Name()
				case "Tag":
					sf[k] = st.Tag(i)
				case "Type":
					sf[k] = in.rtypeOf(st.Field(i).Type())
				case "Anonymous":
					sf[k] = st.Field(i).Embedded()
				}
			}
			return sf
		})
		in.reg("(reflect.StructTag).Get", func(th *Thread, fn *ssa.Function, a []Value) Value {
			return reflect.StructTag(th.str(a[0], "struct tag")).Get(th.str(a[1], "tag key"))
		})
		in.reg("(reflect.StructTag).Lookup", func(th *Thread, fn *ssa.Function, a []Value) Value {
			v, ok := reflect.StructTag(th.str(a[0], "struct tag")).Lookup(th.str(a[1], "tag key"))
			return Tuple{v, ok}
		})
	})
}

var _ = fmt.Sprint
