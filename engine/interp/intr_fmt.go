package interp

import (
	"fmt"
	"go/types"
	"sort"
	"strconv"
	"strings"
	"time"

	"golang.org/x/tools/go/ssa"

	"symgo/sym"
)

// tryErrorString calls Error() or String() on it, if present.
func (th *Thread) tryErrorString(it Iface) (string, bool) {
	v, ok := th.tryStringer(it)
	if !ok {
		return "", false
	}
	return th.describeStr(v), true
}

func (th *Thread) tryStringer(it Iface) (Value, bool) {
	in := th.ex.in
	if it.T == nil {
		return nil, false
	}
	for _, name := range []string{"Error", "String"} {
		if m := in.methodOf(it.T, name); m != nil {
			sig := m.Signature
			if sig.Params().Len() == 0 && sig.Results().Len() == 1 && isString(sig.Results().At(0).Type()) {
				// nil pointer receivers with pointer methods: Go prints <nil>
				if p, ok := it.V.(*Value); ok && p == nil {
					if _, isPtr := it.T.Underlying().(*types.Pointer); isPtr {
						if in.opaqueOf(deref(it.T)) != opBigInt {
							return "<nil>", true
						}
					}
				}
				return th.call(nil, 0, m, []Value{it.V}), true
			}
		}
	}
	return nil, false
}

// formatValue renders v (dynamic type t) under verb.
func (th *Thread) formatValue(verb byte, plus, sharp bool, t types.Type, v Value, top bool) Value {
	in := th.ex.in
	if t == nil {
		if verb == 'T' {
			return "<nil>"
		}
		return "<nil>"
	}
	if verb == 'T' {
		return types.TypeString(t, func(p *types.Package) string { return p.Name() })
	}
	if verb == 'p' {
		return "0xc000000000"
	}
	// opaque special cases
	if p, ok := t.Underlying().(*types.Pointer); ok {
		switch in.opaqueOf(p.Elem()) {
		case opBigInt:
			pv := v.(*Value)
			if pv == nil {
				return "<nil>"
			}
			// *big.Int is a Formatter: decimal for v,s,d. Named types over big.Int with
			// their own String() (MonetaryInt) go through tryStringer below.
			if namedPath(p.Elem()) == "math/big.Int" {
				b := (*pv).(BigVal)
				if c, ok := b.Conc(); ok {
					if verb == 'x' {
						return c.Text(16)
					}
					return c.String()
				}
				return &Rope{Segs: []Seg{{D: b.T}}}
			}
		case opBigRat:
			pv := v.(*Value)
			if pv == nil {
				return "<nil>"
			}
			return (*pv).(RatVal).Get().String()
		}
	}
	if verb == 'v' || verb == 's' || verb == 'q' {
		if !sharp {
			if s, ok := th.tryStringer(Iface{T: t, V: v}); ok {
				if verb == 'q' {
					return quoteVal(s)
				}
				return s
			}
		}
	}
	switch u := t.Underlying().(type) {
	case *types.Basic:
		switch {
		case u.Info()&types.IsString != 0:
			if verb == 'q' {
				return quoteVal(v)
			}
			if verb == 'x' {
				return fmt.Sprintf("%x", th.str(v, "%x"))
			}
			return v
		case u.Info()&types.IsBoolean != 0:
			switch b := v.(type) {
			case bool:
				return strconv.FormatBool(b)
			}
			panic(unsupported("format symbolic bool"))
		case u.Info()&types.IsInteger != 0:
			ii, _ := basicIntInfo(u.Kind())
			switch i := v.(type) {
			case int64:
				switch verb {
				case 'x':
					return strconv.FormatUint(uint64(i), 16)
				case 'c':
					return string(rune(i))
				case 'q':
					return strconv.QuoteRune(rune(i))
				case 's':
					return fmt.Sprintf("%%!s(%s=%d)", u.Name(), i)
				}
				if ii.signed {
					return strconv.FormatInt(i, 10)
				}
				return strconv.FormatUint(uint64(i), 10)
			case *sym.Term:
				return &Rope{Segs: []Seg{{D: sym.BV2Int(i, ii.signed)}}}
			}
		case u.Info()&types.IsFloat != 0:
			f := v.(float64)
			switch verb {
			case 'f':
				return strconv.FormatFloat(f, 'f', 6, 64)
			}
			return strconv.FormatFloat(f, 'g', -1, 64)
		}
	case *types.Pointer:
		pv, _ := v.(*Value)
		if pv == nil {
			return "<nil>"
		}
		if top {
			if _, ok := u.Elem().Underlying().(*types.Struct); ok && in.opaqueOf(u.Elem()) == opNone {
				return concatStr("&", th.formatValue(verb, plus, sharp, u.Elem(), *pv, false))
			}
		}
		return "0xc000000000"
	case *types.Slice:
		sv, _ := v.([]Value)
		if eb, ok := u.Elem().Underlying().(*types.Basic); ok && eb.Kind() == types.Uint8 && (verb == 's' || verb == 'q') {
			s := bytesToStr(sv)
			if verb == 'q' {
				return quoteVal(s)
			}
			return s
		}
		var out Value = "["
		for i, e := range sv {
			if i > 0 {
				out = concatStr(out, " ")
			}
			out = concatStr(out, th.formatElem(verb, plus, sharp, u.Elem(), e))
		}
		return concatStr(out, "]")
	case *types.Array:
		av := v.(Array)
		var out Value = "["
		for i, e := range av {
			if i > 0 {
				out = concatStr(out, " ")
			}
			out = concatStr(out, th.formatElem(verb, plus, sharp, u.Elem(), e))
		}
		return concatStr(out, "]")
	case *types.Map:
		mv, _ := v.(*Map)
		type kv struct {
			k string
			v Value
		}
		var items []kv
		if mv != nil {
			for _, e := range mv.entries {
				if e.deleted {
					continue
				}
				ks := th.formatElem(verb, plus, sharp, u.Key(), e.k)
				items = append(items, kv{th.str(ks, "map key in format"), th.formatElem(verb, plus, sharp, u.Elem(), e.v)})
			}
		}
		sort.Slice(items, func(i, j int) bool { return items[i].k < items[j].k })
		var out Value = "map["
		for i, it := range items {
			if i > 0 {
				out = concatStr(out, " ")
			}
			out = concatStr(concatStr(out, it.k+":"), it.v)
		}
		return concatStr(out, "]")
	case *types.Struct:
		switch in.opaqueOf(t) {
		case opTime:
			return v.(time.Time).String()
		case opBigInt:
			b := v.(BigVal)
			if c, ok := b.Conc(); ok {
				return "{" + c.String() + "}"
			}
			return "{big}"
		case opNone:
		default:
			return "{}"
		}
		sv := v.(Struct)
		var out Value = "{"
		for i := 0; i < u.NumFields(); i++ {
			if i > 0 {
				out = concatStr(out, " ")
			}
			if plus {
				out = concatStr(out, u.Field(i).Name()+":")
			}
			out = concatStr(out, th.formatElem(verb, plus, sharp, u.Field(i).Type(), sv[i]))
		}
		return concatStr(out, "}")
	case *types.Interface:
		it := v.(Iface)
		if it.T == nil {
			return "<nil>"
		}
		return th.formatValue(verb, plus, sharp, it.T, it.V, false)
	case *types.Signature, *types.Chan:
		return "0xc000000000"
	}
	panic(unsupported("format %%%c of %v (%T)", verb, t, v))
}

func (th *Thread) formatElem(verb byte, plus, sharp bool, t types.Type, v Value) Value {
	if _, ok := t.Underlying().(*types.Interface); ok {
		it := v.(Iface)
		if it.T == nil {
			return "<nil>"
		}
		return th.formatValue(verb, plus, sharp, it.T, it.V, false)
	}
	return th.formatValue(verb, plus, sharp, t, v, false)
}

func quoteVal(v Value) Value {
	switch s := v.(type) {
	case string:
		return strconv.Quote(s)
	case *Rope:
		// quoting symbolic bytes: only safe when they are not special; keep structure
		segs := []Seg{{S: `"`}}
		for _, sg := range s.Segs {
			if sg.B == nil && sg.D == nil {
				q := strconv.Quote(sg.S)
				segs = append(segs, Seg{S: q[1 : len(q)-1]})
			} else {
				segs = append(segs, sg)
			}
		}
		segs = append(segs, Seg{S: `"`})
		return normRope(&Rope{Segs: segs})
	}
	panic("quoteVal")
}

// sprintf implements the fmt verbs the repository uses.
func (th *Thread) sprintf(format string, args []Value) (Value, Value) {
	var out Value = ""
	var wrapped Value
	ai := 0
	i := 0
	for i < len(format) {
		j := strings.IndexByte(format[i:], '%')
		if j < 0 {
			out = concatStr(out, format[i:])
			break
		}
		out = concatStr(out, format[i:i+j])
		i += j + 1
		if i >= len(format) {
			out = concatStr(out, "%!(NOVERB)")
			break
		}
		plus, sharp, minus, zero := false, false, false, false
		for i < len(format) && strings.IndexByte("+#- 0", format[i]) >= 0 {
			switch format[i] {
			case '+':
				plus = true
			case '#':
				sharp = true
			case '-':
				minus = true
			case '0':
				zero = true
			}
			i++
		}
		width := -1
		for i < len(format) && format[i] >= '0' && format[i] <= '9' {
			if width < 0 {
				width = 0
			}
			width = width*10 + int(format[i]-'0')
			i++
		}
		prec := -1
		if i < len(format) && format[i] == '.' {
			i++
			prec = 0
			for i < len(format) && format[i] >= '0' && format[i] <= '9' {
				prec = prec*10 + int(format[i]-'0')
				i++
			}
		}
		if i >= len(format) {
			break
		}
		verb := format[i]
		i++
		if verb == '%' {
			out = concatStr(out, "%")
			continue
		}
		if ai >= len(args) {
			out = concatStr(out, "%!"+string(verb)+"(MISSING)")
			continue
		}
		arg := args[ai].(Iface)
		ai++
		v := verb
		if verb == 'w' {
			v = 'v'
			wrapped = arg
		}
		var piece Value
		if f, ok := arg.V.(float64); ok && (verb == 'f' || verb == 'g' || verb == 'e') {
			piece = strconv.FormatFloat(f, verb, prec, 64)
		} else {
			piece = th.formatValue(v, plus, sharp, arg.T, arg.V, true)
		}
		if width >= 0 {
			if s, ok := piece.(string); ok {
				pad := width - len([]rune(s))
				if pad > 0 {
					switch {
					case minus:
						s = s + strings.Repeat(" ", pad)
					case zero:
						s = strings.Repeat("0", pad) + s
					default:
						s = strings.Repeat(" ", pad) + s
					}
				}
				piece = s
			}
		}
		out = concatStr(out, piece)
	}
	if ai < len(args) {
		out = concatStr(out, "%!(EXTRA)")
	}
	return out, wrapped
}

// sprintfV accepts a rope as format: concrete segments are interpreted as format text,
// symbolic segments are copied (a dec segment cannot contain '%'; a symbolic byte equal
// to '%' is outside the model and recorded as a stub).
func (th *Thread) sprintfV(format Value, args []Value) (Value, Value) {
	switch f := format.(type) {
	case string:
		return th.sprintf(f, args)
	case *Rope:
		var out Value = ""
		var wrapped Value
		for _, sg := range f.Segs {
			if sg.B != nil {
				th.stub("fmt:symbolic byte in format string")
				out = concatStr(out, &Rope{Segs: []Seg{sg}})
				continue
			}
			if sg.D != nil {
				out = concatStr(out, &Rope{Segs: []Seg{sg}})
				continue
			}
			// count verbs to split args
			piece, w := th.sprintfPartial(sg.S, &args)
			if w != nil {
				wrapped = w
			}
			out = concatStr(out, piece)
		}
		if len(args) > 0 {
			out = concatStr(out, "%!(EXTRA)")
		}
		return out, wrapped
	}
	panic("sprintfV")
}

func (th *Thread) sprintfPartial(format string, args *[]Value) (Value, Value) {
	// number of verbs in this piece
	n := 0
	for i := 0; i < len(format); i++ {
		if format[i] == '%' {
			j := i + 1
			for j < len(format) && strings.IndexByte("+#- 0123456789.", format[j]) >= 0 {
				j++
			}
			if j < len(format) && format[j] != '%' {
				n++
			}
			i = j
		}
	}
	if n > len(*args) {
		n = len(*args)
	}
	use := (*args)[:n]
	*args = (*args)[n:]
	return th.sprintf(format, use)
}

func (th *Thread) sprint(args []Value, ln bool) Value {
	var out Value = ""
	prevString := false
	for i, a := range args {
		it := a.(Iface)
		isStr := it.T != nil && isString(it.T)
		if i > 0 && (ln || (!isStr && !prevString)) {
			out = concatStr(out, " ")
		}
		out = concatStr(out, th.formatValue('v', false, false, it.T, it.V, true))
		prevString = isStr
	}
	if ln {
		out = concatStr(out, "\n")
	}
	return out
}

func registerFmt(in *Interp) {
	in.reg("fmt.Sprintf", func(th *Thread, fn *ssa.Function, a []Value) Value {
		s, _ := th.sprintfV(a[0], a[1].([]Value))
		return s
	})
	in.reg("fmt.Sprint", func(th *Thread, fn *ssa.Function, a []Value) Value {
		return th.sprint(a[0].([]Value), false)
	})
	in.reg("fmt.Sprintln", func(th *Thread, fn *ssa.Function, a []Value) Value {
		return th.sprint(a[0].([]Value), true)
	})
	in.reg("fmt.Errorf", func(th *Thread, fn *ssa.Function, a []Value) Value {
		s, w := th.sprintfV(a[0], a[1].([]Value))
		if w != nil {
			wt := in.Prog.ImportedPackage("fmt").Type("wrapError").Object().Type()
			return Iface{T: types.NewPointer(wt), V: ptrTo(Struct{s, w})}
		}
		return th.newError(s)
	})
	nop := func(th *Thread, fn *ssa.Function, a []Value) Value {
		th.stub(fn.String())
		return Tuple{int64(0), Iface{}}
	}
	for _, n := range []string{"Println", "Printf", "Print", "Fprintf", "Fprintln", "Fprint"} {
		in.reg("fmt."+n, nop)
	}
	// Fprintf into a strings.Builder / bytes.Buffer is used by some String() methods
	in.reg("fmt.Fprintf", func(th *Thread, fn *ssa.Function, a []Value) Value {
		w := a[0].(Iface)
		s, _ := th.sprintf(th.str(a[1], "format"), a[2].([]Value))
		if w.T != nil && namedPath(derefT(w.T)) == "strings.Builder" {
			b := (*(w.V.(*Value))).(*Builder)
			b.v = concatStr(b.v, s)
			return Tuple{int64(0), Iface{}}
		}
		th.stub("fmt.Fprintf")
		return Tuple{int64(0), Iface{}}
	})
}

func derefT(t types.Type) types.Type {
	if p, ok := t.Underlying().(*types.Pointer); ok {
		return p.Elem()
	}
	return t
}
