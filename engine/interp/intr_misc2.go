package interp

import (
	"go/types"
	"regexp/syntax"
	"strings"
	"unicode"

	"golang.org/x/tools/go/ssa"
)

// regexpByteSignature maps each byte to a signature string: which literals and
// character classes of the pattern contain it.
func regexpByteSignature(src string) [256]string {
	var sig [256]string
	re, err := syntax.Parse(src, syntax.Perl)
	if err != nil {
		for b := 0; b < 256; b++ {
			sig[b] = string(rune(b))
		}
		return sig
	}
	var classes [][]rune // pairs lo,hi
	var walk func(r *syntax.Regexp)
	walk = func(r *syntax.Regexp) {
		switch r.Op {
		case syntax.OpLiteral:
			for _, c := range r.Rune {
				classes = append(classes, []rune{c, c})
				if r.Flags&syntax.FoldCase != 0 {
					classes = append(classes, []rune{unicode.ToLower(c), unicode.ToLower(c)}, []rune{unicode.ToUpper(c), unicode.ToUpper(c)})
				}
			}
		case syntax.OpCharClass:
			classes = append(classes, r.Rune)
		case syntax.OpAnyCharNotNL:
			classes = append(classes, []rune{'\n', '\n'})
		case syntax.OpWordBoundary, syntax.OpNoWordBoundary:
			classes = append(classes, []rune{'0', '9', 'A', 'Z', '_', '_', 'a', 'z'})
		case syntax.OpBeginLine, syntax.OpEndLine:
			classes = append(classes, []rune{'\n', '\n'})
		}
		for _, s := range r.Sub {
			walk(s)
		}
	}
	walk(re)
	for b := 0; b < 256; b++ {
		var sb strings.Builder
		if b >= 0x80 {
			sb.WriteString("H")
		}
		for _, cl := range classes {
			in := false
			if b < 0x80 {
				for i := 0; i+1 < len(cl); i += 2 {
					if rune(b) >= cl[i] && rune(b) <= cl[i+1] {
						in = true
						break
					}
				}
			} else {
				// non-ASCII bytes decode as U+FFFD
				for i := 0; i+1 < len(cl); i += 2 {
					if 0xFFFD >= cl[i] && 0xFFFD <= cl[i+1] {
						in = true
						break
					}
				}
			}
			if in {
				sb.WriteByte('1')
			} else {
				sb.WriteByte('0')
			}
		}
		sig[b] = sb.String()
	}
	return sig
}

func init() {
	extraRegs = append(extraRegs, func(in *Interp) {
		lp := "(*github.com/formancehq/stack/libs/go-libs/logging.logrusLogger)."
		for _, n := range []string{"Debug", "Debugf", "Info", "Infof", "Error", "Errorf"} {
			in.reg(lp+n, func(th *Thread, fn *ssa.Function, a []Value) Value { return nil })
		}
		for _, n := range []string{"WithFields", "WithField", "WithContext"} {
			in.reg(lp+n, func(th *Thread, fn *ssa.Function, a []Value) Value { return in.loggerValue() })
		}
	})
}

var extraRegs []func(in *Interp)

// Pond models github.com/alitto/pond.WorkerPool: Submit(f) = go f(); StopAndWait joins.
type Pond struct{ wg WaitGroup }

func init() {
	extraRegs = append(extraRegs, func(in *Interp) {
		in.reg("github.com/alitto/pond.New", func(th *Thread, fn *ssa.Function, a []Value) Value {
			th.stub("pond.New: Submit(f) = go f()")
			return ptrTo(Native{&Pond{}})
		})
		pondOf := func(v Value) *Pond { return (*(v.(*Value))).(Native).X.(*Pond) }
		in.reg("(*github.com/alitto/pond.WorkerPool).Submit", func(th *Thread, fn *ssa.Function, a []Value) Value {
			p := pondOf(a[0])
			task := a[1]
			th.wgAdd(&p.wg, 1)
			th.ex.spawn(&HostFunc{Name: "pond-task", F: func(t2 *Thread, _ []Value) Value {
				defer func() {
					// the task's panic (if any) propagates; the counter is released either way
					t2.wgAdd(&p.wg, -1)
				}()
				t2.call(nil, 0, task, nil)
				return nil
			}}, nil, th.ex.nextWorkerName())
			return nil
		})
		in.reg("(*github.com/alitto/pond.WorkerPool).StopAndWait", func(th *Thread, fn *ssa.Function, a []Value) Value {
			th.wgWait(&pondOf(a[0]).wg)
			return nil
		})
	})
}

func init() {
	extraRegs = append(extraRegs, func(in *Interp) {
		in.reg("github.com/imdario/mergo.Merge", func(th *Thread, fn *ssa.Function, a []Value) Value {
			dst := a[0].(Iface)
			src := a[1].(Iface)
			dp, ok := dst.V.(*Value)
			if !ok || dp == nil {
				panic(unsupported("mergo.Merge: dst %v", dst.T))
			}
			dm, ok1 := (*dp).(*Map)
			sm, ok2 := src.V.(*Map)
			if !ok1 || !ok2 {
				panic(unsupported("mergo.Merge on non-map values %v <- %v", dst.T, src.T))
			}
			th.stub("mergo.Merge: map union with override")
			if dm == nil {
				dm = newMap()
				*dp = dm
			}
			if sm != nil {
				for _, e := range sm.entries {
					if !e.deleted {
						th.mapUpdate(dm, e.k, e.v)
					}
				}
			}
			return Iface{}
		})
	})
}

func init() {
	extraRegs = append(extraRegs, func(in *Interp) {
		b := "internal/bytealg."
		bytesOf := func(th *Thread, v Value) string { return th.str(bytesToStr(v), "bytealg") }
		in.reg(b+"IndexByteString", func(th *Thread, fn *ssa.Function, a []Value) Value {
			return int64(strings.IndexByte(th.str(a[0], "IndexByteString"), byte(th.concInt(a[1], "byte"))))
		})
		in.reg(b+"IndexByte", func(th *Thread, fn *ssa.Function, a []Value) Value {
			return int64(strings.IndexByte(bytesOf(th, a[0]), byte(th.concInt(a[1], "byte"))))
		})
		in.reg(b+"LastIndexByteString", func(th *Thread, fn *ssa.Function, a []Value) Value {
			return int64(strings.LastIndexByte(th.str(a[0], "LastIndexByteString"), byte(th.concInt(a[1], "byte"))))
		})
		in.reg(b+"LastIndexByte", func(th *Thread, fn *ssa.Function, a []Value) Value {
			return int64(strings.LastIndexByte(bytesOf(th, a[0]), byte(th.concInt(a[1], "byte"))))
		})
		in.reg(b+"CountString", func(th *Thread, fn *ssa.Function, a []Value) Value {
			return int64(strings.Count(th.str(a[0], "CountString"), string([]byte{byte(th.concInt(a[1], "byte"))})))
		})
		in.reg(b+"Count", func(th *Thread, fn *ssa.Function, a []Value) Value {
			return int64(strings.Count(bytesOf(th, a[0]), string([]byte{byte(th.concInt(a[1], "byte"))})))
		})
		in.reg(b+"IndexString", func(th *Thread, fn *ssa.Function, a []Value) Value {
			return int64(strings.Index(th.str(a[0], "IndexString"), th.str(a[1], "IndexString")))
		})
		in.reg(b+"Index", func(th *Thread, fn *ssa.Function, a []Value) Value {
			return int64(strings.Index(bytesOf(th, a[0]), bytesOf(th, a[1])))
		})
		in.reg(b+"Equal", func(th *Thread, fn *ssa.Function, a []Value) Value {
			x, _ := a[0].([]Value)
			y, _ := a[1].([]Value)
			return th.bytesEqual(x, y)
		})
		in.reg(b+"Compare", func(th *Thread, fn *ssa.Function, a []Value) Value {
			return int64(strings.Compare(bytesOf(th, a[0]), bytesOf(th, a[1])))
		})
		in.reg(b+"MakeNoZero", func(th *Thread, fn *ssa.Function, a []Value) Value {
			n := int(th.concInt(a[0], "MakeNoZero"))
			out := make([]Value, n)
			for i := range out {
				out[i] = int64(0)
			}
			return out
		})
		in.reg("internal/stringslite.Index", func(th *Thread, fn *ssa.Function, a []Value) Value {
			return th.ropeIndex(a[0], th.str(a[1], "Index separator"))
		})
	})
}


// AbsCache models github.com/bluele/gcache caches: a bounded key/value store with
// least-frequently-used eviction (ties: oldest). Keys are compared with the engine's
// equality, so hash-token keys work.
type AbsCache struct {
	size    int
	entries []*absCacheEntry
}

type absCacheEntry struct {
	k, v Value
	hits int
}

func init() {
	extraRegs = append(extraRegs, func(in *Interp) {
		g := "github.com/bluele/gcache."
		cacheOf := func(v Value) *AbsCache { return (*(v.(*Value))).(Native).X.(*AbsCache) }
		in.reg(g+"New", func(th *Thread, fn *ssa.Function, a []Value) Value {
			th.stub("gcache: modelled as a bounded LFU map")
			return ptrTo(Native{&AbsCache{size: int(th.concInt(a[0], "cache size"))}})
		})
		for _, m := range []string{"LFU", "LRU", "ARC", "Simple"} {
			in.reg("(*"+g+"CacheBuilder)."+m, func(th *Thread, fn *ssa.Function, a []Value) Value { return a[0] })
		}
		in.reg("(*"+g+"CacheBuilder).Build", func(th *Thread, fn *ssa.Function, a []Value) Value {
			t := in.Prog.ImportedPackage("github.com/bluele/gcache").Type("LFUCache").Type()
			return Iface{T: types.NewPointer(t), V: a[0]}
		})
		notFound := func(th *Thread) Value {
			gv := in.Prog.ImportedPackage("github.com/bluele/gcache").Var("KeyNotFoundError")
			v := *in.global(gv)
			if it, ok := v.(Iface); ok && it.T != nil {
				return it
			}
			e := th.newError("Key not found.")
			*in.global(gv) = e
			return e
		}
		in.reg("(*"+g+"LFUCache).Get", func(th *Thread, fn *ssa.Function, a []Value) Value {
			c := cacheOf(a[0])
			for _, e := range c.entries {
				if th.branch(th.equals(e.k, a[1])) {
					e.hits++
					return Tuple{e.v, Iface{}}
				}
			}
			return Tuple{Iface{}, notFound(th)}
		})
		in.reg("(*"+g+"LFUCache).Set", func(th *Thread, fn *ssa.Function, a []Value) Value {
			c := cacheOf(a[0])
			for _, e := range c.entries {
				if th.branch(th.equals(e.k, a[1])) {
					e.v = a[2]
					return Iface{}
				}
			}
			if c.size > 0 && len(c.entries) >= c.size {
				victim := 0
				for i, e := range c.entries {
					if e.hits < c.entries[victim].hits {
						victim = i
					}
				}
				c.entries = append(c.entries[:victim:victim], c.entries[victim+1:]...)
			}
			c.entries = append(c.entries, &absCacheEntry{k: a[1], v: a[2]})
			return Iface{}
		})
	})
}

func init() {
	extraRegs = append(extraRegs, func(in *Interp) {
		// publish.NewMessage: the payload is json.Marshal(event) exactly as in the real
		// function; the message id and the tracing metadata are constants.
		in.reg("github.com/formancehq/stack/libs/go-libs/publish.NewMessage", func(th *Thread, fn *ssa.Function, a []Value) Value {
			ev := a[1]
			evT := fn.Signature.Params().At(1).Type()
			data, errv := th.jsonMarshalTop(Iface{T: evT, V: ev})
			if errv != nil {
				panic(TargetPanic{errv})
			}
			th.stub("publish.NewMessage: uuid and otel context are constants")
			mt := in.Prog.ImportedPackage("github.com/ThreeDotsLabs/watermill/message").Type("Message").Type()
			msg := in.zero(mt).(Struct)
			st := mt.Underlying().(*types.Struct)
			for i := 0; i < st.NumFields(); i++ {
				switch st.Field(i).Name() {
				case "UUID":
					msg[i] = "00000000-0000-0000-0000-000000000001"
				case "Metadata":
					m := newMap()
					th.mapUpdate(m, "otel-context", "{}")
					msg[i] = m
				case "Payload":
					msg[i] = strToBytes(data)
				}
			}
			return ptrTo(msg)
		})
	})
}
