package interp

import (
	"regexp/syntax"
	"strings"
	"unicode"

	"golang.org/x/tools/go/ssa"
)

// regexpByteSignature maps each byte to a signature string: which literals and
// character classes of the pattern contain it.
func regexpByteSignature(src string) [256]string {
	var sig [256]string
	re, err := syntax.Parse(src, syntax.Perl)
	if err != nil {
		for b := 0; b < 256; b++ {
			sig[b] = string(rune(b))
		}
		return sig
	}
	var classes [][]rune // pairs lo,hi
	var walk func(r *syntax.Regexp)
	walk = func(r *syntax.Regexp) {
		switch r.Op {
		case syntax.OpLiteral:
			for _, c := range r.Rune {
				classes = append(classes, []rune{c, c})
				if r.Flags&syntax.FoldCase != 0 {
					classes = append(classes, []rune{unicode.ToLower(c), unicode.ToLower(c)}, []rune{unicode.ToUpper(c), unicode.ToUpper(c)})
				}
			}
		case syntax.OpCharClass:
			classes = append(classes, r.Rune)
		case syntax.OpAnyCharNotNL:
			classes = append(classes, []rune{'\n', '\n'})
		case syntax.OpWordBoundary, syntax.OpNoWordBoundary:
			classes = append(classes, []rune{'0', '9', 'A', 'Z', '_', '_', 'a', 'z'})
		case syntax.OpBeginLine, syntax.OpEndLine:
			classes = append(classes, []rune{'\n', '\n'})
		}
		for _, s := range r.Sub {
			walk(s)
		}
	}
	walk(re)
	for b := 0; b < 256; b++ {
		var sb strings.Builder
		if b >= 0x80 {
			sb.WriteString("H")
		}
		for _, cl := range classes {
			in := false
			if b < 0x80 {
				for i := 0; i+1 < len(cl); i += 2 {
					if rune(b) >= cl[i] && rune(b) <= cl[i+1] {
						in = true
						break
					}
				}
			} else {
				// non-ASCII bytes decode as U+FFFD
				for i := 0; i+1 < len(cl); i += 2 {
					if 0xFFFD >= cl[i] && 0xFFFD <= cl[i+1] {
						in = true
						break
					}
				}
			}
			if in {
				sb.WriteByte('1')
			} else {
				sb.WriteByte('0')
			}
		}
		sig[b] = sb.String()
	}
	return sig
}

func init() {
	extraRegs = append(extraRegs, func(in *Interp) {
		lp := "(*github.com/formancehq/stack/libs/go-libs/logging.logrusLogger)."
		for _, n := range []string{"Debug", "Debugf", "Info", "Infof", "Error", "Errorf"} {
			in.reg(lp+n, func(th *Thread, fn *ssa.Function, a []Value) Value { return nil })
		}
		for _, n := range []string{"WithFields", "WithField", "WithContext"} {
			in.reg(lp+n, func(th *Thread, fn *ssa.Function, a []Value) Value { return in.loggerValue() })
		}
	})
}

var extraRegs []func(in *Interp)

// Pond models github.com/alitto/pond.WorkerPool: Submit(f) = go f(); StopAndWait joins.
type Pond struct{ wg WaitGroup }

func init() {
	extraRegs = append(extraRegs, func(in *Interp) {
		in.reg("github.com/alitto/pond.New", func(th *Thread, fn *ssa.Function, a []Value) Value {
			th.stub("pond.New: Submit(f) = go f()")
			return ptrTo(Native{&Pond{}})
		})
		pondOf := func(v Value) *Pond { return (*(v.(*Value))).(Native).X.(*Pond) }
		in.reg("(*github.com/alitto/pond.WorkerPool).Submit", func(th *Thread, fn *ssa.Function, a []Value) Value {
			p := pondOf(a[0])
			task := a[1]
			th.wgAdd(&p.wg, 1)
			th.ex.spawn(&HostFunc{Name: "pond-task", F: func(t2 *Thread, _ []Value) Value {
				defer func() {
					// the task's panic (if any) propagates; the counter is released either way
					t2.wgAdd(&p.wg, -1)
				}()
				t2.call(nil, 0, task, nil)
				return nil
			}}, nil, th.ex.nextWorkerName())
			return nil
		})
		in.reg("(*github.com/alitto/pond.WorkerPool).StopAndWait", func(th *Thread, fn *ssa.Function, a []Value) Value {
			th.wgWait(&pondOf(a[0]).wg)
			return nil
		})
	})
}

func init() {
	extraRegs = append(extraRegs, func(in *Interp) {
		in.reg("github.com/imdario/mergo.Merge", func(th *Thread, fn *ssa.Function, a []Value) Value {
			dst := a[0].(Iface)
			src := a[1].(Iface)
			dp, ok := dst.V.(*Value)
			if !ok || dp == nil {
				panic(unsupported("mergo.Merge: dst %v", dst.T))
			}
			dm, ok1 := (*dp).(*Map)
			sm, ok2 := src.V.(*Map)
			if !ok1 || !ok2 {
				panic(unsupported("mergo.Merge on non-map values %v <- %v", dst.T, src.T))
			}
			th.stub("mergo.Merge: map union with override")
			if dm == nil {
				dm = newMap()
				*dp = dm
			}
			if sm != nil {
				for _, e := range sm.entries {
					if !e.deleted {
						th.mapUpdate(dm, e.k, e.v)
					}
				}
			}
			return Iface{}
		})
	})
}
