package interp

import (
	"regexp/syntax"
	"strings"
	"unicode"

	"golang.org/x/tools/go/ssa"
)

// regexpByteSignature maps each byte to a signature string: which literals and
// character classes of the pattern contain it.
func regexpByteSignature(src string) [256]string {
	var sig [256]string
	re, err := syntax.Parse(src, syntax.Perl)
	if err != nil {
		for b := 0; b < 256; b++ {
			sig[b] = string(rune(b))
		}
		return sig
	}
	var classes [][]rune // pairs lo,hi
	var walk func(r *syntax.Regexp)
	walk = func(r *syntax.Regexp) {
		switch r.Op {
		case syntax.OpLiteral:
			for _, c := range r.Rune {
				classes = append(classes, []rune{c, c})
				if r.Flags&syntax.FoldCase != 0 {
					classes = append(classes, []rune{unicode.ToLower(c), unicode.ToLower(c)}, []rune{unicode.ToUpper(c), unicode.ToUpper(c)})
				}
			}
		case syntax.OpCharClass:
			classes = append(classes, r.Rune)
		case syntax.OpAnyCharNotNL:
			classes = append(classes, []rune{'\n', '\n'})
		case syntax.OpWordBoundary, syntax.OpNoWordBoundary:
			classes = append(classes, []rune{'0', '9', 'A', 'Z', '_', '_', 'a', 'z'})
		case syntax.OpBeginLine, syntax.OpEndLine:
			classes = append(classes, []rune{'\n', '\n'})
		}
		for _, s := range r.Sub {
			walk(s)
		}
	}
	walk(re)
	for b := 0; b < 256; b++ {
		var sb strings.Builder
		if b >= 0x80 {
			sb.WriteString("H")
		}
		for _, cl := range classes {
			in := false
			if b < 0x80 {
				for i := 0; i+1 < len(cl); i += 2 {
					if rune(b) >= cl[i] && rune(b) <= cl[i+1] {
						in = true
						break
					}
				}
			} else {
				// non-ASCII bytes decode as U+FFFD
				for i := 0; i+1 < len(cl); i += 2 {
					if 0xFFFD >= cl[i] && 0xFFFD <= cl[i+1] {
						in = true
						break
					}
				}
			}
			if in {
				sb.WriteByte('1')
			} else {
				sb.WriteByte('0')
			}
		}
		sig[b] = sb.String()
	}
	return sig
}

func init() {
	extraRegs = append(extraRegs, func(in *Interp) {
		lp := "(*github.com/formancehq/stack/libs/go-libs/logging.logrusLogger)."
		for _, n := range []string{"Debug", "Debugf", "Info", "Infof", "Error", "Errorf"} {
			in.reg(lp+n, func(th *Thread, fn *ssa.Function, a []Value) Value { return nil })
		}
		for _, n := range []string{"WithFields", "WithField", "WithContext"} {
			in.reg(lp+n, func(th *Thread, fn *ssa.Function, a []Value) Value { return in.loggerValue() })
		}
	})
}

var extraRegs []func(in *Interp)
