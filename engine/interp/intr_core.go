package interp

import (
	"encoding/base64"
	"fmt"
	"go/types"
	"math/big"
	"strings"

	"golang.org/x/tools/go/ssa"

	"symgo/sym"
)

// Intrinsic implements a function natively in the engine.
type Intrinsic func(th *Thread, fn *ssa.Function, args []Value) Value

func (in *Interp) reg(name string, f Intrinsic) { in.intrinsics[name] = f }

// RegisterIntrinsic lets the driver add intrinsics (e.g. the compiler helper).
func (in *Interp) RegisterIntrinsic(name string, f Intrinsic) { in.intrinsics[name] = f }

func registerAll(in *Interp) {
	registerHook(in)
	registerBig(in)
	registerFmt(in)
	registerErrors(in)
	registerStrings(in)
	registerSync(in)
	registerMisc(in)
	registerJSON(in)
}

const HookPkg = "github.com/formancehq/stack/libs/go-libs/verifhook"

func (th *Thread) stub(name string) { th.ex.stubs[name]++ }

// str requires a concrete string argument.
func (th *Thread) str(v Value, what string) string {
	switch v := v.(type) {
	case string:
		return v
	case *Rope:
		if s, ok := normRope(v).(string); ok {
			return s
		}
		panic(unsupported("symbolic string as %s: %v", what, v))
	}
	panic(fmt.Sprintf("str(%s): %T", what, v))
}

func ptrTo(v Value) *Value {
	p := new(Value)
	*p = v
	return p
}

func (ex *Exec) input(name string, s sym.Sort) *sym.Term {
	if t, ok := ex.inputs[name]; ok {
		if t.Sort != s {
			ex.abort(OutEngineError, "input "+name+" declared with two sorts")
		}
		return t
	}
	t := sym.Var(name, s)
	ex.inputs[name] = t
	ex.inputOrder = append(ex.inputOrder, name)
	// make sure the solver knows the variable even if it never reaches an assertion
	if ex.solver != nil {
		ex.solver.P.Ref(t)
	}
	return t
}

func bigArg(th *Thread, v Value) BigVal {
	p, ok := v.(*Value)
	if !ok || p == nil {
		panic(th.ex.in.runtimeError("invalid memory address or nil pointer dereference"))
	}
	b, ok := (*p).(BigVal)
	if !ok {
		panic(fmt.Sprintf("bigArg: cell holds %T", *p))
	}
	return b
}

func registerHook(in *Interp) {
	h := HookPkg + "."
	in.reg(h+"BigInt", func(th *Thread, fn *ssa.Function, a []Value) Value {
		return ptrTo(BigVal{T: th.ex.input(th.str(a[0], "name"), sym.SInt)})
	})
	in.reg(h+"Int64", func(th *Thread, fn *ssa.Function, a []Value) Value {
		return th.ex.input(th.str(a[0], "name"), sym.SBV64)
	})
	in.reg(h+"Uint64", func(th *Thread, fn *ssa.Function, a []Value) Value {
		return th.ex.input(th.str(a[0], "name"), sym.SBV64)
	})
	in.reg(h+"Int", func(th *Thread, fn *ssa.Function, a []Value) Value {
		return th.ex.input(th.str(a[0], "name"), sym.SBV64)
	})
	in.reg(h+"Int16", func(th *Thread, fn *ssa.Function, a []Value) Value {
		return th.ex.input(th.str(a[0], "name"), sym.SBV16)
	})
	in.reg(h+"Byte", func(th *Thread, fn *ssa.Function, a []Value) Value {
		return th.ex.input(th.str(a[0], "name"), sym.SBV8)
	})
	in.reg(h+"Bool", func(th *Thread, fn *ssa.Function, a []Value) Value {
		return th.ex.input(th.str(a[0], "name"), sym.SBool)
	})
	in.reg(h+"String", func(th *Thread, fn *ssa.Function, a []Value) Value {
		name := th.str(a[0], "name")
		n := int(th.concInt(a[1], "String length"))
		r := &Rope{}
		for i := 0; i < n; i++ {
			r.Segs = append(r.Segs, Seg{B: th.ex.input(fmt.Sprintf("%s[%d]", name, i), sym.SBV8)})
		}
		return normRope(r)
	})
	in.reg(h+"Choose", func(th *Thread, fn *ssa.Function, a []Value) Value {
		name := th.str(a[0], "name")
		n := int(th.concInt(a[1], "Choose n"))
		if n <= 0 {
			th.ex.abort(OutAssumeFalse, "Choose(0)")
		}
		c := 0
		if n > 1 {
			c = th.ex.decide("choose", n, nil, name)
		}
		th.ex.chooses[name] = c
		return int64(c)
	})
	in.reg(h+"Assume", func(th *Thread, fn *ssa.Function, a []Value) Value {
		th.ex.assume(toBoolTerm(a[0]), "Assume@"+th.callerPos())
		return nil
	})
	in.reg(h+"Assert", func(th *Thread, fn *ssa.Function, a []Value) Value {
		th.ex.assertCond(toBoolTerm(a[0]), th.str(a[1], "label"))
		return nil
	})
	in.reg(h+"Reach", func(th *Thread, fn *ssa.Function, a []Value) Value {
		th.ex.reached[th.str(a[0], "label")] = true
		return nil
	})
	in.reg(h+"Canary", func(th *Thread, fn *ssa.Function, a []Value) Value {
		if th.ex.canary {
			th.ex.assertCond(sym.False, "canary")
		}
		return nil
	})
	in.reg(h+"Yield", func(th *Thread, fn *ssa.Function, a []Value) Value {
		th.yield(th.str(a[0], "site"))
		return nil
	})
	in.reg(h+"YieldVal", func(th *Thread, fn *ssa.Function, a []Value) Value {
		th.yield(th.str(a[0], "site"))
		return a[1]
	})
	in.reg(h+"Go", func(th *Thread, fn *ssa.Function, a []Value) Value {
		th.ex.spawn(a[1], nil, th.str(a[0], "name"))
		return nil
	})
	in.reg(h+"MutexLock", func(th *Thread, fn *ssa.Function, a []Value) Value {
		p := a[0].(*Value)
		if p == nil {
			panic(th.ex.in.runtimeError("invalid memory address or nil pointer dereference"))
		}
		th.mutexLock((*p).(*Mutex))
		return nil
	})
	in.reg(h+"Quiesce", func(th *Thread, fn *ssa.Function, a []Value) Value {
		th.state = tsQuiesce
		th.ex.reschedule(th, "quiesce")
		return nil
	})
	in.reg(h+"Crashed", func(th *Thread, fn *ssa.Function, a []Value) Value {
		return th.ex.crashed
	})
	in.reg(h+"Symbolic", func(th *Thread, fn *ssa.Function, a []Value) Value {
		return true
	})
	in.reg(h+"ExpectPanic", func(th *Thread, fn *ssa.Function, a []Value) Value {
		th.ex.cfg.PanicIsViolation = false
		return nil
	})
	// non-forking connectives
	in.reg(h+"And", func(th *Thread, fn *ssa.Function, a []Value) Value {
		return fromBoolTerm(sym.And(toBoolTerm(a[0]), toBoolTerm(a[1])))
	})
	in.reg(h+"Or", func(th *Thread, fn *ssa.Function, a []Value) Value {
		return fromBoolTerm(sym.Or(toBoolTerm(a[0]), toBoolTerm(a[1])))
	})
	in.reg(h+"Not", func(th *Thread, fn *ssa.Function, a []Value) Value {
		return fromBoolTerm(sym.Not(toBoolTerm(a[0])))
	})
	in.reg(h+"Implies", func(th *Thread, fn *ssa.Function, a []Value) Value {
		return fromBoolTerm(sym.Implies(toBoolTerm(a[0]), toBoolTerm(a[1])))
	})
	in.reg(h+"Ite", func(th *Thread, fn *ssa.Function, a []Value) Value {
		c := toBoolTerm(a[0])
		return ptrTo(bigOf(sym.Ite(c, bigArg(th, a[1]).Term(), bigArg(th, a[2]).Term())))
	})
	in.reg(h+"IteInt", func(th *Thread, fn *ssa.Function, a []Value) Value {
		c := toBoolTerm(a[0])
		return fromBV(sym.Ite(c, toBV(a[1], 64), toBV(a[2], 64)), intInfo{64, true})
	})
	in.reg(h+"IteUint64", func(th *Thread, fn *ssa.Function, a []Value) Value {
		c := toBoolTerm(a[0])
		return fromBV(sym.Ite(c, toBV(a[1], 64), toBV(a[2], 64)), intInfo{64, false})
	})
	in.reg(h+"Min", func(th *Thread, fn *ssa.Function, a []Value) Value {
		x, y := bigArg(th, a[0]).Term(), bigArg(th, a[1]).Term()
		return ptrTo(bigOf(sym.Ite(sym.ILe(x, y), x, y)))
	})
	in.reg(h+"Max", func(th *Thread, fn *ssa.Function, a []Value) Value {
		x, y := bigArg(th, a[0]).Term(), bigArg(th, a[1]).Term()
		return ptrTo(bigOf(sym.Ite(sym.ILe(x, y), y, x)))
	})
	cmp := func(f func(x, y *sym.Term) *sym.Term) Intrinsic {
		return func(th *Thread, fn *ssa.Function, a []Value) Value {
			return fromBoolTerm(f(bigArg(th, a[0]).Term(), bigArg(th, a[1]).Term()))
		}
	}
	in.reg(h+"Le", cmp(sym.ILe))
	in.reg(h+"Lt", cmp(sym.ILt))
	in.reg(h+"Ge", cmp(sym.IGe))
	in.reg(h+"Gt", cmp(sym.IGt))
	in.reg(h+"Eq", cmp(sym.Eq))
	in.reg(h+"StrEq", func(th *Thread, fn *ssa.Function, a []Value) Value {
		return th.equals(a[0], a[1])
	})
	in.reg(h+"ByteClass", func(th *Thread, fn *ssa.Function, a []Value) Value {
		classes := th.strs(a[1], "byte classes")
		inClass := func(b byte, c string) bool {
			for i := 0; i < len(c); i++ {
				if i+2 < len(c) && c[i+1] == '-' {
					if b >= c[i] && b <= c[i+2] {
						return true
					}
					i += 2
					continue
				}
				if c[i] == b {
					return true
				}
			}
			return false
		}
		switch b := a[0].(type) {
		case int64:
			for i, c := range classes {
				if inClass(byte(b), c) {
					return int64(i)
				}
			}
			return int64(len(classes))
		case *sym.Term:
			// exclusive classes: class i = in(c_i) and not in any earlier class
			cons := make([]*sym.Term, len(classes)+1)
			earlier := sym.False
			for i, c := range classes {
				m := sym.False
				for x := 0; x < 256; x++ {
					if inClass(byte(x), c) {
						// collect maximal runs
						y := x
						for y+1 < 256 && inClass(byte(y+1), c) {
							y++
						}
						m = sym.Or(m, sym.And(sym.BVCmp("bvule", sym.BVConst(uint64(x), 8), b), sym.BVCmp("bvule", b, sym.BVConst(uint64(y), 8))))
						x = y
					}
				}
				cons[i] = sym.And(m, sym.Not(earlier))
				earlier = sym.Or(earlier, m)
			}
			cons[len(classes)] = sym.Not(earlier)
			return int64(th.ex.decide("byteclass", len(cons), cons, ""))
		}
		panic("ByteClass")
	})
	in.reg(h+"Note", func(th *Thread, fn *ssa.Function, a []Value) Value {
		th.ex.notes = append(th.ex.notes, a[0])
		return nil
	})
	in.reg(h+"Durable", func(th *Thread, fn *ssa.Function, a []Value) Value {
		th.ex.durable = append(th.ex.durable, a[0])
		return nil
	})
}

func (th *Thread) callerPos() string {
	fr := th.curCaller
	if fr == nil {
		return "?"
	}
	p := th.ex.in.Prog.Fset.Position(fr.pos)
	i := strings.LastIndex(p.Filename, "/")
	return fmt.Sprintf("%s:%d", p.Filename[i+1:], p.Line)
}

// ---------- math/big ----------

type bigInt = big.Int

func newBig(i int64) *big.Int { return big.NewInt(i) }

func parseBigDec(s string) (*big.Int, bool) {
	// JSON numbers accepted by big.Int.UnmarshalJSON: plain integers
	return new(big.Int).SetString(s, 10)
}

func stdBase64(b []byte) string { return base64.StdEncoding.EncodeToString(b) }

func stdBase64Decode(s string) ([]byte, error) { return base64.StdEncoding.DecodeString(s) }

func parseCanonicalDec(s string) (*big.Int, bool) {
	if s == "" {
		return nil, false
	}
	d := s
	if d[0] == '-' {
		d = d[1:]
	}
	if d == "" || (len(d) > 1 && d[0] == '0') || s == "-0" {
		return nil, false
	}
	for i := 0; i < len(d); i++ {
		if d[i] < '0' || d[i] > '9' {
			return nil, false
		}
	}
	return new(big.Int).SetString(s, 10)
}

func setBig(th *Thread, recv Value, b BigVal) Value {
	p, ok := recv.(*Value)
	if !ok || p == nil {
		panic(th.ex.in.runtimeError("invalid memory address or nil pointer dereference"))
	}
	*p = b
	return p
}

func cmpTerm(x, y *sym.Term) *sym.Term {
	m1 := sym.BVConst(^uint64(0), 64)
	return sym.Ite(sym.ILt(x, y), m1, sym.Ite(sym.Eq(x, y), sym.BVConst(0, 64), sym.BVConst(1, 64)))
}

func registerBig(in *Interp) {
	b := "(*math/big.Int)."
	bin := func(f func(x, y *sym.Term) *sym.Term) Intrinsic {
		return func(th *Thread, fn *ssa.Function, a []Value) Value {
			x, y := bigArg(th, a[1]), bigArg(th, a[2])
			return setBig(th, a[0], bigOf(f(x.Term(), y.Term())))
		}
	}
	in.reg("math/big.NewInt", func(th *Thread, fn *ssa.Function, a []Value) Value {
		switch v := a[0].(type) {
		case int64:
			return ptrTo(BigVal{C: big.NewInt(v)})
		case *sym.Term:
			return ptrTo(bigOf(sym.BV2Int(v, true)))
		}
		panic("big.NewInt")
	})
	in.reg(b+"Add", bin(sym.IAdd))
	in.reg(b+"Sub", bin(sym.ISub))
	in.reg(b+"Mul", func(th *Thread, fn *ssa.Function, a []Value) Value {
		x, y := bigArg(th, a[1]).Term(), bigArg(th, a[2]).Term()
		if !x.IsConst() && !y.IsConst() {
			th.stub("big.Int.Mul:nonlinear")
		}
		return setBig(th, a[0], bigOf(sym.IMul(x, y)))
	})
	divLike := func(name string) Intrinsic {
		return func(th *Thread, fn *ssa.Function, a []Value) Value {
			x, y := bigArg(th, a[1]).Term(), bigArg(th, a[2]).Term()
			if th.branch(fromBoolTerm(sym.Eq(y, sym.Int64Const(0)))) {
				panic(th.ex.in.runtimeError("division by zero"))
			}
			var r *sym.Term
			switch name {
			case "Div":
				r = sym.IDiv(x, y)
			case "Mod":
				r = sym.IMod(x, y)
			case "Quo":
				// truncated: sign(x)*sign(y) * (|x| div |y|)
				ax := sym.Ite(sym.ILt(x, sym.Int64Const(0)), sym.INeg(x), x)
				ay := sym.Ite(sym.ILt(y, sym.Int64Const(0)), sym.INeg(y), y)
				q := sym.IDiv(ax, ay)
				neg := sym.Not(sym.Eq(sym.ILt(x, sym.Int64Const(0)), sym.ILt(y, sym.Int64Const(0))))
				r = sym.Ite(neg, sym.INeg(q), q)
			case "Rem":
				ax := sym.Ite(sym.ILt(x, sym.Int64Const(0)), sym.INeg(x), x)
				ay := sym.Ite(sym.ILt(y, sym.Int64Const(0)), sym.INeg(y), y)
				m := sym.IMod(ax, ay)
				r = sym.Ite(sym.ILt(x, sym.Int64Const(0)), sym.INeg(m), m)
			}
			return setBig(th, a[0], bigOf(r))
		}
	}
	in.reg(b+"Div", divLike("Div"))
	in.reg(b+"Mod", divLike("Mod"))
	in.reg(b+"Quo", divLike("Quo"))
	in.reg(b+"Rem", divLike("Rem"))
	in.reg(b+"Lsh", func(th *Thread, fn *ssa.Function, a []Value) Value {
		n := uint(th.concInt(a[2], "Lsh n"))
		f := sym.IntConst(new(big.Int).Lsh(big.NewInt(1), n))
		return setBig(th, a[0], bigOf(sym.IMul(bigArg(th, a[1]).Term(), f)))
	})
	in.reg(b+"Rsh", func(th *Thread, fn *ssa.Function, a []Value) Value {
		n := uint(th.concInt(a[2], "Rsh n"))
		f := sym.IntConst(new(big.Int).Lsh(big.NewInt(1), n))
		return setBig(th, a[0], bigOf(sym.IDiv(bigArg(th, a[1]).Term(), f)))
	})
	in.reg(b+"Neg", func(th *Thread, fn *ssa.Function, a []Value) Value {
		return setBig(th, a[0], bigOf(sym.INeg(bigArg(th, a[1]).Term())))
	})
	in.reg(b+"Abs", func(th *Thread, fn *ssa.Function, a []Value) Value {
		x := bigArg(th, a[1]).Term()
		return setBig(th, a[0], bigOf(sym.Ite(sym.ILt(x, sym.Int64Const(0)), sym.INeg(x), x)))
	})
	in.reg(b+"Set", func(th *Thread, fn *ssa.Function, a []Value) Value {
		return setBig(th, a[0], bigArg(th, a[1]))
	})
	in.reg(b+"SetInt64", func(th *Thread, fn *ssa.Function, a []Value) Value {
		switch v := a[1].(type) {
		case int64:
			return setBig(th, a[0], BigVal{C: big.NewInt(v)})
		case *sym.Term:
			return setBig(th, a[0], bigOf(sym.BV2Int(v, true)))
		}
		panic("SetInt64")
	})
	in.reg(b+"SetUint64", func(th *Thread, fn *ssa.Function, a []Value) Value {
		switch v := a[1].(type) {
		case int64:
			return setBig(th, a[0], BigVal{C: new(big.Int).SetUint64(uint64(v))})
		case *sym.Term:
			return setBig(th, a[0], bigOf(sym.BV2Int(v, false)))
		}
		panic("SetUint64")
	})
	in.reg(b+"Cmp", func(th *Thread, fn *ssa.Function, a []Value) Value {
		x, y := bigArg(th, a[0]).Term(), bigArg(th, a[1]).Term()
		return fromBV(cmpTerm(x, y), intInfo{64, true})
	})
	in.reg(b+"CmpAbs", func(th *Thread, fn *ssa.Function, a []Value) Value {
		x, y := bigArg(th, a[0]).Term(), bigArg(th, a[1]).Term()
		z := sym.Int64Const(0)
		ax := sym.Ite(sym.ILt(x, z), sym.INeg(x), x)
		ay := sym.Ite(sym.ILt(y, z), sym.INeg(y), y)
		return fromBV(cmpTerm(ax, ay), intInfo{64, true})
	})
	in.reg(b+"Sign", func(th *Thread, fn *ssa.Function, a []Value) Value {
		x := bigArg(th, a[0]).Term()
		return fromBV(cmpTerm(x, sym.Int64Const(0)), intInfo{64, true})
	})
	in.reg(b+"IsInt64", func(th *Thread, fn *ssa.Function, a []Value) Value {
		x := bigArg(th, a[0]).Term()
		lo := sym.IntConst(new(big.Int).Neg(new(big.Int).Lsh(big.NewInt(1), 63)))
		hi := sym.IntConst(new(big.Int).Lsh(big.NewInt(1), 63))
		return fromBoolTerm(sym.And(sym.ILe(lo, x), sym.ILt(x, hi)))
	})
	in.reg(b+"IsUint64", func(th *Thread, fn *ssa.Function, a []Value) Value {
		x := bigArg(th, a[0]).Term()
		hi := sym.IntConst(new(big.Int).Lsh(big.NewInt(1), 64))
		return fromBoolTerm(sym.And(sym.ILe(sym.Int64Const(0), x), sym.ILt(x, hi)))
	})
	in.reg(b+"Int64", func(th *Thread, fn *ssa.Function, a []Value) Value {
		x := bigArg(th, a[0])
		if c, ok := x.Conc(); ok {
			return c.Int64()
		}
		// low 64 bits of |x|, negated if x<0 (Go semantics); as two's complement this is x mod 2^64
		return fromBV(sym.Int2BV(x.Term(), 64), intInfo{64, true})
	})
	in.reg(b+"Uint64", func(th *Thread, fn *ssa.Function, a []Value) Value {
		x := bigArg(th, a[0])
		if c, ok := x.Conc(); ok {
			return int64(c.Uint64())
		}
		// Go: low 64 bits of |x|
		t := x.Term()
		ax := sym.Ite(sym.ILt(t, sym.Int64Const(0)), sym.INeg(t), t)
		return fromBV(sym.Int2BV(ax, 64), intInfo{64, false})
	})
	str := func(th *Thread, fn *ssa.Function, a []Value) Value {
		p, _ := a[0].(*Value)
		if p == nil {
			return "<nil>"
		}
		x := (*p).(BigVal)
		if c, ok := x.Conc(); ok {
			return c.String()
		}
		return &Rope{Segs: []Seg{{D: x.T}}}
	}
	in.reg(b+"String", str)
	in.reg(b+"Text", func(th *Thread, fn *ssa.Function, a []Value) Value {
		base := th.concInt(a[1], "base")
		x := bigArg(th, a[0])
		if c, ok := x.Conc(); ok {
			return c.Text(int(base))
		}
		if base != 10 {
			panic(unsupported("big.Int.Text base %d on symbolic", base))
		}
		return &Rope{Segs: []Seg{{D: x.T}}}
	})
	toBytes := func(v Value) []Value {
		switch s := v.(type) {
		case string:
			out := make([]Value, len(s))
			for i := 0; i < len(s); i++ {
				out[i] = int64(s[i])
			}
			return out
		}
		return []Value{v} // rope smuggled as single element: see bytesToStr
	}
	in.reg(b+"MarshalJSON", func(th *Thread, fn *ssa.Function, a []Value) Value {
		p, _ := a[0].(*Value)
		if p == nil {
			return Tuple{toBytes("null"), Iface{}}
		}
		return Tuple{toBytes(str(th, fn, a)), Iface{}}
	})
	in.reg(b+"MarshalText", func(th *Thread, fn *ssa.Function, a []Value) Value {
		p, _ := a[0].(*Value)
		if p == nil {
			return Tuple{toBytes("<nil>"), Iface{}}
		}
		return Tuple{toBytes(str(th, fn, a)), Iface{}}
	})
	setString := func(th *Thread, recv Value, s Value, base int64) (Value, bool) {
		switch s := s.(type) {
		case string:
			v, ok := new(big.Int).SetString(s, int(base))
			if !ok {
				return (*Value)(nil), false
			}
			return setBig(th, recv, BigVal{C: v}), true
		case *Rope:
			if len(s.Segs) == 1 && s.Segs[0].D != nil && (base == 10 || base == 0) {
				return setBig(th, recv, BigVal{T: s.Segs[0].D}), true
			}
			panic(unsupported("big.Int.SetString on rope %v", s))
		}
		panic("setString")
	}
	in.reg(b+"SetString", func(th *Thread, fn *ssa.Function, a []Value) Value {
		r, ok := setString(th, a[0], a[1], th.concInt(a[2], "base"))
		return Tuple{r, ok}
	})
	unmarshal := func(th *Thread, fn *ssa.Function, a []Value) Value {
		s := bytesToStr(a[1])
		if x, ok := s.(string); ok && x == "null" && strings.HasSuffix(fn.Name(), "JSON") {
			return Iface{}
		}
		_, ok := setString(th, a[0], s, 0)
		if !ok {
			return th.newError(fmt.Sprintf("math/big: cannot unmarshal %q into a *big.Int", th.describeStr(s)))
		}
		return Iface{}
	}
	in.reg(b+"UnmarshalJSON", unmarshal)
	in.reg(b+"UnmarshalText", unmarshal)

	// Rat (concrete)
	r := "(*math/big.Rat)."
	ratArg := func(th *Thread, v Value) *big.Rat {
		p, ok := v.(*Value)
		if !ok || p == nil {
			panic(th.ex.in.runtimeError("invalid memory address or nil pointer dereference"))
		}
		return (*p).(RatVal).Get()
	}
	setRat := func(th *Thread, recv Value, x *big.Rat) Value {
		p := recv.(*Value)
		if p == nil {
			panic(th.ex.in.runtimeError("invalid memory address or nil pointer dereference"))
		}
		*p = RatVal{R: x}
		return p
	}
	concBig := func(th *Thread, v Value) *big.Int {
		c, ok := bigArg(th, v).Conc()
		if !ok {
			panic(unsupported("symbolic big.Int into big.Rat"))
		}
		return c
	}
	in.reg("math/big.NewRat", func(th *Thread, fn *ssa.Function, a []Value) Value {
		x, y := th.concInt(a[0], "NewRat"), th.concInt(a[1], "NewRat")
		if y == 0 {
			panic(th.ex.in.runtimeError("division by zero"))
		}
		return ptrTo(RatVal{R: big.NewRat(x, y)})
	})
	ratBin := func(f func(z, x, y *big.Rat) *big.Rat) Intrinsic {
		return func(th *Thread, fn *ssa.Function, a []Value) Value {
			return setRat(th, a[0], f(new(big.Rat), ratArg(th, a[1]), ratArg(th, a[2])))
		}
	}
	in.reg(r+"Add", ratBin((*big.Rat).Add))
	in.reg(r+"Sub", ratBin((*big.Rat).Sub))
	in.reg(r+"Mul", ratBin((*big.Rat).Mul))
	in.reg(r+"Quo", func(th *Thread, fn *ssa.Function, a []Value) Value {
		y := ratArg(th, a[2])
		if y.Sign() == 0 {
			panic(th.ex.in.runtimeError("division by zero"))
		}
		return setRat(th, a[0], new(big.Rat).Quo(ratArg(th, a[1]), y))
	})
	in.reg(r+"Set", func(th *Thread, fn *ssa.Function, a []Value) Value {
		return setRat(th, a[0], new(big.Rat).Set(ratArg(th, a[1])))
	})
	in.reg(r+"Neg", func(th *Thread, fn *ssa.Function, a []Value) Value {
		return setRat(th, a[0], new(big.Rat).Neg(ratArg(th, a[1])))
	})
	in.reg(r+"SetInt", func(th *Thread, fn *ssa.Function, a []Value) Value {
		return setRat(th, a[0], new(big.Rat).SetInt(concBig(th, a[1])))
	})
	in.reg(r+"SetInt64", func(th *Thread, fn *ssa.Function, a []Value) Value {
		return setRat(th, a[0], new(big.Rat).SetInt64(th.concInt(a[1], "SetInt64")))
	})
	in.reg(r+"SetFrac", func(th *Thread, fn *ssa.Function, a []Value) Value {
		d := concBig(th, a[2])
		if d.Sign() == 0 {
			panic(th.ex.in.runtimeError("division by zero"))
		}
		return setRat(th, a[0], new(big.Rat).SetFrac(concBig(th, a[1]), d))
	})
	in.reg(r+"SetString", func(th *Thread, fn *ssa.Function, a []Value) Value {
		x, ok := new(big.Rat).SetString(th.str(a[1], "Rat.SetString"))
		if !ok {
			return Tuple{(*Value)(nil), false}
		}
		return Tuple{setRat(th, a[0], x), true}
	})
	in.reg(r+"Cmp", func(th *Thread, fn *ssa.Function, a []Value) Value {
		return int64(ratArg(th, a[0]).Cmp(ratArg(th, a[1])))
	})
	in.reg(r+"Sign", func(th *Thread, fn *ssa.Function, a []Value) Value {
		return int64(ratArg(th, a[0]).Sign())
	})
	in.reg(r+"IsInt", func(th *Thread, fn *ssa.Function, a []Value) Value {
		return ratArg(th, a[0]).IsInt()
	})
	in.reg(r+"Num", func(th *Thread, fn *ssa.Function, a []Value) Value {
		return ptrTo(BigVal{C: new(big.Int).Set(ratArg(th, a[0]).Num())})
	})
	in.reg(r+"Denom", func(th *Thread, fn *ssa.Function, a []Value) Value {
		return ptrTo(BigVal{C: new(big.Int).Set(ratArg(th, a[0]).Denom())})
	})
	in.reg(r+"String", func(th *Thread, fn *ssa.Function, a []Value) Value {
		return ratArg(th, a[0]).String()
	})
	in.reg(r+"RatString", func(th *Thread, fn *ssa.Function, a []Value) Value {
		return ratArg(th, a[0]).RatString()
	})
	in.reg(r+"FloatString", func(th *Thread, fn *ssa.Function, a []Value) Value {
		return ratArg(th, a[0]).FloatString(int(th.concInt(a[1], "prec")))
	})
}

// bytesToStr converts a []byte value (possibly smuggling a rope) to a string value.
func bytesToStr(v Value) Value {
	bs, ok := v.([]Value)
	if !ok {
		panic(fmt.Sprintf("bytesToStr %T", v))
	}
	if len(bs) == 1 {
		if r, ok := bs[0].(*Rope); ok {
			return r
		}
	}
	return ropeFromBytes(bs)
}

func strToBytes(v Value) []Value {
	switch s := v.(type) {
	case string:
		out := make([]Value, len(s))
		for i := 0; i < len(s); i++ {
			out[i] = int64(s[i])
		}
		return out
	case *Rope:
		if bs, ok := s.bytes(); ok {
			return bs
		}
		return []Value{s}
	}
	panic("strToBytes")
}

func (th *Thread) describeStr(v Value) string {
	switch v := v.(type) {
	case string:
		return v
	case *Rope:
		return v.String()
	}
	return describe(v)
}

// newError builds an *errors.errorString value.
func (th *Thread) newError(msg Value) Value {
	in := th.ex.in
	return Iface{T: in.errorStringPtr, V: ptrTo(Struct{msg})}
}

// lookupMethodOn finds method name on the dynamic type t.
func (in *Interp) methodOf(t types.Type, name string) *ssa.Function {
	ms := in.Prog.MethodSets.MethodSet(t)
	for i := 0; i < ms.Len(); i++ {
		sel := ms.At(i)
		if sel.Obj().Name() == name {
			return in.Prog.MethodValue(sel)
		}
	}
	return nil
}
