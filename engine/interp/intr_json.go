package interp

func registerJSON(in *Interp) {
	for _, f := range extraRegs {
		f(in)
	}
}
