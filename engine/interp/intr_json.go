package interp

// encoding/json over ropes: Marshal prints JSON text (a rope: big integers appear as
// dec(t) segments, hash values as opaque tokens); Unmarshal parses such ropes back,
// type-directed by go/types. Custom MarshalJSON/UnmarshalJSON/MarshalText methods of
// repository types are interpreted.

import (
	"fmt"
	"go/types"
	"reflect"
	"sort"
	"strconv"
	"strings"
	"time"
	"unicode/utf8"

	"golang.org/x/tools/go/ssa"

	"symgo/sym"
)

func registerJSON(in *Interp) {
	for _, f := range extraRegs {
		f(in)
	}
	in.reg("encoding/json.Marshal", func(th *Thread, fn *ssa.Function, a []Value) Value {
		it := a[0].(Iface)
		s, err := th.jsonMarshalTop(it)
		if err != nil {
			return Tuple{[]Value(nil), err}
		}
		return Tuple{strToBytes(s), Iface{}}
	})
	in.reg("encoding/json.MarshalIndent", func(th *Thread, fn *ssa.Function, a []Value) Value {
		it := a[0].(Iface)
		th.stub("json.MarshalIndent:no-indent")
		s, err := th.jsonMarshalTop(it)
		if err != nil {
			return Tuple{[]Value(nil), err}
		}
		return Tuple{strToBytes(s), Iface{}}
	})
	in.reg("encoding/json.Unmarshal", func(th *Thread, fn *ssa.Function, a []Value) Value {
		return th.jsonUnmarshalTop(bytesToStr(a[0]), a[1].(Iface), false, false)
	})
	in.reg("encoding/json.Valid", func(th *Thread, fn *ssa.Function, a []Value) Value {
		p := &jparser{th: th, segs: ropeOf(bytesToStr(a[0])).Segs}
		_, err := p.parseTop()
		return err == ""
	})
	// Encoder
	encT := func() types.Type { return in.Prog.ImportedPackage("encoding/json").Type("Encoder").Type() }
	in.reg("encoding/json.NewEncoder", func(th *Thread, fn *ssa.Function, a []Value) Value {
		_ = encT
		return ptrTo(Native{&jsonEncoder{w: a[0].(Iface)}})
	})
	encOf := func(v Value) *jsonEncoder { return (*(v.(*Value))).(Native).X.(*jsonEncoder) }
	in.reg("(*encoding/json.Encoder).Encode", func(th *Thread, fn *ssa.Function, a []Value) Value {
		e := encOf(a[0])
		s, err := th.jsonMarshalTop(a[1].(Iface))
		if err != nil {
			return err
		}
		s = concatStr(s, "\n")
		wm := in.methodOf(e.w.T, "Write")
		if wm == nil {
			panic(unsupported("json.Encoder: writer %v has no Write", e.w.T))
		}
		r := th.call(nil, 0, wm, []Value{e.w.V, strToBytes(s)})
		if t, ok := r.(Tuple); ok {
			if ei, ok := t[1].(Iface); ok && ei.T != nil {
				return ei
			}
		}
		return Iface{}
	})
	in.reg("(*encoding/json.Encoder).SetIndent", func(th *Thread, fn *ssa.Function, a []Value) Value { return nil })
	in.reg("(*encoding/json.Encoder).SetEscapeHTML", func(th *Thread, fn *ssa.Function, a []Value) Value {
		encOf(a[0]).noHTML = !a[1].(bool)
		return nil
	})
	// Decoder
	in.reg("encoding/json.NewDecoder", func(th *Thread, fn *ssa.Function, a []Value) Value {
		return ptrTo(Native{&jsonDecoder{r: a[0].(Iface)}})
	})
	decOf := func(v Value) *jsonDecoder { return (*(v.(*Value))).(Native).X.(*jsonDecoder) }
	in.reg("(*encoding/json.Decoder).UseNumber", func(th *Thread, fn *ssa.Function, a []Value) Value {
		decOf(a[0]).useNumber = true
		return nil
	})
	in.reg("(*encoding/json.Decoder).DisallowUnknownFields", func(th *Thread, fn *ssa.Function, a []Value) Value {
		decOf(a[0]).strict = true
		return nil
	})
	in.reg("(*encoding/json.Decoder).Decode", func(th *Thread, fn *ssa.Function, a []Value) Value {
		d := decOf(a[0])
		if !d.loaded {
			d.loaded = true
			d.data = th.readAll(d.r)
		}
		if d.consumed {
			return th.ioEOF()
		}
		d.consumed = true
		return th.jsonUnmarshalTop(d.data, a[1].(Iface), d.useNumber, d.strict)
	})
	in.reg("(encoding/json.Number).String", func(th *Thread, fn *ssa.Function, a []Value) Value { return a[0] })
	in.reg("(encoding/json.RawMessage).MarshalJSON", func(th *Thread, fn *ssa.Function, a []Value) Value {
		if a[0].([]Value) == nil {
			return Tuple{strToBytes("null"), Iface{}}
		}
		return Tuple{a[0], Iface{}}
	})
	in.reg("(*encoding/json.RawMessage).UnmarshalJSON", func(th *Thread, fn *ssa.Function, a []Value) Value {
		p := a[0].(*Value)
		*p = append([]Value(nil), a[1].([]Value)...)
		return Iface{}
	})
	in.reg("io.ReadAll", func(th *Thread, fn *ssa.Function, a []Value) Value {
		return Tuple{strToBytes(th.readAll(a[0].(Iface))), Iface{}}
	})
}

type jsonEncoder struct {
	w      Iface
	noHTML bool
}

type jsonDecoder struct {
	r         Iface
	loaded    bool
	consumed  bool
	data      Value
	useNumber bool
	strict    bool
}

func (th *Thread) ioEOF() Value {
	g := th.ex.in.Prog.ImportedPackage("io").Var("EOF")
	v := *th.ex.in.global(g)
	if it, ok := v.(Iface); ok && it.T != nil {
		return it
	}
	return th.newError("EOF")
}

// readAll drains an io.Reader value.
func (th *Thread) readAll(r Iface) Value {
	in := th.ex.in
	if r.T == nil {
		panic(in.runtimeError("invalid memory address or nil pointer dereference"))
	}
	if n, ok := nativeOf(r.V); ok {
		if br, ok := n.(*BodyReader); ok {
			d := br.data
			br.data = ""
			return d
		}
	}
	rm := in.methodOf(r.T, "Read")
	if rm == nil {
		panic(unsupported("readAll: %v has no Read", r.T))
	}
	var out Value = ""
	for i := 0; i < 10000; i++ {
		buf := make([]Value, 512)
		for j := range buf {
			buf[j] = int64(0)
		}
		res := th.call(nil, 0, rm, []Value{r.V, buf}).(Tuple)
		n := int(th.concInt(res[0], "Read n"))
		if n > 0 {
			out = concatStr(out, ropeFromBytes(buf[:n]))
		}
		if e, ok := res[1].(Iface); ok && e.T != nil {
			break
		}
		if n == 0 {
			break
		}
	}
	return out
}

// BodyReader is a native io.ReadCloser over a rope (request bodies built by harnesses).
type BodyReader struct{ data Value }

func nativeOf(v Value) (interface{}, bool) {
	p, ok := v.(*Value)
	if !ok || p == nil {
		return nil, false
	}
	n, ok := (*p).(Native)
	if !ok {
		return nil, false
	}
	return n.X, true
}

// ---------- marshal ----------

type jsonField struct {
	name      string
	index     []int
	typ       types.Type
	omitEmpty bool
	quoted    bool
}

func parseTag(tag string) (name string, opts string, skip bool) {
	st := reflect.StructTag(tag)
	v, ok := st.Lookup("json")
	if !ok {
		return "", "", false
	}
	if v == "-" {
		return "", "", true
	}
	if i := strings.Index(v, ","); i >= 0 {
		return v[:i], v[i+1:], false
	}
	return v, "", false
}

// jsonFields lists the JSON-visible fields of a struct type (embedded structs flattened).
func (in *Interp) jsonFields(st *types.Struct) []jsonField {
	var out []jsonField
	seen := map[string]bool{}
	var walk func(st *types.Struct, prefix []int)
	walk = func(st *types.Struct, prefix []int) {
		var embedded []int
		for i := 0; i < st.NumFields(); i++ {
			f := st.Field(i)
			name, opts, skip := parseTag(st.Tag(i))
			if skip {
				continue
			}
			idx := append(append([]int(nil), prefix...), i)
			if f.Embedded() && name == "" {
				ft := f.Type()
				if p, ok := ft.Underlying().(*types.Pointer); ok {
					ft = p.Elem()
				}
				if _, ok := ft.Underlying().(*types.Struct); ok && in.opaqueOf(ft) == opNone {
					if in.methodOf(f.Type(), "MarshalJSON") == nil {
						embedded = append(embedded, i)
						continue
					}
				}
			}
			if !f.Exported() {
				continue
			}
			if name == "" {
				name = f.Name()
			}
			if seen[name] {
				continue
			}
			seen[name] = true
			out = append(out, jsonField{name: name, index: idx, typ: f.Type(), omitEmpty: strings.Contains(opts, "omitempty"), quoted: strings.Contains(opts, "string")})
		}
		for _, i := range embedded {
			f := st.Field(i)
			ft := f.Type()
			if p, ok := ft.Underlying().(*types.Pointer); ok {
				ft = p.Elem()
			}
			walk(ft.Underlying().(*types.Struct), append(append([]int(nil), prefix...), i))
		}
	}
	walk(st, nil)
	return out
}

// fieldByIndex follows an index path through (possibly pointer-) embedded structs.
func fieldByIndex(v Value, index []int) (Value, bool) {
	cur := v
	for n, i := range index {
		if p, ok := cur.(*Value); ok {
			if p == nil {
				return nil, false
			}
			cur = *p
		}
		s, ok := cur.(Struct)
		if !ok {
			return nil, false
		}
		cur = s[i]
		_ = n
	}
	return cur, true
}

func (th *Thread) jsonMarshalTop(it Iface) (Value, Value) {
	var errv Value
	var out Value
	func() {
		defer func() {
			if r := recover(); r != nil {
				if je, ok := r.(jsonErr); ok {
					errv = je.v
					return
				}
				panic(r)
			}
		}()
		if it.T == nil {
			out = "null"
			return
		}
		out = th.jsonMarshal(it.T, it.V, false)
	}()
	return out, errv
}

type jsonErr struct{ v Value }

func jsonQuote(s string, escapeHTML bool) string {
	var sb strings.Builder
	sb.WriteByte('"')
	for i := 0; i < len(s); {
		b := s[i]
		if b < utf8.RuneSelf {
			switch {
			case b == '"' || b == '\\':
				sb.WriteByte('\\')
				sb.WriteByte(b)
			case b == '\n':
				sb.WriteString(`\n`)
			case b == '\r':
				sb.WriteString(`\r`)
			case b == '\t':
				sb.WriteString(`\t`)
			case b < 0x20 || (escapeHTML && (b == '<' || b == '>' || b == '&')):
				sb.WriteString(fmt.Sprintf(`\u%04x`, b))
			default:
				sb.WriteByte(b)
			}
			i++
			continue
		}
		r, size := utf8.DecodeRuneInString(s[i:])
		if r == utf8.RuneError && size == 1 {
			sb.WriteString(`�`)
			i++
			continue
		}
		if r == ' ' || r == ' ' {
			sb.WriteString(fmt.Sprintf(`\u%04x`, r))
			i += size
			continue
		}
		sb.WriteString(s[i : i+size])
		i += size
	}
	sb.WriteByte('"')
	return sb.String()
}

// jsonQuoteVal quotes a string value; symbolic bytes are assumed to need no escaping.
func (th *Thread) jsonQuoteVal(v Value) Value {
	switch s := v.(type) {
	case string:
		return jsonQuote(s, true)
	case *Rope:
		segs := []Seg{{S: `"`}}
		for _, sg := range s.Segs {
			switch {
			case sg.B != nil:
				th.assumePlainByte(sg.B)
				segs = append(segs, sg)
			case sg.D != nil, sg.H != nil:
				segs = append(segs, sg)
			default:
				q := jsonQuote(sg.S, true)
				segs = append(segs, Seg{S: q[1 : len(q)-1]})
			}
		}
		segs = append(segs, Seg{S: `"`})
		return normRope(&Rope{Segs: segs})
	}
	panic("jsonQuoteVal")
}

// assumePlainByte restricts a symbolic byte to printable ASCII without JSON/HTML specials.
func (th *Thread) assumePlainByte(b *sym.Term) {
	c := func(x byte) *sym.Term { return sym.BVConst(uint64(x), 8) }
	ok := sym.And(sym.BVCmp("bvule", c(0x20), b), sym.BVCmp("bvule", b, c(0x7e)),
		sym.Not(sym.Eq(b, c('"'))), sym.Not(sym.Eq(b, c('\\'))), sym.Not(sym.Eq(b, c('<'))), sym.Not(sym.Eq(b, c('>'))), sym.Not(sym.Eq(b, c('&'))))
	th.ex.assume(ok, "json: symbolic string bytes assumed printable ASCII without \" \\ < > &")
}

func (th *Thread) isEmptyJSON(t types.Type, v Value) bool {
	switch x := v.(type) {
	case bool:
		return !x
	case int64:
		return x == 0
	case float64:
		return x == 0
	case string:
		return x == ""
	case *Rope:
		return false
	case *Value:
		return x == nil
	case []Value:
		return len(x) == 0
	case *Map:
		return x == nil || x.Len() == 0
	case Iface:
		return x.T == nil
	case Array:
		return len(x) == 0
	case *sym.Term:
		if x.Sort == sym.SBool {
			return !th.branch(x)
		}
		return th.branch(th.equals(x, int64(0)))
	}
	return false
}

func (th *Thread) callMarshaler(m *ssa.Function, recv Value) Value {
	r := th.call(nil, 0, m, []Value{recv}).(Tuple)
	if e, ok := r[1].(Iface); ok && e.T != nil {
		panic(jsonErr{e})
	}
	return bytesToStr(r[0])
}

func (th *Thread) jsonMarshal(t types.Type, v Value, addressable bool) Value {
	in := th.ex.in
	// Marshaler / TextMarshaler on the value's type
	if _, isIface := t.Underlying().(*types.Interface); !isIface {
		if p, ok := v.(*Value); ok && p == nil {
			if _, isPtr := t.Underlying().(*types.Pointer); isPtr {
				return "null"
			}
		}
		if m := in.methodOf(t, "MarshalJSON"); m != nil && m.Signature.Params().Len() == 0 {
			return th.callMarshaler(m, v)
		}
		if m := in.methodOf(t, "MarshalText"); m != nil && m.Signature.Params().Len() == 0 {
			return th.jsonQuoteVal(th.callMarshaler(m, v))
		}
		// pointer-receiver marshalers on addressable values
		if _, isPtr := t.Underlying().(*types.Pointer); !isPtr {
			pt := types.NewPointer(t)
			if m := in.methodOf(pt, "MarshalJSON"); m != nil && m.Signature.Params().Len() == 0 {
				return th.callMarshaler(m, ptrTo(v))
			}
		}
	}
	switch in.opaqueOf(t) {
	case opTime:
		b, err := v.(time.Time).MarshalJSON()
		if err != nil {
			panic(jsonErr{th.newError(err.Error())})
		}
		return string(b)
	case opBigInt:
		bv := v.(BigVal)
		if c, ok := bv.Conc(); ok {
			return c.String()
		}
		return &Rope{Segs: []Seg{{D: bv.T}}}
	}
	switch u := t.Underlying().(type) {
	case *types.Basic:
		switch {
		case u.Info()&types.IsBoolean != 0:
			switch b := v.(type) {
			case bool:
				return strconv.FormatBool(b)
			case *sym.Term:
				if th.branch(b) {
					return "true"
				}
				return "false"
			}
		case u.Info()&types.IsInteger != 0:
			ii, _ := basicIntInfo(u.Kind())
			switch i := v.(type) {
			case int64:
				if ii.signed {
					return strconv.FormatInt(i, 10)
				}
				return strconv.FormatUint(uint64(i), 10)
			case *sym.Term:
				return &Rope{Segs: []Seg{{D: sym.BV2Int(i, ii.signed)}}}
			}
		case u.Info()&types.IsFloat != 0:
			return strconv.FormatFloat(v.(float64), 'g', -1, 64)
		case u.Info()&types.IsString != 0:
			return th.jsonQuoteVal(v)
		}
	case *types.Pointer:
		p := v.(*Value)
		if p == nil {
			return "null"
		}
		return th.jsonMarshal(u.Elem(), *p, true)
	case *types.Interface:
		it := v.(Iface)
		if it.T == nil {
			return "null"
		}
		return th.jsonMarshal(it.T, it.V, false)
	case *types.Struct:
		sv, ok := v.(Struct)
		if !ok {
			panic(unsupported("json.Marshal of opaque %v", t))
		}
		var out Value = "{"
		first := true
		for _, f := range in.jsonFields(u) {
			fv, ok := fieldByIndex(sv, f.index)
			if !ok {
				continue
			}
			if f.omitEmpty && th.isEmptyJSON(f.typ, fv) {
				continue
			}
			if !first {
				out = concatStr(out, ",")
			}
			first = false
			out = concatStr(out, jsonQuote(f.name, true)+":")
			enc := th.jsonMarshal(f.typ, fv, true)
			if f.quoted {
				if _, isStr := f.typ.Underlying().(*types.Basic); isStr {
					enc = concatStr(concatStr(`"`, enc), `"`)
				}
			}
			out = concatStr(out, enc)
		}
		return concatStr(out, "}")
	case *types.Map:
		mv := v.(*Map)
		if mv == nil {
			return "null"
		}
		type kv struct {
			k string
			v Value
		}
		var items []kv
		for _, e := range mv.entries {
			if e.deleted {
				continue
			}
			var ks string
			switch k := e.k.(type) {
			case string:
				ks = k
			case int64:
				ks = strconv.FormatInt(k, 10)
			default:
				if m := in.methodOf(u.Key(), "MarshalText"); m != nil {
					ks = th.str(th.callMarshaler(m, e.k), "map key")
				} else {
					panic(unsupported("json.Marshal: symbolic or unsupported map key %T", e.k))
				}
			}
			items = append(items, kv{ks, e.v})
		}
		sort.Slice(items, func(i, j int) bool { return items[i].k < items[j].k })
		var out Value = "{"
		for i, it := range items {
			if i > 0 {
				out = concatStr(out, ",")
			}
			out = concatStr(out, jsonQuote(it.k, true)+":")
			out = concatStr(out, th.jsonMarshal(u.Elem(), it.v, false))
		}
		return concatStr(out, "}")
	case *types.Slice:
		sv := v.([]Value)
		if sv == nil {
			return "null"
		}
		if eb, ok := u.Elem().Underlying().(*types.Basic); ok && eb.Kind() == types.Uint8 {
			if in.methodOf(u.Elem(), "MarshalJSON") == nil {
				return th.jsonBytes(sv)
			}
		}
		var out Value = "["
		for i, e := range sv {
			if i > 0 {
				out = concatStr(out, ",")
			}
			out = concatStr(out, th.jsonMarshal(u.Elem(), e, true))
		}
		return concatStr(out, "]")
	case *types.Array:
		av := v.(Array)
		var out Value = "["
		for i, e := range av {
			if i > 0 {
				out = concatStr(out, ",")
			}
			out = concatStr(out, th.jsonMarshal(u.Elem(), e, addressable))
		}
		return concatStr(out, "]")
	}
	panic(unsupported("json.Marshal of %v (%T)", t, v))
}

// jsonBytes renders []byte as a base64 string; hash tokens stay opaque.
func (th *Thread) jsonBytes(bs []Value) Value {
	if len(bs) > 0 {
		if tok, ok := bs[0].(*HashToken); ok {
			return &Rope{Segs: []Seg{{S: `"`}, {H: tok}, {S: `"`}}}
		}
	}
	raw := make([]byte, len(bs))
	for i, b := range bs {
		c, ok := b.(int64)
		if !ok {
			panic(unsupported("json.Marshal of symbolic []byte"))
		}
		raw[i] = byte(c)
	}
	return `"` + stdBase64(raw) + `"`
}

// ---------- parse ----------

type jnode struct {
	kind  byte // n(ull) t f s(tring) d(number) a o
	str   Value
	num   Value // number text (string) or rope with one D
	elems []*jnode
	keys  []string
	raw   Value
}

type jparser struct {
	th   *Thread
	segs []Seg
	si   int // segment index
	off  int // offset inside concrete segment
}

func (p *jparser) peek() (byte, bool, *Seg) {
	for p.si < len(p.segs) {
		s := &p.segs[p.si]
		if s.B != nil || s.D != nil || s.H != nil {
			return 0, true, s
		}
		if p.off < len(s.S) {
			return s.S[p.off], true, nil
		}
		p.si++
		p.off = 0
	}
	return 0, false, nil
}

func (p *jparser) adv() {
	s := &p.segs[p.si]
	if s.B != nil || s.D != nil || s.H != nil {
		p.si++
		p.off = 0
		return
	}
	p.off++
}

func (p *jparser) skipWS() {
	for {
		c, ok, sp := p.peek()
		if !ok || sp != nil {
			return
		}
		if c == ' ' || c == '\t' || c == '\n' || c == '\r' {
			p.adv()
			continue
		}
		return
	}
}

type jpos struct{ si, off int }

func (p *jparser) pos() jpos { return jpos{p.si, p.off} }

func (p *jparser) slice(a, b jpos) Value {
	r := &Rope{}
	for i := a.si; i <= b.si && i < len(p.segs); i++ {
		s := p.segs[i]
		if s.B != nil || s.D != nil || s.H != nil {
			if i == b.si {
				break
			}
			r.Segs = append(r.Segs, s)
			continue
		}
		lo, hi := 0, len(s.S)
		if i == a.si {
			lo = a.off
		}
		if i == b.si {
			hi = b.off
		}
		if lo < hi {
			r.Segs = append(r.Segs, Seg{S: s.S[lo:hi]})
		}
	}
	return normRope(r)
}

func (p *jparser) parseTop() (*jnode, string) {
	p.skipWS()
	n, err := p.parseValue()
	if err != "" {
		return nil, err
	}
	p.skipWS()
	if _, ok, _ := p.peek(); ok {
		return nil, "invalid character after top-level value"
	}
	return n, ""
}

func (p *jparser) lit(word string) bool {
	save := p.pos()
	for i := 0; i < len(word); i++ {
		c, ok, sp := p.peek()
		if !ok || sp != nil || c != word[i] {
			p.si, p.off = save.si, save.off
			return false
		}
		p.adv()
	}
	return true
}

func (p *jparser) parseValue() (*jnode, string) {
	start := p.pos()
	c, ok, sp := p.peek()
	if !ok {
		return nil, "unexpected end of JSON input"
	}
	finish := func(n *jnode) (*jnode, string) {
		n.raw = p.slice(start, p.pos())
		return n, ""
	}
	if sp != nil {
		if sp.D != nil {
			p.adv()
			return finish(&jnode{kind: 'd', num: &Rope{Segs: []Seg{*sp}}})
		}
		return nil, "invalid character (symbolic) looking for beginning of value"
	}
	switch {
	case c == 'n':
		if p.lit("null") {
			return finish(&jnode{kind: 'n'})
		}
	case c == 't':
		if p.lit("true") {
			return finish(&jnode{kind: 't'})
		}
	case c == 'f':
		if p.lit("false") {
			return finish(&jnode{kind: 'f'})
		}
	case c == '"':
		s, err := p.parseString()
		if err != "" {
			return nil, err
		}
		return finish(&jnode{kind: 's', str: s})
	case c == '-' || (c >= '0' && c <= '9'):
		var sb strings.Builder
		for {
			c, ok, sp := p.peek()
			if !ok || sp != nil {
				break
			}
			if (c >= '0' && c <= '9') || c == '-' || c == '+' || c == '.' || c == 'e' || c == 'E' {
				sb.WriteByte(c)
				p.adv()
				continue
			}
			break
		}
		txt := sb.String()
		if !validJSONNumber(txt) {
			return nil, "invalid number literal " + txt
		}
		return finish(&jnode{kind: 'd', num: txt})
	case c == '[':
		p.adv()
		n := &jnode{kind: 'a'}
		p.skipWS()
		if c, ok, sp := p.peek(); ok && sp == nil && c == ']' {
			p.adv()
			return finish(n)
		}
		for {
			p.skipWS()
			e, err := p.parseValue()
			if err != "" {
				return nil, err
			}
			n.elems = append(n.elems, e)
			p.skipWS()
			c, ok, sp := p.peek()
			if !ok || sp != nil {
				return nil, "unexpected end of JSON input"
			}
			p.adv()
			if c == ',' {
				continue
			}
			if c == ']' {
				return finish(n)
			}
			return nil, "invalid character after array element"
		}
	case c == '{':
		p.adv()
		n := &jnode{kind: 'o'}
		p.skipWS()
		if c, ok, sp := p.peek(); ok && sp == nil && c == '}' {
			p.adv()
			return finish(n)
		}
		for {
			p.skipWS()
			c, ok, sp := p.peek()
			if !ok || sp != nil || c != '"' {
				return nil, "invalid character looking for beginning of object key string"
			}
			k, err := p.parseString()
			if err != "" {
				return nil, err
			}
			ks, isConc := k.(string)
			if !isConc {
				panic(unsupported("json: symbolic object key"))
			}
			p.skipWS()
			c, ok, sp = p.peek()
			if !ok || sp != nil || c != ':' {
				return nil, "invalid character after object key"
			}
			p.adv()
			p.skipWS()
			e, err := p.parseValue()
			if err != "" {
				return nil, err
			}
			n.keys = append(n.keys, ks)
			n.elems = append(n.elems, e)
			p.skipWS()
			c, ok, sp = p.peek()
			if !ok || sp != nil {
				return nil, "unexpected end of JSON input"
			}
			p.adv()
			if c == ',' {
				continue
			}
			if c == '}' {
				return finish(n)
			}
			return nil, "invalid character after object key:value pair"
		}
	}
	return nil, fmt.Sprintf("invalid character %q looking for beginning of value", string(c))
}

func validJSONNumber(s string) bool {
	if s == "" {
		return false
	}
	i := 0
	if s[i] == '-' {
		i++
		if i == len(s) {
			return false
		}
	}
	switch {
	case s[i] == '0':
		i++
	case s[i] >= '1' && s[i] <= '9':
		for i < len(s) && s[i] >= '0' && s[i] <= '9' {
			i++
		}
	default:
		return false
	}
	if i < len(s) && s[i] == '.' {
		i++
		if i == len(s) || s[i] < '0' || s[i] > '9' {
			return false
		}
		for i < len(s) && s[i] >= '0' && s[i] <= '9' {
			i++
		}
	}
	if i < len(s) && (s[i] == 'e' || s[i] == 'E') {
		i++
		if i < len(s) && (s[i] == '+' || s[i] == '-') {
			i++
		}
		if i == len(s) || s[i] < '0' || s[i] > '9' {
			return false
		}
		for i < len(s) && s[i] >= '0' && s[i] <= '9' {
			i++
		}
	}
	return i == len(s)
}

func (p *jparser) parseString() (Value, string) {
	p.adv() // opening quote
	out := &Rope{}
	var sb strings.Builder
	flush := func() {
		if sb.Len() > 0 {
			out.Segs = append(out.Segs, Seg{S: sb.String()})
			sb.Reset()
		}
	}
	for {
		c, ok, sp := p.peek()
		if !ok {
			return nil, "unexpected end of JSON input"
		}
		if sp != nil {
			flush()
			if sp.B != nil {
				p.th.assumePlainByte(sp.B)
			}
			out.Segs = append(out.Segs, *sp)
			p.adv()
			continue
		}
		p.adv()
		switch {
		case c == '"':
			flush()
			return normRope(out), ""
		case c == '\\':
			e, ok, sp := p.peek()
			if !ok || sp != nil {
				return nil, "invalid escape"
			}
			p.adv()
			switch e {
			case '"', '\\', '/':
				sb.WriteByte(e)
			case 'b':
				sb.WriteByte('\b')
			case 'f':
				sb.WriteByte('\f')
			case 'n':
				sb.WriteByte('\n')
			case 'r':
				sb.WriteByte('\r')
			case 't':
				sb.WriteByte('\t')
			case 'u':
				var hex [4]byte
				for i := 0; i < 4; i++ {
					h, ok, sp := p.peek()
					if !ok || sp != nil {
						return nil, "invalid \\u escape"
					}
					hex[i] = h
					p.adv()
				}
				r, err := strconv.ParseUint(string(hex[:]), 16, 32)
				if err != nil {
					return nil, "invalid \\u escape"
				}
				sb.WriteRune(rune(r))
			default:
				return nil, "invalid escape character"
			}
		case c < 0x20:
			return nil, "invalid character in string literal"
		default:
			sb.WriteByte(c)
		}
	}
}

// ---------- decode ----------

func (th *Thread) jsonUnmarshalTop(data Value, target Iface, useNumber, strict bool) Value {
	in := th.ex.in
	p := &jparser{th: th, segs: ropeOf(data).Segs}
	n, perr := p.parseTop()
	if perr != "" {
		return th.jsonSyntaxError(perr)
	}
	if target.T == nil {
		return th.newError("json: Unmarshal(nil)")
	}
	pt, ok := target.T.Underlying().(*types.Pointer)
	tp, _ := target.V.(*Value)
	if !ok || tp == nil {
		return th.newError("json: Unmarshal(non-pointer " + target.T.String() + ")")
	}
	d := &jdecoder{th: th, useNumber: useNumber, strict: strict}
	var errv Value = Iface{}
	func() {
		defer func() {
			if r := recover(); r != nil {
				if je, ok := r.(jsonErr); ok {
					errv = je.v
					return
				}
				panic(r)
			}
		}()
		d.decode(pt.Elem(), n, tp)
	}()
	if d.firstErr != nil {
		if e, ok := errv.(Iface); ok && e.T == nil {
			return d.firstErr
		}
	}
	_ = in
	return errv
}

func (th *Thread) jsonSyntaxError(msg string) Value {
	in := th.ex.in
	th.stub("json:SyntaxError")
	if p := in.Prog.ImportedPackage("encoding/json"); p != nil {
		if t := p.Type("SyntaxError"); t != nil {
			// struct{msg string; Offset int64}
			return Iface{T: types.NewPointer(t.Type()), V: ptrTo(Struct{msg, int64(0)})}
		}
	}
	return th.newError(msg)
}

type jdecoder struct {
	th        *Thread
	useNumber bool
	strict    bool
	firstErr  Value
}

func (d *jdecoder) typeErr(n *jnode, t types.Type) {
	kind := map[byte]string{'n': "null", 't': "bool", 'f': "bool", 's': "string", 'd': "number", 'a': "array", 'o': "object"}[n.kind]
	if d.firstErr == nil {
		d.firstErr = d.th.newError("json: cannot unmarshal " + kind + " into Go value of type " + types.TypeString(t, func(p *types.Package) string { return p.Name() }))
	}
}

func (d *jdecoder) decode(t types.Type, n *jnode, dst *Value) {
	th := d.th
	in := th.ex.in
	// Unmarshaler on *T
	if _, isIface := t.Underlying().(*types.Interface); !isIface {
		pt := types.NewPointer(t)
		if _, isPtr := t.Underlying().(*types.Pointer); isPtr {
			// T itself is a pointer type: allocate and let the element type handle it
			if n.kind == 'n' {
				*dst = (*Value)(nil)
				return
			}
			el := t.Underlying().(*types.Pointer).Elem()
			cur, _ := (*dst).(*Value)
			if cur == nil {
				cur = ptrTo(in.zero(el))
				*dst = cur
			}
			d.decode(el, n, cur)
			return
		}
		if m := in.methodOf(pt, "UnmarshalJSON"); m != nil && m.Signature.Params().Len() == 1 {
			r := th.call(nil, 0, m, []Value{dst, strToBytes(n.raw)})
			if e, ok := r.(Iface); ok && e.T != nil {
				panic(jsonErr{e})
			}
			return
		}
		if n.kind == 's' {
			if m := in.methodOf(pt, "UnmarshalText"); m != nil && m.Signature.Params().Len() == 1 {
				r := th.call(nil, 0, m, []Value{dst, strToBytes(n.str)})
				if e, ok := r.(Iface); ok && e.T != nil {
					panic(jsonErr{e})
				}
				return
			}
		}
	}
	if n.kind == 'n' {
		switch t.Underlying().(type) {
		case *types.Interface, *types.Map, *types.Slice:
			*dst = in.zero(t)
		}
		return
	}
	switch in.opaqueOf(t) {
	case opTime:
		var tm time.Time
		if err := tm.UnmarshalJSON([]byte(th.str(n.raw, "time json"))); err != nil {
			panic(jsonErr{th.newError(err.Error())})
		}
		*dst = tm
		return
	case opBigInt:
		if n.kind != 'd' {
			d.typeErr(n, t)
			return
		}
		switch x := n.num.(type) {
		case string:
			v, ok := parseBigDec(x)
			if !ok {
				d.typeErr(n, t)
				return
			}
			*dst = BigVal{C: v}
		case *Rope:
			*dst = BigVal{T: x.Segs[0].D}
		}
		return
	}
	switch u := t.Underlying().(type) {
	case *types.Interface:
		// a non-nil pointer stored in the interface is decoded into (encoding/json semantics)
		if cur, ok := (*dst).(Iface); ok && cur.T != nil {
			if pt, ok := cur.T.Underlying().(*types.Pointer); ok {
				if pv, _ := cur.V.(*Value); pv != nil {
					d.decode(pt.Elem(), n, pv)
					return
				}
			}
		}
		if u.NumMethods() > 0 {
			d.typeErr(n, t)
			return
		}
		*dst = d.generic(n)
	case *types.Basic:
		switch {
		case u.Info()&types.IsBoolean != 0:
			if n.kind != 't' && n.kind != 'f' {
				d.typeErr(n, t)
				return
			}
			*dst = n.kind == 't'
		case u.Info()&types.IsString != 0:
			if n.kind != 's' {
				d.typeErr(n, t)
				return
			}
			*dst = n.str
		case u.Info()&types.IsInteger != 0:
			if n.kind != 'd' {
				d.typeErr(n, t)
				return
			}
			ii, _ := basicIntInfo(u.Kind())
			switch x := n.num.(type) {
			case string:
				if ii.signed {
					v, err := strconv.ParseInt(x, 10, ii.w)
					if err != nil {
						d.typeErr(n, t)
						return
					}
					*dst = v
				} else {
					v, err := strconv.ParseUint(x, 10, ii.w)
					if err != nil {
						d.typeErr(n, t)
						return
					}
					*dst = normInt(int64(v), ii)
				}
			case *Rope:
				// symbolic integer: in range or error
				term := x.Segs[0].D
				lo, hi := intRange(ii)
				if th.branch(fromBoolTerm(sym.And(sym.ILe(sym.IntConst(lo), term), sym.ILe(term, sym.IntConst(hi))))) {
					*dst = fromBV(sym.Int2BV(term, ii.w), ii)
				} else {
					d.typeErr(n, t)
				}
			}
		case u.Info()&types.IsFloat != 0:
			if n.kind != 'd' {
				d.typeErr(n, t)
				return
			}
			f, err := strconv.ParseFloat(th.str(n.num, "float"), 64)
			if err != nil {
				d.typeErr(n, t)
				return
			}
			*dst = f
		}
	case *types.Struct:
		if n.kind != 'o' {
			d.typeErr(n, t)
			return
		}
		sv, ok := (*dst).(Struct)
		if !ok {
			panic(unsupported("json decode into opaque struct %v", t))
		}
		fields := in.jsonFields(u)
		for i, k := range n.keys {
			var f *jsonField
			for fi := range fields {
				if fields[fi].name == k {
					f = &fields[fi]
					break
				}
			}
			if f == nil {
				for fi := range fields {
					if strings.EqualFold(fields[fi].name, k) {
						f = &fields[fi]
						break
					}
				}
			}
			if f == nil {
				if d.strict {
					panic(jsonErr{th.newError(fmt.Sprintf("json: unknown field %q", k))})
				}
				continue
			}
			slot := d.fieldSlot(u, sv, f.index)
			if slot == nil {
				continue
			}
			d.decode(f.typ, n.elems[i], slot)
		}
	case *types.Map:
		if n.kind != 'o' {
			d.typeErr(n, t)
			return
		}
		m, _ := (*dst).(*Map)
		if m == nil {
			m = newMap()
			*dst = m
		}
		for i, k := range n.keys {
			var kv Value = k
			if kb, ok := u.Key().Underlying().(*types.Basic); ok && kb.Info()&types.IsInteger != 0 {
				iv, err := strconv.ParseInt(k, 10, 64)
				if err != nil {
					d.typeErr(n, t)
					continue
				}
				kv = iv
			}
			cell := new(Value)
			*cell = in.zero(u.Elem())
			d.decode(u.Elem(), n.elems[i], cell)
			th.mapUpdate(m, kv, *cell)
		}
	case *types.Slice:
		if eb, ok := u.Elem().Underlying().(*types.Basic); ok && eb.Kind() == types.Uint8 && n.kind == 's' {
			*dst = d.decodeBytes(n.str)
			return
		}
		if n.kind != 'a' {
			d.typeErr(n, t)
			return
		}
		// like encoding/json: the slice is reset to length 0 and refilled; elements that
		// fit the existing capacity are decoded into the existing memory (not zeroed:
		// members the JSON omits keep what the backing array held)
		prev, _ := (*dst).([]Value)
		full := prev[:cap(prev)]
		var out []Value
		if len(n.elems) <= len(full) {
			out = full[:len(n.elems)]
		} else {
			out = make([]Value, len(n.elems))
			copy(out, full)
			for i := len(full); i < len(out); i++ {
				out[i] = in.zero(u.Elem())
			}
		}
		for i, e := range n.elems {
			if out[i] == nil {
				out[i] = in.zero(u.Elem())
			}
			d.decode(u.Elem(), e, &out[i])
		}
		*dst = out
	case *types.Array:
		if n.kind != 'a' {
			d.typeErr(n, t)
			return
		}
		av := (*dst).(Array)
		for i, e := range n.elems {
			if i < len(av) {
				d.decode(u.Elem(), e, &av[i])
			}
		}
	default:
		panic(unsupported("json decode into %v", t))
	}
}

func intRange(ii intInfo) (lo, hi *bigInt) {
	one := newBig(1)
	if ii.signed {
		h := new(bigInt).Lsh(one, uint(ii.w-1))
		return new(bigInt).Neg(h), new(bigInt).Sub(h, one)
	}
	return newBig(0), new(bigInt).Sub(new(bigInt).Lsh(one, uint(ii.w)), one)
}

// fieldSlot returns the address of the field at index path, allocating embedded pointers.
func (d *jdecoder) fieldSlot(st *types.Struct, sv Struct, index []int) *Value {
	in := d.th.ex.in
	cur := sv
	curT := st
	for n, i := range index {
		if n == len(index)-1 {
			return &cur[i]
		}
		ft := curT.Field(i).Type()
		if p, ok := ft.Underlying().(*types.Pointer); ok {
			pv, _ := cur[i].(*Value)
			if pv == nil {
				pv = ptrTo(in.zero(p.Elem()))
				cur[i] = pv
			}
			cur = (*pv).(Struct)
			curT = p.Elem().Underlying().(*types.Struct)
		} else {
			cur = cur[i].(Struct)
			curT = ft.Underlying().(*types.Struct)
		}
	}
	return nil
}

func (d *jdecoder) decodeBytes(s Value) Value {
	if r, ok := s.(*Rope); ok {
		if len(r.Segs) == 1 && r.Segs[0].H != nil {
			return r.Segs[0].H.bytes()
		}
		panic(unsupported("json: base64 decode of symbolic string"))
	}
	b, err := stdBase64Decode(s.(string))
	if err != nil {
		panic(jsonErr{d.th.newError(err.Error())})
	}
	return strToBytes(string(b))
}

// generic decodes into interface{}.
func (d *jdecoder) generic(n *jnode) Value {
	in := d.th.ex.in
	anyT := types.NewInterfaceType(nil, nil)
	switch n.kind {
	case 'n':
		return Iface{}
	case 't', 'f':
		return Iface{T: types.Typ[types.Bool], V: n.kind == 't'}
	case 's':
		return Iface{T: types.Typ[types.String], V: n.str}
	case 'd':
		if d.useNumber {
			nt := in.Prog.ImportedPackage("encoding/json").Type("Number").Type()
			return Iface{T: nt, V: n.num}
		}
		if r, ok := n.num.(*Rope); ok {
			panic(unsupported("json: symbolic number %v into float64", r))
		}
		f, _ := strconv.ParseFloat(n.num.(string), 64)
		return Iface{T: types.Typ[types.Float64], V: f}
	case 'a':
		out := make([]Value, len(n.elems))
		for i, e := range n.elems {
			out[i] = d.generic(e)
		}
		return Iface{T: types.NewSlice(anyT), V: out}
	case 'o':
		m := newMap()
		for i, k := range n.keys {
			d.th.mapUpdate(m, k, d.generic(n.elems[i]))
		}
		return Iface{T: types.NewMap(types.Typ[types.String], anyT), V: m}
	}
	panic("generic")
}
