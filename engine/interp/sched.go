package interp

import (
	"fmt"
	"go/types"
	"math/big"
	"runtime/debug"
	"sort"
	"strings"
	"sync"

	"golang.org/x/tools/go/ssa"

	"symgo/smt"
	"symgo/sym"
)

// Config bounds one exploration.
type Config struct {
	MaxSteps     int  // SSA instructions per path
	Preemptions  int  // pre-emption bound at Yield points
	SchedDecide  bool // scheduler choices at blocking points are decisions (else lowest id)
	SelectDecide bool // choice among several ready select cases is a decision
	Crash        bool // offer "process dies here" at yields of non-main threads
	ReverseMaps  bool // iterate maps in reverse insertion order
	PanicIsViolation bool
	StopAtFirst  bool
}

type thState int

const (
	tsRunnable thState = iota
	tsBlocked
	tsDone
	tsQuiesce
)

type Thread struct {
	id        int
	name      string
	ex        *Exec
	wake      chan struct{}
	state     thState
	blockedOn string
	top       *frame
	depth     int
	curCaller *frame
	gen       int
	lastSite  string
	panicTrace string
	yields    int
	eager     bool    // unnamed helper goroutine: runs at once whenever it can, never a decision
	resumeTo  *Thread // eager: who gets the baton back when this thread blocks or ends
}

// Decision is one recorded choice.
type Decision struct {
	Kind   string `json:"k"`
	N      int    `json:"n"`
	Choice int    `json:"c"`
	Info   string `json:"info,omitempty"`
}

// Violation is a failed assertion (or panic) with a model.
type Violation struct {
	Kind    string            `json:"kind"` // assert | panic | deadlock
	Label   string            `json:"label"`
	Msg     string            `json:"msg,omitempty"`
	Model   map[string]string `json:"model"`
	Trace   []Decision        `json:"trace"`
	Sched   []SchedStep       `json:"sched,omitempty"`
	Stack   string            `json:"stack,omitempty"`
	Shape   int               `json:"shape"`
	Harness string            `json:"harness"`
}

// SchedStep is one segment of a schedule: Thread runs until it stops in the way Stop says.
type SchedStep struct {
	Thread string `json:"t"`
	Stop   string `json:"stop"` // yield (pre-empted at its N-th yield) | block | end | crash | free
	Site   string `json:"site,omitempty"`
	N      int    `json:"n,omitempty"`
}

// Exec is one execution (one path).
type Exec struct {
	gcells map[*ssa.Global]*Value // this execution's copies of package variables
	pools  map[*Value][]Value // sync.Pool contents of this execution
	in     *Interp
	cfg    Config
	solver *smt.Solver

	prefix []int
	pos    int
	trace  []Decision
	forks  [][]int
	pc     []*sym.Term

	threads []*Thread
	cur     *Thread
	killed  chan struct{}
	done    chan struct{}
	wg      sync.WaitGroup
	endOnce sync.Once

	outcome Outcome
	outMsg  string

	steps        int
	preemptions  int
	crashed      bool
	gen          int
	concreteOnly bool
	concreteOnlyInit bool

	inputs     map[string]*sym.Term // named symbolic inputs created on this path
	inputOrder []string
	chooses    map[string]int
	reached    map[string]bool
	violations []*Violation
	inconcl    []string
	assumes    map[string]int
	asserts    int
	assertsSym int
	schedLog   []SchedStep
	durable    []Value
	stubs      map[string]int
	printed    []string
	notes      []Value
	canary     bool
	clock      int64
	workers    int
	witness    map[string]string
}

func newExec(in *Interp, cfg Config, solver *smt.Solver) *Exec {
	if cfg.MaxSteps == 0 {
		cfg.MaxSteps = 2_000_000
	}
	return &Exec{
		in: in, cfg: cfg, solver: solver,
		killed: make(chan struct{}), done: make(chan struct{}),
		inputs: map[string]*sym.Term{}, chooses: map[string]int{}, reached: map[string]bool{},
		assumes: map[string]int{}, stubs: map[string]int{},
	}
}

func (ex *Exec) finish(out Outcome, msg string) {
	ex.endOnce.Do(func() {
		ex.outcome = out
		ex.outMsg = msg
		close(ex.killed)
		close(ex.done)
	})
}

// abort ends the path from inside a thread.
func (ex *Exec) abort(out Outcome, msg string) {
	panic(engineAbort{out, msg})
}

func (th *Thread) park() {
	select {
	case <-th.wake:
	case <-th.ex.killed:
		panic(killedSentinel{})
	}
}

func (ex *Exec) newThread(name string) *Thread {
	th := &Thread{id: len(ex.threads), name: name, ex: ex, wake: make(chan struct{}, 1), gen: ex.gen}
	if name == "" {
		th.name = fmt.Sprintf("g%d", th.id)
	}
	ex.threads = append(ex.threads, th)
	return th
}

// threadMain is the host goroutine body of an engine thread.
func (ex *Exec) threadMain(th *Thread, fn Value, args []Value, isMain bool) {
	defer ex.wg.Done()
	defer func() {
		r := recover()
		switch r := r.(type) {
		case nil:
		case killedSentinel:
			return
		case engineAbort:
			ex.finish(r.out, r.msg)
			return
		case *Unsupported:
			ex.finish(OutUnsupported, r.Msg+th.whereAmI())
			return
		case TargetPanic:
			// uncaught Go panic: the process dies
			msg := ex.panicMessage(th, r.V)
			ex.onProcessPanic(th, msg)
			return
		default:
			ex.finish(OutEngineError, fmt.Sprintf("%v\n%s", r, debug.Stack()))
			return
		}
		// normal end of thread
		th.state = tsDone
		if isMain {
			ex.finish(OutOK, "")
			return
		}
		func() {
			defer func() {
				switch r := recover().(type) {
				case nil, killedSentinel:
				case engineAbort:
					ex.finish(r.out, r.msg)
				default:
					ex.finish(OutEngineError, fmt.Sprintf("%v", r))
				}
			}()
			ex.reschedule(th, "end")
		}()
	}()
	th.park() // wait for the baton
	th.call(nil, 0, fn, args)
}

func (th *Thread) whereAmI() string {
	fr := th.top
	if fr == nil {
		return ""
	}
	var sb strings.Builder
	sb.WriteString(" [in ")
	n := 0
	for f := fr; f != nil && n < 6; f = f.caller {
		if n > 0 {
			sb.WriteString(" <- ")
		}
		sb.WriteString(f.fn.String())
		if f.pos.IsValid() {
			p := th.ex.in.Prog.Fset.Position(f.pos)
			sb.WriteString(fmt.Sprintf("@%d", p.Line))
		}
		n++
	}
	sb.WriteString("]")
	return sb.String()
}

func (ex *Exec) panicMessage(th *Thread, v Value) string {
	defer func() { recover() }()
	if it, ok := v.(Iface); ok && it.T != nil {
		switch x := it.V.(type) {
		case string:
			return fmt.Sprintf("%s: %s", it.T, x)
		}
		// error / Stringer: try to call Error() in concrete fashion
		if s, ok := th.tryErrorString(it); ok {
			return fmt.Sprintf("%s: %s", it.T, s)
		}
		return fmt.Sprintf("%s: %s", it.T, describe(it.V))
	}
	return describe(v)
}

// spawn creates a runnable thread for `go fn(args)`.
func (ex *Exec) spawn(fn Value, args []Value, name string) *Thread {
	th := ex.newThread(name)
	th.eager = name == ""
	ex.wg.Add(1)
	go ex.threadMain(th, fn, args, false)
	if th.eager && ex.cur != nil && !ex.concreteOnlyInit {
		ex.runEager(ex.cur, th)
	}
	return th
}

// runEager hands the baton to an eager thread and returns when it blocks or ends.
func (ex *Exec) runEager(cur, e *Thread) {
	if e.state != tsRunnable || e == cur {
		return
	}
	e.resumeTo = cur
	ex.cur = e
	e.wake <- struct{}{}
	cur.park()
}

// drainEager runs every runnable eager thread (made runnable by cur's last action).
func (ex *Exec) drainEager(cur *Thread) {
	for again := true; again; {
		again = false
		for _, t := range ex.threads {
			if t.eager && t.state == tsRunnable && t != cur {
				ex.runEager(cur, t)
				again = true
			}
		}
	}
}

func (ex *Exec) nextWorkerName() string {
	ex.workers++
	if ex.workers == 1 {
		return "worker"
	}
	return fmt.Sprintf("worker%d", ex.workers)
}

func (ex *Exec) runnable(except *Thread) []*Thread {
	var out []*Thread
	for _, t := range ex.threads {
		if t.state == tsRunnable && t != except {
			out = append(out, t)
		}
	}
	return out
}

// reschedule is called by cur when it blocks, ends or is pre-empted; it returns when cur
// is scheduled again (never, if cur is done).
func (ex *Exec) reschedule(cur *Thread, why string) {
	if cur.eager && cur.resumeTo != nil {
		// an eager helper gives the baton back to whoever let it run
		back := cur.resumeTo
		cur.resumeTo = nil
		finished := cur.state == tsDone
		ex.cur = back
		back.wake <- struct{}{}
		if !finished {
			cur.park()
		}
		return
	}
	stop := "block"
	if cur.state == tsDone {
		stop = "end"
	}
	ex.schedLog = append(ex.schedLog, SchedStep{Thread: cur.name, Stop: stop})
	var cands []*Thread
	for _, t := range ex.runnable(nil) {
		if t.eager {
			// should have been drained; run it now
			ex.runEager(cur, t)
			continue
		}
		cands = append(cands, t)
	}
	if cur.state == tsRunnable {
		// cur was woken while eager helpers ran (e.g. its own send was received)
		ex.schedLog = ex.schedLog[:len(ex.schedLog)-1]
		return
	}
	if len(cands) == 0 {
		// quiescence: wake a thread waiting for it
		for _, t := range ex.threads {
			if t.state == tsQuiesce {
				t.state = tsRunnable
				cands = append(cands, t)
				break
			}
		}
	}
	if len(cands) == 0 {
		var sb strings.Builder
		for _, t := range ex.threads {
			if t.state == tsBlocked {
				sb.WriteString(fmt.Sprintf("%s blocked on %s; ", t.name, t.blockedOn))
			}
		}
		ex.onDeadlock(cur, sb.String())
		return
	}
	next := cands[0]
	if len(cands) > 1 && ex.cfg.SchedDecide {
		c := ex.decide("sched", len(cands), nil, why)
		next = cands[c]
	}
	ex.switchTo(cur, next)
}

func (ex *Exec) switchTo(cur, next *Thread) {
	if next == cur {
		return
	}
	// read cur's state before the baton leaves: afterwards next runs concurrently with
	// the rest of this function (and may, e.g., crash cur's generation)
	finished := cur.state == tsDone
	ex.cur = next
	next.wake <- struct{}{}
	if !finished {
		cur.park()
	}
}

// block parks the current thread until another thread makes it runnable.
func (th *Thread) block(on string) {
	th.state = tsBlocked
	th.blockedOn = on
	th.ex.reschedule(th, "block:"+on)
}

func (th *Thread) makeRunnable() {
	if th.state == tsBlocked {
		th.state = tsRunnable
	}
}

// yield is a pre-emption point.
func (th *Thread) yield(site string) {
	ex := th.ex
	th.lastSite = site
	if ex.concreteOnly || th.eager {
		return
	}
	th.yields++
	var others []*Thread
	for _, t := range ex.runnable(th) {
		if !t.eager {
			others = append(others, t)
		}
	}
	nAlt := 1
	canPreempt := len(others) > 0 && ex.preemptions < ex.cfg.Preemptions
	if canPreempt {
		nAlt += len(others)
	}
	crashAlt := -1
	if ex.cfg.Crash && !ex.crashed && th.id != 0 && ex.preemptions < ex.cfg.Preemptions {
		crashAlt = nAlt
		nAlt++
	}
	if nAlt == 1 {
		return
	}
	c := ex.decide("yield", nAlt, nil, th.name+"@"+site)
	if c == 0 {
		return
	}
	if c == crashAlt {
		ex.doCrash(th, site)
		return
	}
	ex.preemptions++
	ex.schedLog = append(ex.schedLog, SchedStep{Thread: th.name, Stop: "yield", Site: site, N: th.yields})
	ex.switchTo(th, others[c-1])
}

// doCrash kills all threads of the current generation except main, and wakes main.
func (ex *Exec) doCrash(cur *Thread, site string) {
	ex.crashed = true
	ex.preemptions++ // a crash spends one unit of the pre-emption budget
	ex.gen++
	ex.schedLog = append(ex.schedLog, SchedStep{Thread: cur.name, Stop: "crash", Site: site, N: cur.yields})
	var main *Thread
	for _, t := range ex.threads {
		if t.id == 0 {
			main = t
			continue
		}
		if t.state != tsDone {
			t.state = tsDone // never scheduled again; its goroutine is reaped at path end
			t.blockedOn = "crashed"
		}
	}
	if main.state == tsBlocked || main.state == tsQuiesce {
		main.state = tsRunnable
		main.blockedOn = ""
	}
	ex.cur = main
	main.wake <- struct{}{}
	// the crashing thread stops here for good
	select {
	case <-ex.killed:
		panic(killedSentinel{})
	}
}

func (ex *Exec) onDeadlock(cur *Thread, msg string) {
	ex.abort(OutDeadlock, msg)
}

func (ex *Exec) onProcessPanic(th *Thread, msg string) {
	if th.panicTrace != "" {
		msg = msg + th.panicTrace
	} else {
		msg = msg + th.whereAmI()
	}
	if ex.cfg.PanicIsViolation && !ex.concreteOnly {
		func() {
			defer func() { recover() }()
			ex.recordViolation("panic", "go-panic", msg)
		}()
	}
	ex.finish(OutPanic, msg)
}

// ---------- decisions ----------

// decide records/replays a choice among n alternatives. cons[i] (optional) is the
// constraint added to the path condition by alternative i.
func (ex *Exec) decide(kind string, n int, cons []*sym.Term, info string) int {
	if ex.concreteOnly {
		ex.abort(OutUnsupported, "decision ("+kind+") in concrete-only execution: "+info)
	}
	if ex.pos < len(ex.prefix) {
		c := ex.prefix[ex.pos]
		ex.pos++
		ex.trace = append(ex.trace, Decision{kind, n, c, info})
		if cons != nil && cons[c] != nil {
			ex.addPC(cons[c])
		}
		return c
	}
	var feas []int
	for i := 0; i < n; i++ {
		if cons == nil || cons[i] == nil {
			feas = append(feas, i)
			continue
		}
		if cons[i].IsFalse() {
			continue
		}
		if cons[i].IsTrue() {
			feas = append(feas, i)
			continue
		}
		// binary optimisation: if all earlier alternatives are infeasible and this is the
		// last one, it must be feasible (PC is satisfiable and alternatives are exhaustive).
		if i == n-1 && len(feas) == 0 {
			feas = append(feas, i)
			continue
		}
		r := ex.solver.CheckWith(cons[i])
		if r != smt.Unsat {
			feas = append(feas, i)
		}
	}
	if len(feas) == 0 {
		ex.abort(OutInfeasible, "no feasible alternative at "+kind+" "+info)
	}
	c := feas[0]
	base := append([]int(nil), ex.prefix[:ex.pos]...)
	for _, j := range feas[1:] {
		p := append(append([]int(nil), base...), j)
		ex.forks = append(ex.forks, p)
	}
	ex.prefix = append(base, c)
	ex.pos++
	ex.trace = append(ex.trace, Decision{kind, n, c, info})
	if cons != nil && cons[c] != nil {
		ex.addPC(cons[c])
	}
	return c
}

func (ex *Exec) addPC(t *sym.Term) {
	if t.IsTrue() {
		return
	}
	ex.pc = append(ex.pc, t)
	ex.solver.Assert(t)
}

func (ex *Exec) decideBool(c *sym.Term) bool {
	i := ex.decide("br", 2, []*sym.Term{c, sym.Not(c)}, "")
	return i == 0
}

// assume constrains the path; ends it when infeasible.
func (ex *Exec) assume(c *sym.Term, why string) {
	if c.IsTrue() {
		return
	}
	if why != "" {
		ex.assumes[why]++
	}
	if c.IsFalse() {
		ex.abort(OutAssumeFalse, why)
	}
	if ex.concreteOnly {
		ex.abort(OutUnsupported, "symbolic assume in concrete execution")
	}
	// feasibility must be re-established (also inside the prefix: assumptions are not decisions)
	r := ex.solver.CheckWith(c)
	if r == smt.Unsat {
		ex.abort(OutAssumeFalse, why)
	}
	ex.addPC(c)
}

func modelToStrings(m map[string]*big.Int) map[string]string {
	out := map[string]string{}
	for k, v := range m {
		out[k] = v.String()
	}
	return out
}

// recordViolation asks for a model of the current PC (plus extra) and stores it.
func (ex *Exec) recordViolation(kind, label, msg string, extra ...*sym.Term) bool {
	r, m := ex.solver.CheckModel(extra...)
	switch r {
	case smt.Unsat:
		return false
	case smt.Unknown:
		ex.inconcl = append(ex.inconcl, fmt.Sprintf("%s %s: solver unknown", kind, label))
		return false
	}
	v := &Violation{Kind: kind, Label: label, Msg: msg, Model: modelToStrings(m)}
	for k, c := range ex.chooses {
		v.Model["choose:"+k] = fmt.Sprint(c)
	}
	v.Trace = append([]Decision(nil), ex.trace...)
	v.Sched = append([]SchedStep(nil), ex.schedLog...)
	if ex.cur != nil && len(v.Sched) > 0 {
		v.Sched = append(v.Sched, SchedStep{Thread: ex.cur.name, Stop: "free"})
	}
	ex.violations = append(ex.violations, v)
	return true
}

// assert checks cond on the current path.
func (ex *Exec) assertCond(c *sym.Term, label string) {
	ex.asserts++
	if c.IsTrue() {
		return
	}
	if ex.concreteOnly {
		if c.IsFalse() {
			ex.violations = append(ex.violations, &Violation{Kind: "assert", Label: label, Model: map[string]string{}})
			return
		}
		ex.abort(OutUnsupported, "symbolic assert in concrete execution")
	}
	ex.assertsSym++
	neg := sym.Not(c)
	if ex.recordViolation("assert", label, "", neg) {
		if ex.cfg.StopAtFirst {
			ex.abort(OutStop, "violation: "+label)
		}
		// continue on the side where the assertion holds, if any
		if c.IsFalse() {
			ex.abort(OutStop, "violation: "+label)
		}
		r := ex.solver.CheckWith(c)
		if r == smt.Unsat {
			ex.abort(OutStop, "violation (always): "+label)
		}
	}
	ex.addPC(c)
}

// ---------- channels ----------

func (th *Thread) chanSend(ch *Chan, v Value) {
	in := th.ex.in
	if ch == nil {
		th.block("send on nil chan")
		panic(engineAbort{OutDeadlock, "send on nil channel"})
	}
	if ch.closed {
		panic(in.runtimeError("send on closed channel"))
	}
	// waiting receiver?
	for len(ch.recvq) > 0 {
		w := ch.recvq[0]
		ch.recvq = ch.recvq[1:]
		if w.sel != nil {
			if w.sel.fired != nil {
				continue
			}
			w.sel.fired = w
		}
		w.val, w.ok, w.fired = v, true, true
		w.th.makeRunnable()
		th.ex.drainEager(th)
		return
	}
	if len(ch.buf) < ch.cap {
		ch.buf = append(ch.buf, v)
		return
	}
	w := &waiter{th: th, ch: ch, send: true, val: v}
	ch.sendq = append(ch.sendq, w)
	th.block("chan send")
	if w.closedP {
		panic(in.runtimeError("send on closed channel"))
	}
}

// tryRecv attempts a non-blocking receive.
func (ch *Chan) tryRecv() (Value, bool, bool) {
	if len(ch.buf) > 0 {
		v := ch.buf[0]
		ch.buf = ch.buf[1:]
		// admit a blocked sender
		for len(ch.sendq) > 0 {
			w := ch.sendq[0]
			ch.sendq = ch.sendq[1:]
			if w.sel != nil {
				if w.sel.fired != nil {
					continue
				}
				w.sel.fired = w
			}
			ch.buf = append(ch.buf, w.val)
			w.fired = true
			w.th.makeRunnable()
			break
		}
		return v, true, true
	}
	for len(ch.sendq) > 0 {
		w := ch.sendq[0]
		ch.sendq = ch.sendq[1:]
		if w.sel != nil {
			if w.sel.fired != nil {
				continue
			}
			w.sel.fired = w
		}
		w.fired = true
		w.th.makeRunnable()
		return w.val, true, true
	}
	if ch.closed {
		return nil, false, true
	}
	return nil, false, false
}

func (ch *Chan) canRecv() bool {
	if len(ch.buf) > 0 || ch.closed {
		return true
	}
	for _, w := range ch.sendq {
		if w.sel == nil || w.sel.fired == nil {
			return true
		}
	}
	return false
}

func (ch *Chan) canSend() bool {
	if ch.closed {
		return true // will panic
	}
	if len(ch.buf) < ch.cap {
		return true
	}
	for _, w := range ch.recvq {
		if w.sel == nil || w.sel.fired == nil {
			return true
		}
	}
	return false
}

func (th *Thread) chanRecv(ch *Chan) (Value, bool) {
	if ch == nil {
		th.block("recv on nil chan")
		panic(engineAbort{OutDeadlock, "receive on nil channel"})
	}
	if v, ok, done := ch.tryRecv(); done {
		th.ex.drainEager(th)
		if !ok {
			return th.ex.in.zero(ch.elem), false
		}
		return v, true
	}
	w := &waiter{th: th, ch: ch}
	ch.recvq = append(ch.recvq, w)
	th.block("chan recv")
	if !w.ok {
		return th.ex.in.zero(ch.elem), false
	}
	return w.val, true
}

func (th *Thread) chanClose(ch *Chan) {
	in := th.ex.in
	if ch == nil {
		panic(in.runtimeError("close of nil channel"))
	}
	if ch.closed {
		panic(in.runtimeError("close of closed channel"))
	}
	ch.closed = true
	for _, w := range ch.recvq {
		if w.sel != nil {
			if w.sel.fired != nil {
				continue
			}
			w.sel.fired = w
		}
		w.ok, w.fired = false, true
		w.th.makeRunnable()
	}
	ch.recvq = nil
	for _, w := range ch.sendq {
		if w.sel != nil {
			if w.sel.fired != nil {
				continue
			}
			w.sel.fired = w
		}
		w.closedP, w.fired = true, true
		w.th.makeRunnable()
	}
	ch.sendq = nil
	th.ex.drainEager(th)
}

func (th *Thread) selectOp(fr *frame, instr *ssa.Select) Value {
	in := th.ex.in
	ex := th.ex
	type cs struct {
		ch   *Chan
		send bool
		val  Value
	}
	cases := make([]cs, len(instr.States))
	for i, st := range instr.States {
		c := cs{ch: fr.get(st.Chan).(*Chan), send: st.Dir == types.SendOnly}
		if c.send {
			c.val = copyVal(fr.get(st.Send))
		}
		cases[i] = c
	}
	var ready []int
	for i, c := range cases {
		if c.ch == nil {
			continue
		}
		if c.send && c.ch.canSend() || !c.send && c.ch.canRecv() {
			ready = append(ready, i)
		}
	}
	chosen := -1
	var recvVal Value
	recvOk := false
	switch {
	case len(ready) == 1 || (len(ready) > 1 && !ex.cfg.SelectDecide):
		chosen = ready[0]
	case len(ready) > 1:
		chosen = ready[ex.decide("select", len(ready), nil, th.name)]
	case !instr.Blocking:
		chosen = -1
	default:
		// block on all
		ss := &selState{}
		for i, c := range cases {
			if c.ch == nil {
				continue
			}
			w := &waiter{th: th, ch: c.ch, send: c.send, val: c.val, sel: ss, caseIdx: i}
			ss.waiters = append(ss.waiters, w)
			if c.send {
				c.ch.sendq = append(c.ch.sendq, w)
			} else {
				c.ch.recvq = append(c.ch.recvq, w)
			}
		}
		th.block("select")
		w := ss.fired
		if w == nil {
			var sb strings.Builder
			for _, st := range ex.schedLog {
				sb.WriteString(fmt.Sprintf("%s:%s ", st.Thread, st.Stop))
			}
			panic(fmt.Sprintf("select woke without a fired case (thread %s state %d crashed=%v) sched: %s", th.name, th.state, ex.crashed, sb.String()))
		}
		// remove the other waiters
		for _, o := range ss.waiters {
			if o == w {
				continue
			}
			if o.send {
				o.ch.sendq = removeWaiter(o.ch.sendq, o)
			} else {
				o.ch.recvq = removeWaiter(o.ch.recvq, o)
			}
		}
		if w.send && w.closedP {
			panic(in.runtimeError("send on closed channel"))
		}
		r := Tuple{int64(w.caseIdx), w.ok}
		for i, st := range instr.States {
			if st.Dir == types.RecvOnly {
				var v Value
				if i == w.caseIdx && w.ok {
					v = w.val
				} else {
					v = in.zero(st.Chan.Type().Underlying().(*types.Chan).Elem())
				}
				r = append(r, v)
			}
		}
		return r
	}
	if chosen >= 0 {
		c := cases[chosen]
		if c.send {
			th.chanSend(c.ch, c.val)
		} else {
			recvVal, recvOk = th.chanRecv(c.ch)
		}
	}
	r := Tuple{int64(chosen), recvOk}
	for i, st := range instr.States {
		if st.Dir == types.RecvOnly {
			var v Value
			if i == chosen && recvOk {
				v = recvVal
			} else {
				v = in.zero(st.Chan.Type().Underlying().(*types.Chan).Elem())
			}
			r = append(r, v)
		}
	}
	return r
}

func removeWaiter(q []*waiter, w *waiter) []*waiter {
	for i, x := range q {
		if x == w {
			return append(q[:i:i], q[i+1:]...)
		}
	}
	return q
}

// ---------- mutex / waitgroup ----------

func (th *Thread) mutexLock(m *Mutex) {
	for m.locked || m.readers > 0 {
		m.waitq = append(m.waitq, th)
		th.block("mutex")
	}
	m.locked = true
}

func (th *Thread) mutexTryLock(m *Mutex) bool {
	if m.locked || m.readers > 0 {
		return false
	}
	m.locked = true
	return true
}

func (th *Thread) mutexUnlock(m *Mutex) {
	if !m.locked {
		panic(engineAbort{OutPanic, "fatal error: sync: unlock of unlocked mutex"})
	}
	m.locked = false
	q := m.waitq
	m.waitq = nil
	for _, w := range q {
		w.makeRunnable()
	}
}

func (th *Thread) mutexRLock(m *Mutex) {
	for m.locked {
		m.waitq = append(m.waitq, th)
		th.block("rwmutex")
	}
	m.readers++
}

func (th *Thread) mutexRUnlock(m *Mutex) {
	m.readers--
	if m.readers == 0 {
		q := m.waitq
		m.waitq = nil
		for _, w := range q {
			w.makeRunnable()
		}
	}
}

func (th *Thread) wgWait(w *WaitGroup) {
	for w.n > 0 {
		w.waitq = append(w.waitq, th)
		th.block("waitgroup")
	}
}

func (th *Thread) wgAdd(w *WaitGroup, d int) {
	w.n += d
	if w.n < 0 {
		panic(th.ex.in.runtimeError("sync: negative WaitGroup counter"))
	}
	if w.n == 0 {
		q := w.waitq
		w.waitq = nil
		for _, t := range q {
			t.makeRunnable()
		}
	}
}

// ---------- running one path ----------

// PathResult summarises one execution.
type PathResult struct {
	Outcome    Outcome
	Msg        string
	Forks      [][]int
	Trace      []Decision
	Violations []*Violation
	Inconcl    []string
	Reached    map[string]bool
	Assumes    map[string]int
	Steps      int
	Asserts    int
	AssertsSym int
	Stubs      map[string]int
	Inputs     []string
	Witness    map[string]string
	Notes      []string
	Sched      []SchedStep
	PCSize     int
}

// RunPath executes fn(args) following prefix.
func (in *Interp) runPath(cfg Config, solver *smt.Solver, fn *ssa.Function, args []Value, prefix []int, wantWitness bool, canary bool) *PathResult {
	ex := newExec(in, cfg, solver)
	ex.canary = canary
	ex.prefix = append([]int(nil), prefix...)
	solver.Reset()
	main := ex.newThread("main")
	ex.cur = main
	ex.wg.Add(1)
	go ex.threadMain(main, fn, args, true)
	main.wake <- struct{}{}
	<-ex.done
	ex.wg.Wait()
	res := &PathResult{
		Outcome: ex.outcome, Msg: ex.outMsg, Forks: ex.forks, Trace: ex.trace,
		Violations: ex.violations, Inconcl: ex.inconcl, Reached: ex.reached, Assumes: ex.assumes,
		Steps: ex.steps, Asserts: ex.asserts, AssertsSym: ex.assertsSym, Stubs: ex.stubs,
		Inputs: ex.inputOrder, PCSize: len(ex.pc),
	}
	if wantWitness && (ex.outcome == OutOK) {
		if r, m := solver.CheckModel(); r == smt.Sat {
			if len(ex.schedLog) > 0 {
				res.Sched = append(append([]SchedStep(nil), ex.schedLog...), SchedStep{Thread: "main", Stop: "free"})
			}
			res.Witness = modelToStrings(m)
			for _, n := range ex.notes {
				res.Notes = append(res.Notes, evalNote(n, m))
			}
			for k, c := range ex.chooses {
				res.Witness["choose:"+k] = fmt.Sprint(c)
			}
		}
	}
	return res
}

func (ex *Exec) runInitFn(fn *ssa.Function) interface{} {
	main := ex.newThread("init")
	ex.cur = main
	ex.killed = make(chan struct{})
	ex.done = make(chan struct{})
	ex.endOnce = sync.Once{}
	ex.wg.Add(1)
	go ex.threadMain(main, fn, nil, true)
	main.wake <- struct{}{}
	<-ex.done
	ex.wg.Wait()
	ex.threads = nil
	if ex.outcome != OutOK {
		return fmt.Sprintf("%v: %s", ex.outcome, ex.outMsg)
	}
	return nil
}

// evalNote renders a noted value under a model the way fmt.Sprint does natively.
func evalNote(v Value, m map[string]*big.Int) (out string) {
	defer func() {
		if r := recover(); r != nil {
			out = fmt.Sprintf("<unevaluable %v>", r)
		}
	}()
	ev := func(t *sym.Term) *big.Int {
		x, _ := sym.Eval(t, m)
		return x
	}
	switch v := v.(type) {
	case Iface:
		if v.T == nil {
			return "<nil>"
		}
		if ii, ok := intInfoOf(v.T); ok {
			switch x := v.V.(type) {
			case int64:
				if ii.signed {
					return fmt.Sprint(x)
				}
				return fmt.Sprint(uint64(x))
			case *sym.Term:
				u := ev(x).Uint64()
				if ii.signed {
					return fmt.Sprint(normInt(int64(u), ii))
				}
				return fmt.Sprint(u)
			}
		}
		return evalNote(v.V, m)
	case *Value:
		if v == nil {
			return "<nil>"
		}
		return evalNote(*v, m)
	case BigVal:
		return ev(v.Term()).String()
	case string:
		return v
	case *Rope:
		var sb strings.Builder
		for _, s := range v.Segs {
			switch {
			case s.D != nil:
				sb.WriteString(ev(s.D).String())
			case s.B != nil:
				sb.WriteByte(byte(ev(s.B).Uint64()))
			default:
				sb.WriteString(s.S)
			}
		}
		return sb.String()
	case bool:
		return fmt.Sprint(v)
	case *sym.Term:
		if v.Sort == sym.SBool {
			return fmt.Sprint(ev(v).Sign() != 0)
		}
		return ev(v).String()
	case int64:
		return fmt.Sprint(v)
	}
	return describe(v)
}

func sortedKeys(m map[string]int) []string {
	var ks []string
	for k := range m {
		ks = append(ks, k)
	}
	sort.Strings(ks)
	return ks
}
