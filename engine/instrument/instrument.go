// Package instrument inserts verifhook.Yield("<file>:<line>") before every statement
// of every function of a Go source file (overlay copies only; /repo is not touched).
package instrument

import (
	"bytes"
	"fmt"
	"go/ast"
	"go/format"
	"go/parser"
	"go/token"
	"path/filepath"
	"strconv"
)

const hookPath = "github.com/formancehq/stack/libs/go-libs/verifhook"

// File returns the instrumented source of filename (content src) and the number of yields.
func File(filename string, src []byte) ([]byte, int, error) {
	fset := token.NewFileSet()
	f, err := parser.ParseFile(fset, filename, src, parser.ParseComments)
	if err != nil {
		return nil, 0, err
	}
	base := filepath.Base(filename)
	n := 0
	mk := func(pos token.Pos) ast.Stmt {
		n++
		site := fmt.Sprintf("%s:%d", base, fset.Position(pos).Line)
		return &ast.ExprStmt{X: &ast.CallExpr{
			Fun:  &ast.SelectorExpr{X: ast.NewIdent("verifhook"), Sel: ast.NewIdent("Yield")},
			Args: []ast.Expr{&ast.BasicLit{Kind: token.STRING, Value: strconv.Quote(site)}},
		}}
	}
	var rewriteList func(list []ast.Stmt) []ast.Stmt
	var visitStmt func(s ast.Stmt)
	rewriteBlock := func(b *ast.BlockStmt) {
		if b != nil {
			b.List = rewriteList(b.List)
		}
	}
	var visitExpr func(e ast.Node)
	visitExpr = func(e ast.Node) {
		if e == nil {
			return
		}
		ast.Inspect(e, func(x ast.Node) bool {
			if fl, ok := x.(*ast.FuncLit); ok {
				rewriteBlock(fl.Body)
				return false
			}
			return true
		})
	}
	visitStmt = func(s ast.Stmt) {
		switch s := s.(type) {
		case *ast.BlockStmt:
			rewriteBlock(s)
		case *ast.IfStmt:
			visitExpr(s.Cond)
			rewriteBlock(s.Body)
			if s.Else != nil {
				visitStmt(s.Else)
			}
		case *ast.ForStmt:
			visitExpr(s.Cond)
			rewriteBlock(s.Body)
		case *ast.RangeStmt:
			visitExpr(s.X)
			rewriteBlock(s.Body)
		case *ast.SwitchStmt:
			visitExpr(s.Tag)
			for _, c := range s.Body.List {
				cc := c.(*ast.CaseClause)
				cc.Body = rewriteList(cc.Body)
			}
		case *ast.TypeSwitchStmt:
			for _, c := range s.Body.List {
				cc := c.(*ast.CaseClause)
				cc.Body = rewriteList(cc.Body)
			}
		case *ast.SelectStmt:
			for _, c := range s.Body.List {
				cc := c.(*ast.CommClause)
				cc.Body = rewriteList(cc.Body)
			}
		case *ast.LabeledStmt:
			visitStmt(s.Stmt)
		case *ast.ExprStmt:
			visitExpr(s.X)
		case *ast.AssignStmt:
			for _, r := range s.Rhs {
				visitExpr(r)
			}
		case *ast.ReturnStmt:
			for _, r := range s.Results {
				visitExpr(r)
			}
		case *ast.DeferStmt:
			visitExpr(s.Call)
		case *ast.GoStmt:
			visitExpr(s.Call)
		case *ast.DeclStmt:
			visitExpr(s.Decl)
		case *ast.SendStmt:
			visitExpr(s.Value)
		}
	}
	// x.Lock() on a sync.Mutex becomes verifhook.MutexLock(&x): identical under the engine,
	// controllable in native replays (TryLock loop under the schedule controller).
	lockCall := func(s ast.Stmt) ast.Stmt {
		es, ok := s.(*ast.ExprStmt)
		if !ok {
			return s
		}
		call, ok := es.X.(*ast.CallExpr)
		if !ok || len(call.Args) != 0 {
			return s
		}
		sel, ok := call.Fun.(*ast.SelectorExpr)
		if !ok || sel.Sel.Name != "Lock" {
			return s
		}
		return &ast.ExprStmt{X: &ast.CallExpr{
			Fun:  &ast.SelectorExpr{X: ast.NewIdent("verifhook"), Sel: ast.NewIdent("MutexLock")},
			Args: []ast.Expr{&ast.UnaryExpr{Op: token.AND, X: sel.X}},
		}}
	}
	rewriteList = func(list []ast.Stmt) []ast.Stmt {
		out := make([]ast.Stmt, 0, 2*len(list))
		for _, s := range list {
			out = append(out, mk(s.Pos()))
			visitStmt(s)
			out = append(out, lockCall(s))
		}
		return out
	}
	for _, d := range f.Decls {
		switch d := d.(type) {
		case *ast.FuncDecl:
			rewriteBlock(d.Body)
		case *ast.GenDecl:
			visitExpr(d)
		}
	}
	// add the import
	imp := &ast.ImportSpec{Path: &ast.BasicLit{Kind: token.STRING, Value: strconv.Quote(hookPath)}}
	gd := &ast.GenDecl{Tok: token.IMPORT, Specs: []ast.Spec{imp}}
	f.Decls = append([]ast.Decl{gd}, f.Decls...)
	f.Imports = append(f.Imports, imp)
	// drop position info of comments interplay: print without comments to keep it simple
	f.Comments = nil
	var buf bytes.Buffer
	if err := format.Node(&buf, token.NewFileSet(), f); err != nil {
		return nil, 0, err
	}
	return buf.Bytes(), n, nil
}
