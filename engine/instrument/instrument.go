// Package instrument inserts verifhook.Yield("<file>:<line>") before every statement
// of every function of a Go source file (overlay copies only; /repo is not touched).
package instrument

import (
	"bytes"
	"fmt"
	"go/ast"
	"go/format"
	"go/parser"
	"go/token"
	"go/types"
	"os"
	"path/filepath"
	"strconv"
	"strings"

	"golang.org/x/tools/go/packages"
)

const hookPath = "github.com/formancehq/stack/libs/go-libs/verifhook"

// SingleValued type-checks the packages holding the given files (absolute paths under
// repoDir) and returns, keyed "file:line:col", the calls of real functions (not
// conversions, not builtins) that yield exactly one value: the ones File may wrap in
// verifhook.YieldVal when they are an argument of another call.
func SingleValued(repoDir string, files []string) (map[string]bool, error) {
	want := map[string]bool{}
	byMod := map[string]map[string]bool{} // module dir -> package patterns
	for _, f := range files {
		want[f] = true
		rel := mustRel(repoDir, f)
		mod := repoDir
		if strings.HasPrefix(rel, "libs/") {
			mod, rel = filepath.Join(repoDir, "libs"), strings.TrimPrefix(rel, "libs/")
		}
		if byMod[mod] == nil {
			byMod[mod] = map[string]bool{}
		}
		byMod[mod]["./"+filepath.Dir(rel)] = true
	}
	var pkgs []*packages.Package
	for mod, ds := range byMod {
		var pats []string
		for d := range ds {
			pats = append(pats, d)
		}
		cfg := &packages.Config{
			Mode: packages.NeedName | packages.NeedFiles | packages.NeedCompiledGoFiles | packages.NeedSyntax | packages.NeedTypes | packages.NeedTypesInfo | packages.NeedImports,
			Dir:  mod,
			Env:  append(os.Environ(), "GOFLAGS=-mod=mod", "GOPROXY=off", "GOSUMDB=off", "GOTOOLCHAIN=local"),
		}
		ps, err := packages.Load(cfg, pats...)
		if err != nil {
			return nil, err
		}
		pkgs = append(pkgs, ps...)
	}
	out := map[string]bool{}
	for _, p := range pkgs {
		for _, e := range p.Errors {
			return nil, fmt.Errorf("type-checking %s: %v", p.PkgPath, e)
		}
		for _, f := range p.Syntax {
			name := p.Fset.Position(f.Pos()).Filename
			if !want[name] {
				continue
			}
			ast.Inspect(f, func(n ast.Node) bool {
				call, ok := n.(*ast.CallExpr)
				if !ok {
					return true
				}
				tv, ok := p.TypesInfo.Types[call.Fun]
				if !ok || tv.IsType() || tv.IsBuiltin() {
					return true
				}
				rt, ok := p.TypesInfo.Types[call]
				if !ok || rt.Type == nil || rt.IsVoid() || rt.Value != nil {
					return true
				}
				if _, tuple := rt.Type.(*types.Tuple); tuple {
					return true
				}
				if b, ok := rt.Type.(*types.Basic); ok && b.Info()&types.IsUntyped != 0 {
					return true
				}
				pos := p.Fset.Position(call.Pos())
				out[fmt.Sprintf("%s:%d:%d", pos.Filename, pos.Line, pos.Column)] = true
				return true
			})
		}
	}
	return out, nil
}

func mustRel(base, p string) string {
	r, err := filepath.Rel(base, p)
	if err != nil {
		return p
	}
	return r
}

// File returns the instrumented source of filename (content src) and the number of yields.
// single (from SingleValued; may be nil) names the nested calls that get a YieldVal.
func File(filename string, src []byte, single map[string]bool) ([]byte, int, error) {
	fset := token.NewFileSet()
	f, err := parser.ParseFile(fset, filename, src, parser.ParseComments)
	if err != nil {
		return nil, 0, err
	}
	base := filepath.Base(filename)
	n := 0
	mk := func(pos token.Pos) ast.Stmt {
		n++
		site := fmt.Sprintf("%s:%d", base, fset.Position(pos).Line)
		return &ast.ExprStmt{X: &ast.CallExpr{
			Fun:  &ast.SelectorExpr{X: ast.NewIdent("verifhook"), Sel: ast.NewIdent("Yield")},
			Args: []ast.Expr{&ast.BasicLit{Kind: token.STRING, Value: strconv.Quote(site)}},
		}}
	}
	var rewriteList func(list []ast.Stmt) []ast.Stmt
	var visitStmt func(s ast.Stmt)
	rewriteBlock := func(b *ast.BlockStmt) {
		if b != nil {
			b.List = rewriteList(b.List)
		}
	}
	// an argument that is itself a call of a single-valued function gets a pre-emption
	// point between its return and the outer call: f(g(x)) -> f(verifhook.YieldVal(site, g(x)))
	wrapArgs := func(call *ast.CallExpr) {
		for i, a := range call.Args {
			inner, ok := a.(*ast.CallExpr)
			if !ok {
				continue
			}
			pos := fset.Position(inner.Pos())
			if !single[fmt.Sprintf("%s:%d:%d", pos.Filename, pos.Line, pos.Column)] {
				continue
			}
			n++
			site := fmt.Sprintf("%s:%d.%d", base, pos.Line, pos.Column)
			call.Args[i] = &ast.CallExpr{
				Fun:  &ast.SelectorExpr{X: ast.NewIdent("verifhook"), Sel: ast.NewIdent("YieldVal")},
				Args: []ast.Expr{&ast.BasicLit{Kind: token.STRING, Value: strconv.Quote(site)}, inner},
			}
		}
	}
	var visitExpr func(e ast.Node)
	visitExpr = func(e ast.Node) {
		if e == nil {
			return
		}
		ast.Inspect(e, func(x ast.Node) bool {
			if fl, ok := x.(*ast.FuncLit); ok {
				rewriteBlock(fl.Body)
				return false
			}
			if call, ok := x.(*ast.CallExpr); ok {
				// children first (their positions are still the original ones)
				for _, a := range call.Args {
					visitExpr(a)
				}
				visitExpr(call.Fun)
				wrapArgs(call)
				return false
			}
			return true
		})
	}
	visitStmt = func(s ast.Stmt) {
		switch s := s.(type) {
		case *ast.BlockStmt:
			rewriteBlock(s)
		case *ast.IfStmt:
			visitExpr(s.Cond)
			rewriteBlock(s.Body)
			if s.Else != nil {
				visitStmt(s.Else)
			}
		case *ast.ForStmt:
			visitExpr(s.Cond)
			rewriteBlock(s.Body)
		case *ast.RangeStmt:
			visitExpr(s.X)
			rewriteBlock(s.Body)
		case *ast.SwitchStmt:
			visitExpr(s.Tag)
			for _, c := range s.Body.List {
				cc := c.(*ast.CaseClause)
				cc.Body = rewriteList(cc.Body)
			}
		case *ast.TypeSwitchStmt:
			for _, c := range s.Body.List {
				cc := c.(*ast.CaseClause)
				cc.Body = rewriteList(cc.Body)
			}
		case *ast.SelectStmt:
			for _, c := range s.Body.List {
				cc := c.(*ast.CommClause)
				cc.Body = rewriteList(cc.Body)
			}
		case *ast.LabeledStmt:
			visitStmt(s.Stmt)
		case *ast.ExprStmt:
			visitExpr(s.X)
		case *ast.AssignStmt:
			for _, r := range s.Rhs {
				visitExpr(r)
			}
		case *ast.ReturnStmt:
			for _, r := range s.Results {
				visitExpr(r)
			}
		case *ast.DeferStmt:
			visitExpr(s.Call)
		case *ast.GoStmt:
			visitExpr(s.Call)
		case *ast.DeclStmt:
			visitExpr(s.Decl)
		case *ast.SendStmt:
			visitExpr(s.Value)
		}
	}
	// x.Lock() on a sync.Mutex becomes verifhook.MutexLock(&x): identical under the engine,
	// controllable in native replays (TryLock loop under the schedule controller).
	lockCall := func(s ast.Stmt) ast.Stmt {
		es, ok := s.(*ast.ExprStmt)
		if !ok {
			return s
		}
		call, ok := es.X.(*ast.CallExpr)
		if !ok || len(call.Args) != 0 {
			return s
		}
		sel, ok := call.Fun.(*ast.SelectorExpr)
		if !ok || sel.Sel.Name != "Lock" {
			return s
		}
		return &ast.ExprStmt{X: &ast.CallExpr{
			Fun:  &ast.SelectorExpr{X: ast.NewIdent("verifhook"), Sel: ast.NewIdent("MutexLock")},
			Args: []ast.Expr{&ast.UnaryExpr{Op: token.AND, X: sel.X}},
		}}
	}
	rewriteList = func(list []ast.Stmt) []ast.Stmt {
		out := make([]ast.Stmt, 0, 2*len(list))
		for _, s := range list {
			out = append(out, mk(s.Pos()))
			visitStmt(s)
			out = append(out, lockCall(s))
		}
		return out
	}
	for _, d := range f.Decls {
		switch d := d.(type) {
		case *ast.FuncDecl:
			rewriteBlock(d.Body)
		case *ast.GenDecl:
			visitExpr(d)
		}
	}
	// add the import
	imp := &ast.ImportSpec{Path: &ast.BasicLit{Kind: token.STRING, Value: strconv.Quote(hookPath)}}
	gd := &ast.GenDecl{Tok: token.IMPORT, Specs: []ast.Spec{imp}}
	f.Decls = append([]ast.Decl{gd}, f.Decls...)
	f.Imports = append(f.Imports, imp)
	// drop position info of comments interplay: print without comments to keep it simple
	f.Comments = nil
	var buf bytes.Buffer
	if err := format.Node(&buf, token.NewFileSet(), f); err != nil {
		return nil, 0, err
	}
	return buf.Bytes(), n, nil
}
